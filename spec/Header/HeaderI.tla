------------------------------- MODULE HeaderI -------------------------------
(* Implementation-shaped specification of sam.Header's reference list: the slice, the    *)
(* name table (seenRefs: name -> index), and per object its owner, id, name and length.   *)
(* Actions mirror the code paths of AddReference (fresh / equal duplicate / refining       *)
(* duplicate that replaces the stored object), RemoveReference and Reference.SetName.      *)
(* Read groups and programs have the same structure without the replace path.              *)
(* Switches for the pinned revision's behaviour:                                           *)
(*   StaleTable    RemoveReference does not renumber the table and keeps the owner         *)
(*   BareReplace   the replace path stores the object without owner and id and does not     *)
(*                 release the replaced one, and accepts an object owned elsewhere          *)
EXTENDS Integers, Sequences, FiniteSets
CONSTANTS Objs, Names, Hdrs, StaleTable, BareReplace
NoHdr == 0
ASSUME NoHdr \notin Hdrs
VARIABLES refs,     \* [Hdrs -> Seq(Objs)]
          seen,     \* [Hdrs -> [Names -> index or -1]]
          owner, id, name, len, detail    \* per object
vars == <<refs, seen, owner, id, name, len, detail>>
Init == /\ refs = [h \in Hdrs |-> <<>>] /\ seen = [h \in Hdrs |-> [n \in Names |-> -1]]
        /\ owner = [o \in Objs |-> NoHdr] /\ id = [o \in Objs |-> -1]
        /\ name \in [Objs -> Names] /\ len \in [Objs -> {1, 2}] /\ detail \in [Objs -> {0, 1}]
\* equalRefs restricted to what matters here: ids compatible, name, length, detail compatible
EqualRefs(a, b) == /\ ~(id[a] # -1 /\ id[b] # -1 /\ id[a] # id[b])
                   /\ name[a] = name[b] /\ len[a] = len[b] /\ detail[a] = detail[b]
Add(h, o) ==
    LET n == name[o]
    IN IF seen[h][n] # -1
       THEN LET k == seen[h][n]
                e == refs[h][k + 1]            \* `er := bh.refs[dupID]` (panics if the table is stale)
            IN /\ k + 1 \in DOMAIN refs[h]
               /\ IF EqualRefs(e, o) \/ len[e] # len[o] THEN UNCHANGED vars         \* nil / errDupReference
                  ELSE IF ~BareReplace /\ owner[o] # NoHdr THEN UNCHANGED vars      \* errUsedReference
                  ELSE /\ refs' = [refs EXCEPT ![h][k + 1] = o]
                       /\ IF BareReplace THEN UNCHANGED <<owner, id>>
                          ELSE /\ owner' = [owner EXCEPT ![o] = h, ![e] = NoHdr]
                               /\ id' = [id EXCEPT ![o] = k, ![e] = -1]
                       /\ UNCHANGED <<seen, name, len, detail>>
       ELSE IF owner[o] # NoHdr \/ id[o] >= 0 THEN UNCHANGED vars                   \* errUsedReference
       ELSE /\ refs' = [refs EXCEPT ![h] = Append(@, o)]
            /\ seen' = [seen EXCEPT ![h][n] = Len(refs[h])]
            /\ owner' = [owner EXCEPT ![o] = h] /\ id' = [id EXCEPT ![o] = Len(refs[h])]
            /\ UNCHANGED <<name, len, detail>>
Remove(h, o) ==
    IF id[o] < 0 \/ id[o] >= Len(refs[h]) \/ refs[h][id[o] + 1] # o THEN UNCHANGED vars      \* errInvalidReference
    ELSE LET k == id[o]
             rest == [i \in 1..(Len(refs[h]) - 1) |-> IF i <= k THEN refs[h][i] ELSE refs[h][i + 1]]
         IN /\ refs' = [refs EXCEPT ![h] = rest]
            /\ id' = [x \in Objs |-> IF x = o THEN -1 ELSE IF \E i \in (k + 1)..Len(rest) : rest[i] = x THEN id[x] - 1 ELSE id[x]]
            /\ IF StaleTable
               THEN /\ seen' = [seen EXCEPT ![h][name[o]] = -1] /\ UNCHANGED owner
               ELSE /\ seen' = [seen EXCEPT ![h] = [n \in Names |-> IF n = name[o] THEN -1
                                                                  ELSE IF @[n] > k THEN @[n] - 1 ELSE @[n]]]
                    /\ owner' = [owner EXCEPT ![o] = NoHdr]
            /\ UNCHANGED <<name, len, detail>>
SetName(o, n) ==
    IF owner[o] = NoHdr THEN name' = [name EXCEPT ![o] = n] /\ UNCHANGED <<refs, seen, owner, id, len, detail>>
    ELSE LET h == owner[o]
         IN IF seen[h][n] # -1 THEN UNCHANGED vars                      \* exists (error, or the same object: no change)
            ELSE /\ seen' = [seen EXCEPT ![h] = [@ EXCEPT ![name[o]] = -1, ![n] = id[o]]]
                 /\ name' = [name EXCEPT ![o] = n] /\ UNCHANGED <<refs, owner, id, len, detail>>
Next == \/ \E h \in Hdrs, o \in Objs : Add(h, o) \/ Remove(h, o)
        \/ \E o \in Objs, n \in Names : SetName(o, n)
Spec == Init /\ [][Next]_vars
\* ---- invariants (HeaderP's, plus the table) ---------------------------------------------
IdsAreIndices == \A h \in Hdrs : \A i \in DOMAIN refs[h] : id[refs[h][i]] = i - 1
Owned == \A h \in Hdrs : \A i \in DOMAIN refs[h] : owner[refs[h][i]] = h
UniqueNames == \A h \in Hdrs : \A i, j \in DOMAIN refs[h] : name[refs[h][i]] = name[refs[h][j]] => i = j
InOneList == \A o \in Objs : Cardinality({<<h, i>> \in Hdrs \X (1..Cardinality(Objs)) : i \in DOMAIN refs[h] /\ refs[h][i] = o}) <= 1
TablesMatch == \A h \in Hdrs : \A n \in Names :
                  IF \E i \in DOMAIN refs[h] : name[refs[h][i]] = n
                  THEN seen[h][n] + 1 \in DOMAIN refs[h] /\ name[refs[h][seen[h][n] + 1]] = n
                  ELSE seen[h][n] = -1
\* a removed object can be added again (its owner is released)
Released == \A o \in Objs : (\A h \in Hdrs : \A i \in DOMAIN refs[h] : refs[h][i] # o) => owner[o] = NoHdr /\ id[o] = -1
=============================================================================
