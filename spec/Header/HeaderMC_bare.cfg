SPECIFICATION Spec
CONSTANTS
  Objs = {1, 2, 3}
  Names = {"a", "b"}
  Hdrs = {1, 2}
  StaleTable = FALSE
  BareReplace = TRUE
INVARIANTS IdsAreIndices Owned UniqueNames InOneList TablesMatch Released
CHECK_DEADLOCK FALSE
