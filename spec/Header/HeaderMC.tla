---- MODULE HeaderMC ----
EXTENDS HeaderI
====
