------------------------------- MODULE HeaderP -------------------------------
(* Property-level specification of SAM headers under edits (C07).  The state is, per     *)
(* live header, three lists: references [o, name, len], read groups [o, name], programs  *)
(* [o, name] (o = identity of the object).  The operations are the public API; where the  *)
(* documentation leaves the outcome open (adding a reference whose name is already        *)
(* present) every documented outcome is allowed, but the invariants must hold after       *)
(* every step: ids equal indices, names are unique, an object is in at most one list.     *)
EXTENDS Integers, Sequences, FiniteSets
VARIABLES hdr        \* function: header id -> [refs, rgs, progs] (sequences of records)
Names(s) == {s[i].name : i \in DOMAIN s}
Objs(s) == {s[i].o : i \in DOMAIN s}
Has(s, n) == \E i \in DOMAIN s : s[i].name = n
IndexOfName(s, n) == CHOOSE i \in DOMAIN s : s[i].name = n
IndexOfObj(s, o) == CHOOSE i \in DOMAIN s : s[i].o = o
Without(s, o) == SelectSeq(s, LAMBDA x : x.o # o)
Live == DOMAIN hdr
\* where an object currently is: <<header, kind>> or <<0, "">>
ListedIn(o, kind) == {h \in Live : o \in Objs(hdr[h][kind])}
Free(o, kind) == ListedIn(o, kind) = {}
UniqueIn(s) == \A i, j \in DOMAIN s : (s[i].name = s[j].name \/ s[i].o = s[j].o) => i = j

\* ---- list operations shared by the three kinds -------------------------------------
\* Add(h, kind, x): x = [o, name(, len)]; res = "nil" or "err"
AddNew(h, kind, x, res) ==
    /\ ~Has(hdr[h][kind], x.name)
    /\ IF Free(x.o, kind)
       THEN res = "nil" /\ hdr' = [hdr EXCEPT ![h][kind] = Append(@, x)]
       ELSE res = "err" /\ UNCHANGED hdr                       \* an object listed elsewhere cannot be added
AddDup(h, kind, x, res) ==       \* read groups and programs: a duplicate name is an error
    /\ Has(hdr[h][kind], x.name) /\ res = "err" /\ UNCHANGED hdr
\* references: a name already present - equal is accepted without change, a conflict is an
\* error, and a compatible more detailed description may replace the stored object
AddDupRef(h, x, res) ==
    /\ Has(hdr[h].refs, x.name)
    /\ LET i == IndexOfName(hdr[h].refs, x.name)
           e == hdr[h].refs[i]
       IN \/ res = "err" /\ UNCHANGED hdr
          \/ res = "nil" /\ e.len = x.len /\ UNCHANGED hdr
          \/ res = "nil" /\ e.len = x.len /\ Free(x.o, "refs") /\ hdr' = [hdr EXCEPT ![h].refs[i] = x]
Remove(h, kind, o, res) ==
    IF o \in Objs(hdr[h][kind])
    THEN res = "nil" /\ hdr' = [hdr EXCEPT ![h][kind] = Without(@, o)]
    ELSE res = "err" /\ UNCHANGED hdr
\* SetName on an object: listed -> the name must stay unique in its list; free -> always succeeds
SetName(kind, o, n, res) ==
    IF Free(o, kind) THEN res = "nil" /\ UNCHANGED hdr
    ELSE LET h == CHOOSE h \in ListedIn(o, kind) : TRUE
             i == IndexOfObj(hdr[h][kind], o)
         IN IF \E j \in DOMAIN hdr[h][kind] : j # i /\ hdr[h][kind][j].name = n
            THEN res = "err" /\ UNCHANGED hdr
            ELSE res = "nil" /\ hdr' = [hdr EXCEPT ![h][kind][i].name = n]
\* ---- the invariants of the property ----------------------------------------------------
Invariants == \A h \in Live : \A kind \in {"refs", "rgs", "progs"} : UniqueIn(hdr[h][kind])
=============================================================================
