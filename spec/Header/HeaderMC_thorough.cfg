SPECIFICATION Spec
CONSTANTS
  Objs = {1, 2, 3, 4}
  Names = {"a", "b", "c"}
  Hdrs = {1, 2}
  StaleTable = FALSE
  BareReplace = FALSE
INVARIANTS IdsAreIndices Owned UniqueNames InOneList TablesMatch Released
CHECK_DEADLOCK FALSE
