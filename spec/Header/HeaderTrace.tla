------------------------------- MODULE HeaderTrace -------------------------------
(* Trace specification for C07.  After every API call the harness logs the call, its      *)
(* result and the full projection of every live header: per list the objects with their    *)
(* identity, ID(), name (and length).  The observed lists must be what HeaderP's step      *)
(* yields, ids must equal indices, and every serialisation check must hold.                *)
EXTENDS HeaderP, TLC, Json, IOUtils
Trace == ndJsonDeserialize(IOEnv.TRACE)
VARIABLES l, rej, names
vars == <<hdr, l, rej, names>>
Ev == Trace[l]
IsEv(e) == l <= Len(Trace) /\ Ev.ev = e /\ l' = l + 1 /\ UNCHANGED rej
Empty == [refs |-> <<>>, rgs |-> <<>>, progs |-> <<>>]
Init == l = 1 /\ rej = <<>> /\ hdr = <<>> /\ names = <<>>
\* the logged projection of header h: sequences of <<o, id, name, len>>
Obs(h) == Ev.state[h]
Proj(s, withLen) == [i \in 1..Len(s) |-> IF withLen THEN [o |-> s[i][1], name |-> s[i][3], len |-> s[i][4]] ELSE [o |-> s[i][1], name |-> s[i][3]]]
ObsHdr(h) == [refs |-> Proj(Obs(h).refs, TRUE), rgs |-> Proj(Obs(h).rgs, FALSE), progs |-> Proj(Obs(h).progs, FALSE)]
IdsAreIndices(h) == \A kind \in {"refs", "rgs", "progs"} : \A i \in 1..Len(Obs(h)[kind]) : Obs(h)[kind][i][2] = i - 1
\* what is observed after the step is the specification's state, with ids equal to indices
Matches == /\ Len(Ev.state) = Len(hdr')
           /\ \A h \in 1..Len(Ev.state) : ObsHdr(h) = hdr'[h] /\ IdsAreIndices(h)
           /\ Invariants'
\* serialisation: text -> parse -> text and binary -> parse -> binary are fixpoints and the
\* re-parsed header exposes the same lists (checked for the header the step touched)
SerialOK == Ev.serial = "ok"
Reset == IsEv("T") /\ hdr' = <<>> /\ names' = <<>>
NewHeader == /\ IsEv("newheader") /\ Ev.res = "nil"
             \* NewHeader(nil, refs): the given references are the new header's reference list
             /\ hdr' = Append(hdr, [Empty EXCEPT !.refs = [i \in 1..Len(Ev.init) |-> [o |-> Ev.init[i][1], name |-> Ev.init[i][2], len |-> Ev.init[i][3]]]])
             /\ UNCHANGED names /\ Matches /\ SerialOK
X(e) == IF "len" \in DOMAIN e.x THEN [o |-> e.x.o, name |-> e.x.name, len |-> e.x.len] ELSE [o |-> e.x.o, name |-> e.x.name]
Add == /\ IsEv("add") /\ Ev.res \in {"nil", "err"}
       /\ \/ AddNew(Ev.h, Ev.kind, X(Ev), Ev.res)
          \/ (Ev.kind # "refs" /\ AddDup(Ev.h, Ev.kind, X(Ev), Ev.res))
          \/ (Ev.kind = "refs" /\ AddDupRef(Ev.h, X(Ev), Ev.res))
       /\ UNCHANGED names /\ Matches /\ SerialOK
Rem == /\ IsEv("remove") /\ Ev.res \in {"nil", "err"}
       /\ Remove(Ev.h, Ev.kind, Ev.o, Ev.res)
       /\ UNCHANGED names /\ Matches /\ SerialOK
Rename == /\ IsEv("setname") /\ Ev.res \in {"nil", "err"}
          /\ SetName(Ev.kind, Ev.o, Ev.name, Ev.res)
          /\ UNCHANGED names /\ Matches /\ SerialOK
\* Clone: a new header with new objects carrying the same names (and lengths), same order
SameShape(a, b) == /\ Len(a) = Len(b)
                   /\ \A i \in DOMAIN a : a[i].name = b[i].name /\ (("len" \in DOMAIN a[i]) => a[i].len = b[i].len)
\* (object identities are per kind)
FreshObjs(s, old, k) == \A i \in DOMAIN s : \A h \in DOMAIN old : s[i].o \notin Objs(old[h][k])
Clone == /\ IsEv("clone") /\ Ev.res = "nil"
         /\ LET n == Len(hdr) + 1
                c == ObsHdr(n)
            IN /\ Len(Ev.state) = n
               /\ \A kind \in {"refs", "rgs", "progs"} : SameShape(c[kind], hdr[Ev.h][kind]) /\ FreshObjs(c[kind], hdr, kind)
               /\ hdr' = Append(hdr, c)
         /\ UNCHANGED names /\ Matches /\ SerialOK
\* MergeHeaders(a, b): references of a, then those of b whose names are new; read groups and
\* programs of a; every source reference is linked to the listed object of that name and length
RECURSIVE NewOnes(_, _, _)
NewOnes(bs, i, seen) == IF i > Len(bs) THEN <<>>
                        ELSE IF bs[i].name \in seen THEN NewOnes(bs, i + 1, seen)
                        ELSE <<bs[i]>> \o NewOnes(bs, i + 1, seen \cup {bs[i].name})
Conflict(a, b) == \E i \in DOMAIN a, j \in DOMAIN b : a[i].name = b[j].name /\ a[i].len # b[j].len
Merge == /\ IsEv("merge")
         /\ LET a == hdr[Ev.a]
                b == hdr[Ev.b]
            IN IF Ev.res = "nil"
               THEN LET n == Len(hdr) + 1
                        m == ObsHdr(n)
                        want == a.refs \o NewOnes(b.refs, 1, Names(a.refs))
                    IN /\ Len(Ev.state) = n
                       /\ SameShape(m.refs, want) /\ SameShape(m.rgs, a.rgs) /\ SameShape(m.progs, a.progs)
                       /\ \A kind \in {"refs", "rgs", "progs"} : FreshObjs(m[kind], hdr, kind)
                       /\ hdr' = Append(hdr, m)
                       \* links[src][j] = the object listed in the merged header under source j's name
                       /\ Len(Ev.links[1]) = Len(a.refs) /\ Len(Ev.links[2]) = Len(b.refs)
                       /\ \A j \in DOMAIN a.refs : \E k \in DOMAIN m.refs : m.refs[k].o = Ev.links[1][j] /\ m.refs[k].name = a.refs[j].name /\ m.refs[k].len = a.refs[j].len
                       /\ \A j \in DOMAIN b.refs : \E k \in DOMAIN m.refs : m.refs[k].o = Ev.links[2][j] /\ m.refs[k].name = b.refs[j].name /\ m.refs[k].len = b.refs[j].len
               ELSE /\ Ev.res = "err" /\ (Conflict(a.refs, b.refs) \/ Ev.optconflict) /\ UNCHANGED hdr
         /\ UNCHANGED names /\ Matches /\ SerialOK
\* UnmarshalText of additional @SQ/@RG/@PG lines: like Add of fresh objects created by the parser
Parse == /\ IsEv("parse") /\ Ev.res \in {"nil", "err"}
         /\ IF Ev.res = "err" THEN (Ev.dupname \/ Ev.malformed) /\ UNCHANGED hdr            \* nothing may be half-applied... see note
            ELSE LET o == ObsHdr(Ev.h)
                     kind == Ev.kind
                 IN IF Has(hdr[Ev.h][kind], Ev.name)
                    THEN /\ kind = "refs"                                  \* only @SQ may repeat a name
                         /\ SameShape(o[kind], hdr[Ev.h][kind])
                         /\ hdr' = [hdr EXCEPT ![Ev.h] = o]
                    ELSE /\ Len(o[kind]) = Len(hdr[Ev.h][kind]) + 1
                         /\ SubSeq(o[kind], 1, Len(hdr[Ev.h][kind])) = hdr[Ev.h][kind]
                         /\ o[kind][Len(o[kind])].name = Ev.name
                         /\ FreshObjs(<<o[kind][Len(o[kind])]>>, hdr, kind)
                         /\ hdr' = [hdr EXCEPT ![Ev.h] = o]
         /\ UNCHANGED names /\ Matches /\ SerialOK
Regular == Reset \/ NewHeader \/ Add \/ Rem \/ Rename \/ Clone \/ Merge \/ Parse
RECURSIVE NextHdr(_)
NextHdr(i) == IF i > Len(Trace) THEN i ELSE IF Trace[i].ev = "T" THEN i ELSE NextHdr(i + 1)
Skip == /\ l <= Len(Trace) /\ ~ENABLED Regular
        /\ rej' = Append(rej, [sc |-> Ev.sc, line |-> l]) /\ l' = NextHdr(l + 1)
        /\ UNCHANGED <<hdr, names>>
Done == /\ l = Len(Trace) + 1
        /\ PrintT("VERIF-DONE " \o ToJson([lines |-> Len(Trace), rej |-> rej]))
        /\ l' = l + 1 /\ UNCHANGED <<hdr, rej, names>>
Next == Regular \/ Skip \/ Done
Spec == Init /\ [][Next]_vars
=============================================================================
