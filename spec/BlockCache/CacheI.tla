------------------------------- MODULE CacheI -------------------------------
(* Implementation-shaped specification of bgzf/cache/cache.go: the doubly linked list   *)
(* of LRU and FIFO (used blocks inserted at the front, unused at the back, eviction     *)
(* and drop from the back), FIFO.Get leaving used blocks in place, Random's table with  *)
(* arbitrary choice, Resize = drop-then-set-cap, drop's loop bound.  `list` is front    *)
(* (most protected) to back; for Random the order carries no meaning.  ageq/est/last    *)
(* are the history variables CacheP talks about; TLC checks CacheI => CacheP.            *)
(*                                                                                      *)
(* Named deviations of the code from its documentation:                                 *)
(*   FIFOGetKeepsUsed  - FIFO.Get does not remove a used block (bgzf.Cache says it must) *)
(*   PutHeldSameObject - what Put answers for a block object the table still maps        *)
EXTENDS Integers, Sequences, FiniteSets
CONSTANTS Policy, Bases, Ids,
          FixedPutHeld      \* TRUE: Put of an object the table still maps hands back nothing
NIL == 0
VARIABLES cap, list, key, ageq, blk, est, last
vars == <<cap, list, key, ageq, blk, est, last>>

held == {list[i] : i \in DOMAIN list}
P == INSTANCE CacheP

Front(x) == <<x>> \o list
Back(x) == Append(list, x)
Without(s, x) == SelectSeq(s, LAMBDA y : y # x)
BackOf == list[Len(list)]
InTable(b) == {x \in held : key[x] = b}

Init == /\ cap \in 1..3
        /\ list = <<>> /\ ageq = <<>>
        /\ key = [x \in Ids |-> NIL]
        /\ blk \in [Ids -> [base : Bases, used : BOOLEAN]]
        /\ est = [x \in Ids |-> "fresh"]
        /\ last = [op |-> "init"]

\* which block a full cache evicts
EvictChoice == IF Policy = "Random"
               THEN (IF P!UnusedIn(held) # {} THEN P!UnusedIn(held) ELSE held)
               ELSE {BackOf}

Put(id) ==
    /\ est[id] # "in"
    /\ UNCHANGED <<cap, blk>>
    /\ LET b == blk[id].base
           u == blk[id].used
       IN IF InTable(b) # {}
          THEN \* `if _, ok := c.table[b.Base()]; ok { return b, false }`
               LET ev == IF FixedPutHeld /\ id \in InTable(b) THEN NIL ELSE id
               IN /\ last' = [op |-> "put", id |-> id, ev |-> ev, ret |-> FALSE]
                  /\ est' = IF ev = id THEN [est EXCEPT ![id] = "handed"] ELSE est
                  /\ UNCHANGED <<list, key, ageq>>
          ELSE IF Len(list) >= cap /\ (~u \/ cap < 1)
          THEN /\ last' = [op |-> "put", id |-> id, ev |-> id, ret |-> FALSE]
               /\ est' = [est EXCEPT ![id] = "handed"]
               /\ UNCHANGED <<list, key, ageq>>
          ELSE IF Len(list) >= cap
          THEN \E v \in EvictChoice :
                 /\ list' = LET rest == Without(list, v) IN IF u THEN <<id>> \o rest ELSE Append(rest, id)
                 /\ ageq' = Append(Without(ageq, v), id)
                 /\ key' = [key EXCEPT ![id] = b]
                 /\ est' = [est EXCEPT ![v] = "handed", ![id] = "in"]
                 /\ last' = [op |-> "put", id |-> id, ev |-> v, ret |-> TRUE]
          ELSE /\ list' = IF u THEN Front(id) ELSE Back(id)
               /\ ageq' = Append(ageq, id)
               /\ key' = [key EXCEPT ![id] = b]
               /\ est' = [est EXCEPT ![id] = "in"]
               /\ last' = [op |-> "put", id |-> id, ev |-> NIL, ret |-> TRUE]

Get(b) ==
    /\ UNCHANGED <<cap, key, blk>>
    /\ IF InTable(b) = {}
       THEN /\ last' = [op |-> "get", base |-> b, r |-> NIL, rbase |-> NIL]
            /\ UNCHANGED <<list, ageq, est>>
       ELSE LET x == CHOOSE x \in InTable(b) : TRUE
            IN /\ last' = [op |-> "get", base |-> b, r |-> x, rbase |-> blk[x].base]
               /\ est' = [est EXCEPT ![x] = "got"]
               /\ IF Policy = "FIFO" /\ blk[x].used          \* FIFOGetKeepsUsed
                  THEN UNCHANGED <<list, ageq>>
                  ELSE list' = Without(list, x) /\ ageq' = Without(ageq, x)

\* drop(n): `for ; n > 0 && len(c.table) > 0; n-- { remove(c.root.prev) }`; Random: unused first
RECURSIVE DropBack(_, _)
DropBack(l, n) == IF n <= 0 \/ l = <<>> THEN l ELSE DropBack(SubSeq(l, 1, Len(l) - 1), n - 1)
DropTo(l2) == /\ list' = l2
              /\ ageq' = SelectSeq(ageq, LAMBDA y : \E i \in DOMAIN l2 : l2[i] = y)
DropN(n) == IF Policy = "Random"
            THEN \E D \in P!DropSets(held, n) : DropTo(SelectSeq(list, LAMBDA y : y \notin D))
            ELSE DropTo(DropBack(list, n))

Resize(n) == /\ n >= 0 /\ cap' = n
             /\ DropN(Len(list) - n)
             /\ last' = [op |-> "resize", n |-> n]
             /\ UNCHANGED <<key, blk, est>>
Drop(n) == /\ n >= 0 /\ DropN(n)
           /\ last' = [op |-> "drop", n |-> n]
           /\ UNCHANGED <<cap, key, blk, est>>
\* cache.Free: `empty := Cap-Len; if n <= empty {true}; Drop(n-empty); return Cap-Len >= n`
Free(n) == /\ n >= 0
           /\ LET empty == cap - Len(list)
              IN IF n <= empty
                 THEN /\ last' = [op |-> "free", n |-> n, ok |-> TRUE] /\ UNCHANGED <<list, ageq>>
                 ELSE /\ DropN(n - empty)
                      /\ last' = [op |-> "free", n |-> n, ok |-> (cap - Len(list') >= n)]
           /\ UNCHANGED <<cap, key, blk, est>>

Overwrite(id, b, u) ==
    /\ est[id] \in {"fresh", "handed"}
    /\ blk' = [blk EXCEPT ![id] = [base |-> b, used |-> u]]
    /\ last' = [op |-> "overwrite", id |-> id]
    /\ UNCHANGED <<cap, list, key, ageq, est>>
Touch(id) ==
    /\ est[id] = "got" /\ ~blk[id].used
    /\ blk' = [blk EXCEPT ![id].used = TRUE]
    /\ last' = [op |-> "touch", id |-> id]
    /\ UNCHANGED <<cap, list, key, ageq, est>>

Next == \/ \E id \in Ids : Put(id) \/ Touch(id)
        \/ \E b \in Bases : Get(b)
        \/ \E n \in 0..3 : Resize(n) \/ Drop(n) \/ Free(n)
        \/ \E id \in Ids, b \in Bases, u \in BOOLEAN : Overwrite(id, b, u)
Spec == Init /\ [][Next]_vars

Refines == P!PSpec
NoDupInList == \A i, j \in DOMAIN list : list[i] = list[j] => i = j
LenLeCap == P!LenLeCap
NoStaleMapping == P!NoStaleMapping
GetAnswersRequest == P!GetAnswersRequest
UniqueKeys == P!UniqueKeys
TypeOK == P!TypeOK
\* list discipline of LRU/FIFO: used blocks before unused ones (what makes "evict the
\* tail" agree with "unused first, else oldest")
=============================================================================
