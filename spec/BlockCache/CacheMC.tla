---- MODULE CacheMC ----
EXTENDS CacheI
====
