------------------------------- MODULE CacheTrace -------------------------------
(* Trace specification for C14 (sequential histories): every recorded call on a real   *)
(* cache must be a step of CacheP with the logged reply, and the logged observation     *)
(* (Len, Cap, Peek of every base: who is mapped and what base that block now carries)   *)
(* must agree with the specification's state after the step.  A call that hung or       *)
(* panicked has no action.  One TLC run per policy (Policy is a constant of CacheP).    *)
EXTENDS CacheP, TLC, Json, IOUtils

Trace == ndJsonDeserialize(IOEnv.TRACE)
VARIABLES l, rej, st, wantStats
vars == <<pvars, l, rej, st, wantStats>>
Ev == Trace[l]
IsEv(e) == l <= Len(Trace) /\ Ev.ev = e /\ l' = l + 1 /\ UNCHANGED rej

Init == /\ l = 1 /\ rej = <<>> /\ st = <<0, 0, 0, 0, 0>> /\ wantStats = FALSE
        /\ cap = 1 /\ held = {} /\ ageq = <<>> /\ key = [x \in Ids |-> NIL]
        /\ blk = [x \in Ids |-> [base |-> 0, used |-> FALSE]]
        /\ est = [x \in Ids |-> "fresh"] /\ last = [op |-> "init"]

Reset == /\ IsEv("T") /\ Ev.policy = Policy
         /\ cap' = Ev.cap /\ held' = {} /\ ageq' = <<>> /\ key' = [x \in Ids |-> NIL]
         /\ blk' = [x \in Ids |-> IF x <= Len(Ev.blocks)
                                  THEN [base |-> Ev.blocks[x][1], used |-> Ev.blocks[x][2]]
                                  ELSE [base |-> 0, used |-> FALSE]]
         /\ est' = [x \in Ids |-> "fresh"] /\ last' = [op |-> "init"]
         /\ st' = <<0, 0, 0, 0, 0>> /\ wantStats' = Ev.stats

\* the observation logged with every event, against the state after the step
ObsOK == /\ Ev.len = Cardinality(held')
         /\ Ev.cap = cap'
         /\ Ev.len <= Ev.cap                                        \* never more blocks than capacity
         /\ \A i \in DOMAIN Ev.peek :
              LET base == Ev.peek[i][1]
                  ex == Ev.peek[i][2]
                  id == Ev.peek[i][3]
                  cur == Ev.peek[i][4]
                  M == {x \in held' : key'[x] = base}
              IN /\ ex = (M # {})                                   \* Peek <=> Get would hit
                 /\ ex => /\ id \in M
                          /\ cur = base                             \* no stale mapping
         /\ wantStats' => Ev.stats = st'

TPut == /\ IsEv("put") /\ Ev.res = "ok"
        /\ Put(Ev.id)
        /\ last'.ev = Ev.evid /\ last'.ret = Ev.ret
        /\ st' = [st EXCEPT ![3] = @ + 1,
                            ![4] = @ + (IF Ev.ret THEN 1 ELSE 0),
                            ![5] = @ + (IF Ev.ret /\ Ev.evid # NIL THEN 1 ELSE 0)]
        /\ UNCHANGED wantStats /\ ObsOK
TGet == /\ IsEv("get") /\ Ev.res = "ok"
        /\ Get(Ev.base)
        /\ last'.r = Ev.r
        /\ Ev.r # NIL => Ev.rbase = Ev.base                         \* the block asked for
        /\ st' = [st EXCEPT ![1] = @ + 1, ![2] = @ + (IF Ev.r = NIL THEN 1 ELSE 0)]
        /\ UNCHANGED wantStats /\ ObsOK
TResize == IsEv("resize") /\ Ev.res = "ok" /\ Resize(Ev.n) /\ UNCHANGED <<st, wantStats>> /\ ObsOK
TDrop == IsEv("drop") /\ Ev.res = "ok" /\ Drop(Ev.n) /\ UNCHANGED <<st, wantStats>> /\ ObsOK
TFree == IsEv("free") /\ Ev.res = "ok" /\ Free(Ev.n) /\ last'.ok = Ev.ok /\ UNCHANGED <<st, wantStats>> /\ ObsOK
TOverwrite == /\ IsEv("overwrite") /\ Ev.res = "ok"
              /\ Overwrite(Ev.id, Ev.base, Ev.used) /\ UNCHANGED <<st, wantStats>> /\ ObsOK
TTouch == IsEv("touch") /\ Ev.res = "ok" /\ Touch(Ev.id) /\ UNCHANGED <<st, wantStats>> /\ ObsOK

Regular == Reset \/ TPut \/ TGet \/ TResize \/ TDrop \/ TFree \/ TOverwrite \/ TTouch
RECURSIVE NextHdr(_)
NextHdr(i) == IF i > Len(Trace) THEN i ELSE IF Trace[i].ev = "T" THEN i ELSE NextHdr(i + 1)
Skip == /\ l <= Len(Trace) /\ ~ENABLED Regular
        /\ rej' = Append(rej, [sc |-> Ev.sc, line |-> l]) /\ l' = NextHdr(l + 1)
        /\ UNCHANGED <<pvars, st, wantStats>>
Done == /\ l = Len(Trace) + 1
        /\ PrintT("VERIF-DONE " \o ToJson([lines |-> Len(Trace), rej |-> rej]))
        /\ l' = l + 1 /\ UNCHANGED <<pvars, rej, st, wantStats>>
Next == Regular \/ Skip \/ Done
Spec == Init /\ [][Next]_vars
=============================================================================
