SPECIFICATION Spec
CONSTANTS
  Policy = "FIFO"
  Bases = {1000, 2000, 3000, 4000, 5000, 6000, 7000, 8000, 9000}
  Ids = {1, 2, 3, 4, 5, 6, 7, 8}
INVARIANTS LenLeCap UniqueKeys
CONSTRAINT HWM
POSTCONDITION PostHWM
CHECK_DEADLOCK FALSE
