SPECIFICATION TSpec
CONSTANTS
  Policy = "Random"
  Bases = {1000, 2000, 3000, 4000}
  Ids = {1, 2, 3, 4, 5, 6, 7, 8}
  FixedPutHeld = TRUE
CHECK_DEADLOCK FALSE
