SPECIFICATION Spec
CONSTANTS
  Policy = "FIFO"
  Bases = {1, 2}
  Ids = {1, 2, 3}
  FixedPutHeld = TRUE
INVARIANTS TypeOK NoDupInList LenLeCap NoStaleMapping GetAnswersRequest UniqueKeys
PROPERTY Refines
CHECK_DEADLOCK FALSE
