------------------------------- MODULE CacheP -------------------------------
(* Property-level specification of a block cache (C14): what the bgzf.Cache and        *)
(* cache.Cache contracts, the policy doc comments and the property statement promise.   *)
(* A block is an object (id) whose content (base, used) the environment may replace     *)
(* only when Put handed the object back (evicted, or the argument itself when it was    *)
(* not retained) - that is how bgzf.Reader recycles buffers.                            *)
(*                                                                                      *)
(* State: cap; held = the block objects the cache holds; key[x] = the base x was        *)
(* inserted under; ageq = held blocks in insertion order (oldest first); blk[x] = the   *)
(* object's current content; est[x] = who may do what with x; last = the last reply.    *)
EXTENDS Integers, Sequences, FiniteSets
CONSTANTS Policy,        \* "LRU", "FIFO" or "Random"
          Bases, Ids     \* finite sets (model checking); the trace spec passes the trace's
NIL == 0
ASSUME NIL \notin Ids

VARIABLES cap, held, key, ageq, blk, est, last
pvars == <<cap, held, key, ageq, blk, est, last>>

Len_ == Cardinality(held)
Mapped(b) == {x \in held : key[x] = b}
UnusedIn(H) == {x \in H : ~blk[x].used}
SeqRange(s) == {s[i] : i \in DOMAIN s}
Without(s, x) == SelectSeq(s, LAMBDA y : y # x)
\* oldest member of H (H # {}): first element of ageq that is in H
Oldest(H) == LET i == CHOOSE i \in DOMAIN ageq : ageq[i] \in H /\ \A j \in 1..(i - 1) : ageq[j] \notin H
             IN ageq[i]
\* who may be evicted next from H (H # {}): an unused block if there is one; otherwise the
\* least recently inserted (LRU: Get removes, so insertion = last use; FIFO: first in), or
\* any block (Random)
Victims(H) == IF UnusedIn(H) # {} THEN UnusedIn(H)
              ELSE IF Policy = "Random" THEN H ELSE {Oldest(H)}
\* the sets of n blocks that may be dropped from H by n successive evictions
RECURSIVE DropSets(_, _)
DropSets(H, n) == IF n <= 0 \/ H = {} THEN {{}}
                  ELSE UNION {{D \cup {v} : D \in DropSets(H \ {v}, n - 1)} : v \in Victims(H)}
Max(a, b) == IF a > b THEN a ELSE b
Min(a, b) == IF a < b THEN a ELSE b

TypeOK == /\ cap \in Nat /\ held \subseteq Ids /\ SeqRange(ageq) = held /\ Len(ageq) = Len_
          /\ \A x \in Ids : est[x] \in {"fresh", "handed", "in", "got"}

PInit == /\ cap \in Nat \ {0}
         /\ held = {} /\ ageq = <<>>
         /\ key = [x \in Ids |-> NIL]
         /\ blk \in [Ids -> [base : Bases, used : BOOLEAN]]
         /\ est = [x \in Ids |-> "fresh"]
         /\ last = [op |-> "init"]

Drop_(D) == /\ held' = held \ D
            /\ ageq' = SelectSeq(ageq, LAMBDA y : y \notin D)

\* ---- Put(b) (evicted, retained) -------------------------------------------------
Put(id) ==
    /\ est[id] # "in"
    /\ UNCHANGED <<cap, blk>>
    /\ LET b == blk[id].base
           u == blk[id].used
       IN \/ /\ Mapped(b) # {}                   \* base already cached: not retained, cache unchanged
             /\ \E ev \in {id, NIL} :
                  /\ last' = [op |-> "put", id |-> id, ev |-> ev, ret |-> FALSE]
                  /\ est' = IF ev = id THEN [est EXCEPT ![id] = "handed"] ELSE est
             /\ UNCHANGED <<held, key, ageq>>
          \/ /\ Mapped(b) = {} /\ Len_ < cap       \* room: retained, nothing evicted
             /\ held' = held \cup {id} /\ ageq' = Append(ageq, id) /\ key' = [key EXCEPT ![id] = b]
             /\ est' = [est EXCEPT ![id] = "in"]
             /\ last' = [op |-> "put", id |-> id, ev |-> NIL, ret |-> TRUE]
          \/ /\ Mapped(b) = {} /\ Len_ >= cap /\ (~u \/ cap = 0)   \* full: unused blocks are refused
             /\ est' = [est EXCEPT ![id] = "handed"]
             /\ last' = [op |-> "put", id |-> id, ev |-> id, ret |-> FALSE]
             /\ UNCHANGED <<held, key, ageq>>
          \/ /\ Mapped(b) = {} /\ Len_ >= cap /\ u /\ cap > 0      \* full: evict by policy
             /\ \E v \in Victims(held) :
                  /\ held' = (held \ {v}) \cup {id}
                  /\ ageq' = Append(Without(ageq, v), id)
                  /\ key' = [key EXCEPT ![id] = b]
                  /\ est' = [est EXCEPT ![v] = "handed", ![id] = "in"]
                  /\ last' = [op |-> "put", id |-> id, ev |-> v, ret |-> TRUE]

\* ---- Get(base): the mapped block or nil.  The bgzf.Cache contract says the block is
\* removed; the property only needs answers to stay consistent, so both are allowed.
Get(b) ==
    /\ UNCHANGED <<cap, key, blk>>
    /\ \/ /\ Mapped(b) = {}
          /\ last' = [op |-> "get", base |-> b, r |-> NIL, rbase |-> NIL]
          /\ UNCHANGED <<held, ageq, est>>
       \/ \E x \in Mapped(b) :
          /\ last' = [op |-> "get", base |-> b, r |-> x, rbase |-> blk[x].base]
          /\ est' = [est EXCEPT ![x] = "got"]
          /\ \/ Drop_({x})
             \/ UNCHANGED <<held, ageq>>

Resize(n) ==
    /\ n >= 0
    /\ cap' = n
    /\ \E D \in DropSets(held, Len_ - n) : Drop_(D)
    /\ last' = [op |-> "resize", n |-> n]
    /\ UNCHANGED <<key, blk, est>>

Drop(n) ==
    /\ n >= 0
    /\ \E D \in DropSets(held, n) : Drop_(D)
    /\ last' = [op |-> "drop", n |-> n]
    /\ UNCHANGED <<cap, key, blk, est>>

\* cache.Free(n, c): make room for n Puts, dropping no more than needed
Free(n) ==
    /\ n >= 0
    /\ \E D \in DropSets(held, Min(Len_, Max(0, n - (cap - Len_)))) :
         /\ Drop_(D)
         /\ last' = [op |-> "free", n |-> n, ok |-> (cap - (Len_ - Cardinality(D)) >= n)]
    /\ UNCHANGED <<cap, key, blk, est>>

\* ---- environment: recycle a block that Put handed back (or a fresh one); read a block
Overwrite(id, b, u) ==
    /\ est[id] \in {"fresh", "handed"}
    /\ blk' = [blk EXCEPT ![id] = [base |-> b, used |-> u]]
    /\ last' = [op |-> "overwrite", id |-> id]
    /\ UNCHANGED <<cap, held, key, ageq, est>>
Touch(id) ==
    /\ est[id] = "got" /\ ~blk[id].used
    /\ blk' = [blk EXCEPT ![id].used = TRUE]
    /\ last' = [op |-> "touch", id |-> id]
    /\ UNCHANGED <<cap, held, key, ageq, est>>

PNext == \/ \E id \in Ids : Put(id) \/ Touch(id)
         \/ \E b \in Bases : Get(b)
         \/ \E n \in 0..3 : Resize(n) \/ Drop(n) \/ Free(n)
         \/ \E id \in Ids, b \in Bases, u \in BOOLEAN : Overwrite(id, b, u)
PSpec == PInit /\ [][PNext]_pvars

\* ---- the property, as invariants ---------------------------------------------------
LenLeCap == Len_ <= cap
\* used the way the reader uses it, no answer has a base other than the one asked for
NoStaleMapping == \A x \in held : blk[x].base = key[x]
GetAnswersRequest == (last.op = "get" /\ last.r # NIL) => last.rbase = last.base
UniqueKeys == \A x, y \in held : key[x] = key[y] => x = y
=============================================================================
