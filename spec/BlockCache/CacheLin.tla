------------------------------- MODULE CacheLin -------------------------------
(* Linearizability trace specification for C14: several goroutines use one cache; the  *)
(* trace holds their call and return events in a global order.  Each operation takes    *)
(* effect atomically (one CacheP step, action Lin) somewhere between its call and its   *)
(* return; TLC searches for such a placement.  A trace is accepted iff some behaviour   *)
(* consumes all its lines; the runner learns the furthest line reached from the         *)
(* high-water mark and reports the scenario that could not be linearized.               *)
EXTENDS CacheP, TLC, Json, IOUtils

Trace == ndJsonDeserialize(IOEnv.TRACE)
VARIABLES l, pend, st       \* st: what a StatsRecorder around the cache has counted (Gets, Misses, Puts, Retains, Evictions)
vars == <<pvars, l, pend, st>>
Ev == Trace[l]
G == 1..4
None == [op |-> "none"]
IsEv(e) == l <= Len(Trace) /\ Ev.ev = e /\ l' = l + 1

Init == /\ l = 1 /\ pend = [g \in G |-> None] /\ st = <<0, 0, 0, 0, 0>>
        /\ cap = 1 /\ held = {} /\ ageq = <<>> /\ key = [x \in Ids |-> NIL]
        /\ blk = [x \in Ids |-> [base |-> 0, used |-> FALSE]]
        /\ est = [x \in Ids |-> "fresh"] /\ last = [op |-> "init"]

Reset == /\ IsEv("T") /\ Ev.policy = Policy
         /\ \A g \in G : pend[g] = None
         /\ cap' = Ev.cap /\ held' = {} /\ ageq' = <<>> /\ key' = [x \in Ids |-> NIL]
         /\ blk' = [x \in Ids |-> IF x <= Len(Ev.blocks)
                                  THEN [base |-> Ev.blocks[x][1], used |-> Ev.blocks[x][2]]
                                  ELSE [base |-> 0, used |-> FALSE]]
         /\ est' = [x \in Ids |-> "fresh"] /\ last' = [op |-> "init"]
         /\ pend' = [g \in G |-> None] /\ st' = <<0, 0, 0, 0, 0>>

Call == /\ IsEv("call") /\ pend[Ev.g] = None
        /\ pend' = [pend EXCEPT ![Ev.g] = [op |-> Ev.op, ev |-> Ev, applied |-> FALSE, res |-> None]]
        /\ UNCHANGED <<pvars, st>>

\* the atomic effect of g's pending operation
Lin(g) == /\ pend[g] # None /\ ~pend[g].applied
          /\ UNCHANGED l
          /\ LET c == pend[g].ev
             IN \/ /\ c.op = "put" /\ Put(c.id)
                   /\ pend' = [pend EXCEPT ![g].applied = TRUE, ![g].res = last']
                   \* the recorder counts the operation in the same atomic step as its effect
                   /\ st' = [st EXCEPT ![3] = @ + 1,
                                       ![4] = @ + (IF last'.ret THEN 1 ELSE 0),
                                       ![5] = @ + (IF last'.ret /\ last'.ev # NIL THEN 1 ELSE 0)]
                \/ /\ c.op = "get" /\ Get(c.base)
                   /\ pend' = [pend EXCEPT ![g].applied = TRUE, ![g].res = last']
                   /\ st' = [st EXCEPT ![1] = @ + 1, ![2] = @ + (IF last'.r = NIL THEN 1 ELSE 0)]
                \/ /\ c.op = "drop" /\ Drop(c.n) /\ UNCHANGED st
                   /\ pend' = [pend EXCEPT ![g].applied = TRUE, ![g].res = last']
                \/ /\ c.op = "resize" /\ Resize(c.n) /\ UNCHANGED st
                   /\ pend' = [pend EXCEPT ![g].applied = TRUE, ![g].res = last']
                \/ /\ c.op = "peek" /\ UNCHANGED <<pvars, st>>
                   /\ pend' = [pend EXCEPT ![g].applied = TRUE,
                                           ![g].res = [op |-> "peek", ids |-> Mapped(c.base)]]
                \/ /\ c.op = "len" /\ UNCHANGED <<pvars, st>>
                   /\ pend' = [pend EXCEPT ![g].applied = TRUE, ![g].res = [op |-> "len", n |-> Len_]]
                \/ /\ c.op = "stats" /\ UNCHANGED <<pvars, st>>
                   /\ pend' = [pend EXCEPT ![g].applied = TRUE, ![g].res = [op |-> "stats", st |-> st]]

Ret == /\ IsEv("ret") /\ pend[Ev.g] # None /\ pend[Ev.g].applied /\ pend[Ev.g].op = Ev.op
       /\ LET r == pend[Ev.g].res
          IN CASE Ev.op = "put" -> r.ev = Ev.evid /\ r.ret = Ev.ret
               [] Ev.op = "get" -> r.r = Ev.r /\ (Ev.r # NIL => Ev.rbase = r.base)
               [] Ev.op = "peek" -> Ev.exists = (r.ids # {}) /\ (Ev.exists => Ev.id \in r.ids)
               [] Ev.op = "len" -> Ev.n = r.n
               [] Ev.op = "stats" -> Ev.stats = r.st
               [] OTHER -> TRUE
       /\ pend' = [pend EXCEPT ![Ev.g] = None]
       /\ UNCHANGED <<pvars, st>>

\* the environment recycles a block that a Put handed back (as the reader does), between two operations
Ow == /\ IsEv("overwrite") /\ Overwrite(Ev.id, Ev.base, Ev.used) /\ UNCHANGED <<pend, st>>

Final == /\ IsEv("final") /\ \A g \in G : pend[g] = None
         /\ Ev.len = Len_ /\ Ev.cap = cap /\ Len_ <= cap
         /\ \A i \in DOMAIN Ev.peek :
              /\ Ev.peek[i][2] = (Mapped(Ev.peek[i][1]) # {})
              /\ Ev.peek[i][2] => Ev.peek[i][3] \in Mapped(Ev.peek[i][1])
         /\ ("stats" \in DOMAIN Ev => Ev.stats = st)
         /\ UNCHANGED <<pvars, pend, st>>

Done == /\ l = Len(Trace) + 1
        /\ PrintT("VERIF-DONE " \o ToJson([lines |-> Len(Trace), rej |-> <<>>]))
        /\ l' = l + 1 /\ UNCHANGED <<pvars, pend, st>>
Next == Reset \/ Call \/ Ret \/ Ow \/ Final \/ Done \/ \E g \in G : Lin(g)
Spec == Init /\ [][Next]_vars

\* high-water mark of consumed lines (needs -workers 1)
ASSUME TLCSet(1, 0)
HWM == TLCSet(1, IF l > TLCGet(1) THEN l ELSE TLCGet(1))
PostHWM == PrintT("VERIF-HWM " \o ToString(TLCGet(1)))
=============================================================================
