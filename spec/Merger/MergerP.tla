------------------------------- MODULE MergerP -------------------------------
(* Property-level specification of bam.Merger (C18).  Inputs are sequences of records     *)
(* [ref (name or "*"), pos, name, mref]; the merged header is a list of reference names.   *)
(* A Read returns the next unread record of some input; the output must be sorted by the   *)
(* declared order, every record comes out exactly once, io.EOF only after every input       *)
(* ended cleanly, an input's read error is reported, and references are re-linked.          *)
EXTENDS Integers, Sequences, FiniteSets
VARIABLES inputs,     \* sequence of sequences of records
          merged,     \* reference names of the merged header, in order
          order,      \* "coordinate" | "queryname" | "unsorted" | "none" (unknown order, no less) | "less" (unknown, custom less = by pos)
          failAt,     \* failAt[i] = n: input i fails when asked for record n (0: never)
          consumed,   \* consumed[i] = records of input i returned so far
          last,       \* the record returned last (<<>> at the start)
          ended       \* the merger has reported its end ("", "EOF", "other")
mvars == <<inputs, merged, order, failAt, consumed, last, ended>>
RefIndex(n) == IF n = "*" THEN Len(merged) + 1
               ELSE CHOOSE k \in 1..Len(merged) : merged[k] = n
\* non-strict order of the declared sort
LeByOrder(a, b) ==
    CASE order = "coordinate" -> RefIndex(a.ref) < RefIndex(b.ref) \/ (RefIndex(a.ref) = RefIndex(b.ref) /\ (a.ref = "*" \/ a.pos <= b.pos))
      [] order = "queryname" -> a.name = b.name \/ a.lt            \* the harness logs name < previous name as lt (TLC has no string order)
      [] order = "less" -> a.pos <= b.pos
      [] OTHER -> TRUE
K == Len(inputs)
AllConsumed == \A i \in 1..K : consumed[i] = Len(inputs[i])
\* a record is returned: the next one of its input, not before the last one in sort order, re-linked
ReadRec(src, idx, refOK, mateOK, nameGePrev) ==
    /\ ended = ""
    /\ src \in 1..K /\ idx = consumed[src] + 1 /\ idx <= Len(inputs[src])
    /\ (failAt[src] = 0 \/ idx < failAt[src])
    /\ LET rec == inputs[src][idx]
       IN /\ refOK /\ mateOK
          /\ (last # <<>> =>
                CASE order = "queryname" -> nameGePrev
                  [] order \in {"unsorted", "none"} -> src >= last.src            \* concatenation
                  [] OTHER -> LeByOrder(last, rec))
          /\ last' = [rec EXCEPT !.src = src]
    /\ consumed' = [consumed EXCEPT ![src] = idx]
    /\ UNCHANGED <<inputs, merged, order, failAt, ended>>
\* the end: io.EOF only if every input ended cleanly and everything was returned; an input's
\* failure must be reported as an error (after any number of records), never as io.EOF
End(e) ==
    /\ ended = "" /\ e \in {"EOF", "other"}
    /\ e = "EOF" => AllConsumed /\ \A i \in 1..K : failAt[i] = 0
    /\ e = "other" => \E i \in 1..K : failAt[i] # 0
    /\ ended' = e /\ UNCHANGED <<inputs, merged, order, failAt, consumed, last>>
=============================================================================
