------------------------------- MODULE MergerTrace -------------------------------
EXTENDS MergerP, TLC, Json, IOUtils
Trace == ndJsonDeserialize(IOEnv.TRACE)
VARIABLES l, rej
vars == <<mvars, l, rej>>
Ev == Trace[l]
IsEv(e) == l <= Len(Trace) /\ Ev.ev = e /\ l' = l + 1 /\ UNCHANGED rej
Init == /\ l = 1 /\ rej = <<>> /\ inputs = <<>> /\ merged = <<>> /\ order = "none" /\ failAt = <<>> /\ consumed = <<>> /\ last = <<>> /\ ended = ""
ToRec(a) == [ref |-> a[1], pos |-> a[2], name |-> a[3], mref |-> a[4], src |-> 0, lt |-> FALSE]
Reset == /\ IsEv("T")
         /\ inputs' = [i \in 1..Len(Ev.inputs) |-> [j \in 1..Len(Ev.inputs[i]) |-> ToRec(Ev.inputs[i][j])]]
         /\ merged' = <<>> /\ order' = Ev.order /\ failAt' = Ev.failAt
         /\ consumed' = [i \in 1..Len(Ev.inputs) |-> 0] /\ last' = <<>> /\ ended' = ""
\* NewMerger: the merged header lists every reference name of every input exactly once
\* (first input's order first)
New == /\ IsEv("mnew") /\ Ev.res = "nil"
       /\ \A i \in DOMAIN Ev.hdrs : \A j \in DOMAIN Ev.hdrs[i] : \E k \in DOMAIN Ev.merged : Ev.merged[k] = Ev.hdrs[i][j]
       /\ \A a, b \in DOMAIN Ev.merged : Ev.merged[a] = Ev.merged[b] => a = b
       /\ merged' = Ev.merged
       /\ UNCHANGED <<inputs, order, failAt, consumed, last, ended>>
MRead == IsEv("mread") /\ Ev.res = "nil" /\ ReadRec(Ev.src, Ev.idx, Ev.refOK, Ev.mateOK, Ev.nameGe)
MEnd == IsEv("mend") /\ Ev.res = "nil" /\ End(Ev.err)
Regular == Reset \/ New \/ MRead \/ MEnd
RECURSIVE NextHdr(_)
NextHdr(i) == IF i > Len(Trace) THEN i ELSE IF Trace[i].ev = "T" THEN i ELSE NextHdr(i + 1)
Skip == /\ l <= Len(Trace) /\ ~ENABLED Regular
        /\ rej' = Append(rej, [sc |-> Ev.sc, line |-> l]) /\ l' = NextHdr(l + 1) /\ UNCHANGED mvars
Done == /\ l = Len(Trace) + 1
        /\ PrintT("VERIF-DONE " \o ToJson([lines |-> Len(Trace), rej |-> rej]))
        /\ l' = l + 1 /\ UNCHANGED <<mvars, rej>>
Next == Regular \/ Skip \/ Done
Spec == Init /\ [][Next]_vars
=============================================================================
