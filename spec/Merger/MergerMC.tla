---- MODULE MergerMC ----
EXTENDS MergerI
====
