SPECIFICATION Spec
CONSTANTS
  K = 3
  MaxLen = 3
  Keys = {1, 2, 3}
  Sorted = TRUE
  NilHeads = FALSE
  DropErrors = FALSE
INVARIANTS NoCrash PerInputOrder ExactlyOnce OutputSorted Concatenated EndsRight
CHECK_DEADLOCK FALSE
