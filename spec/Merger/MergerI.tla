------------------------------- MODULE MergerI -------------------------------
(* Implementation-shaped specification of bam.Merger in sorted mode: the head record of  *)
(* every reader, the heap (abstracted to "a minimum under bySortOrderAndID.Less"), the     *)
(* refill after each pop, and the handling of empty inputs and read errors.  Records are   *)
(* sort keys (integers); input i is a non-decreasing sequence of keys; failAt[i] = n means *)
(* the n-th read of input i fails.  Concatenation mode (cat) is modelled with Sorted=FALSE.*)
(* Switches for the pinned revision:                                                       *)
(*   NilHeads     empty inputs are put in the heap with a nil head (nil dereference)       *)
(*   DropErrors   a reader whose refill fails is silently dropped; cat() recurses on error *)
EXTENDS Integers, Sequences, FiniteSets
CONSTANTS K, MaxLen, Keys, Sorted, NilHeads, DropErrors
Inputs == 1..K
VARIABLES inp, failAt, next, heap, pending, out, ended, crashed, started
vars == <<inp, failAt, next, heap, pending, out, ended, crashed, started>>
NonDecr(s) == \A i \in 1..(Len(s) - 1) : s[i] <= s[i + 1]
SeqsUpTo == UNION {[1..n -> Keys] : n \in 0..MaxLen}
Init == /\ inp \in [Inputs -> {s \in SeqsUpTo : NonDecr(s)}]
        /\ failAt \in [Inputs -> 0..MaxLen] /\ Cardinality({i \in Inputs : failAt[i] # 0}) <= 1
        /\ \A i \in Inputs : failAt[i] <= Len(inp[i])
        /\ next = [i \in Inputs |-> 1] /\ heap = {} /\ pending = FALSE
        /\ out = <<>> /\ ended = "" /\ crashed = FALSE /\ started = FALSE
\* reading record number n of input i: "rec", "EOF" or "err"
ReadRes(i, n) == IF failAt[i] # 0 /\ n >= failAt[i] THEN "err" ELSE IF n > Len(inp[i]) THEN "EOF" ELSE "rec"
HeadOf(i) == inp[i][next[i]]
\* NewMerger (sorted mode): read one record from every input
Start == /\ ~started /\ Sorted /\ started' = TRUE
         /\ IF NilHeads /\ K > 1 /\ \E i \in Inputs : ReadRes(i, 1) # "rec"
            THEN crashed' = TRUE /\ UNCHANGED <<heap, pending>>              \* heap.Init compares a nil head
            ELSE /\ heap' = {i \in Inputs : ReadRes(i, 1) = "rec"}
                 /\ pending' = (~DropErrors /\ \E i \in Inputs : ReadRes(i, 1) = "err")
                 /\ UNCHANGED crashed
         /\ UNCHANGED <<inp, failAt, next, out, ended>>
\* bySortOrderAndID.Less(i, j)
Less(i, j) == HeadOf(i) < HeadOf(j) \/ (i < j /\ ~(HeadOf(j) < HeadOf(i)))
IsMin(i) == i \in heap /\ \A j \in heap \ {i} : ~Less(j, i)
ReadSorted ==
    /\ started /\ Sorted /\ ended = "" /\ ~crashed
    /\ IF heap = {}
       THEN /\ ended' = IF pending THEN "other" ELSE "EOF"
            /\ UNCHANGED <<next, heap, pending, out>>
       ELSE \E i \in heap :
              /\ IsMin(i)
              /\ out' = Append(out, <<i, next[i]>>)
              /\ next' = [next EXCEPT ![i] = @ + 1]
              /\ LET r == ReadRes(i, next[i] + 1)
                 IN /\ heap' = IF r = "rec" THEN heap ELSE heap \ {i}
                    /\ pending' = (pending \/ (r = "err" /\ ~DropErrors))
              /\ UNCHANGED ended
    /\ UNCHANGED <<inp, failAt, crashed, started>>
\* concatenation mode: `cat()`
StartCat == ~started /\ ~Sorted /\ started' = TRUE /\ UNCHANGED <<inp, failAt, next, heap, pending, out, ended, crashed>>
CurrentCat == IF \E i \in Inputs : ReadRes(i, next[i]) # "EOF" THEN CHOOSE i \in Inputs : ReadRes(i, next[i]) # "EOF" /\ \A j \in 1..(i - 1) : ReadRes(j, next[j]) = "EOF" ELSE 0
ReadCat ==
    /\ started /\ ~Sorted /\ ended = "" /\ ~crashed
    /\ LET i == CurrentCat
       IN IF i = 0 THEN ended' = "EOF" /\ UNCHANGED <<next, out, crashed>>
          ELSE IF ReadRes(i, next[i]) = "err"
          THEN IF DropErrors THEN crashed' = TRUE /\ UNCHANGED <<next, out, ended>>     \* unbounded recursion
               ELSE ended' = "other" /\ UNCHANGED <<next, out, crashed>>
          ELSE /\ out' = Append(out, <<i, next[i]>>) /\ next' = [next EXCEPT ![i] = @ + 1]
               /\ UNCHANGED <<ended, crashed>>
    /\ UNCHANGED <<inp, failAt, heap, pending, started>>
Next == Start \/ ReadSorted \/ StartCat \/ ReadCat \/ (ended # "" /\ UNCHANGED vars)
Spec == Init /\ [][Next]_vars
\* ---- MergerP's clauses over the output so far -------------------------------------------
KeyOf(o) == inp[o[1]][o[2]]
NoCrash == ~crashed
PerInputOrder == \A a, b \in DOMAIN out : (a < b /\ out[a][1] = out[b][1]) => out[a][2] < out[b][2]
ExactlyOnce == \A a, b \in DOMAIN out : out[a] = out[b] => a = b
OutputSorted == Sorted => \A a \in 1..(Len(out) - 1) : KeyOf(out[a]) <= KeyOf(out[a + 1])
Concatenated == ~Sorted => \A a \in 1..(Len(out) - 1) : out[a][1] <= out[a + 1][1]
EndsRight == /\ ended = "EOF" => (\A i \in Inputs : failAt[i] = 0 /\ \A n \in DOMAIN inp[i] : \E a \in DOMAIN out : out[a] = <<i, n>>)
             /\ ended = "other" => \E i \in Inputs : failAt[i] # 0
=============================================================================
