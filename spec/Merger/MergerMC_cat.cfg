SPECIFICATION Spec
CONSTANTS
  K = 3
  MaxLen = 2
  Keys = {1, 2}
  Sorted = FALSE
  NilHeads = FALSE
  DropErrors = FALSE
INVARIANTS NoCrash PerInputOrder ExactlyOnce OutputSorted Concatenated EndsRight
CHECK_DEADLOCK FALSE
