SPECIFICATION Spec
CONSTANT Limbs = {0, 1, 127, 128, 16383, 16384, 32768, 65535}
INVARIANTS RoundTrip AnnouncesLen ByteRange LayoutAgrees Unique
CHECK_DEADLOCK FALSE
