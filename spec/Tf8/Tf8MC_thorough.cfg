SPECIFICATION Spec
CONSTANT Limbs = {0, 1, 7, 8, 15, 16, 31, 32, 63, 64, 127, 128, 255, 256, 4095, 4096, 8191, 8192, 16383, 16384, 32767, 32768, 65535}
INVARIANTS RoundTrip AnnouncesLen ByteRange LayoutAgrees Unique
CHECK_DEADLOCK FALSE
