------------------------------- MODULE Tf8MC -------------------------------
(* Self-consistency of the layout specification over a boundary-stratified value set:  *)
(* the specified encoding decodes to the value, the first byte announces the encoded    *)
(* length, the arithmetic and slot-by-slot readings of the layout agree, and the slots  *)
(* of every length class partition the value bits.  One state per (kind, value).        *)
EXTENDS Tf8, TLC
CONSTANT Limbs          \* limb values every limb ranges over
VARIABLES kind, v
\* one limb changes per step, so that TLC's workers share the value space (the initial
\* states are computed by one thread)
Init == /\ kind \in Kinds
        /\ v = [q \in 1..NLimbs(kind) |-> 0]
Next == /\ \E q \in 1..NLimbs(kind), x \in Limbs : v' = [v EXCEPT ![q] = x]
        /\ UNCHANGED kind
Spec == Init /\ [][Next]_<<kind, v>>
Enc == Encoding(kind, v)
RoundTrip == IsDecodingOf(kind, Enc, v)
AnnouncesLen == Announced(kind, Enc[1]) = Len(Enc)
ByteRange == \A k \in DOMAIN Enc : Enc[k] \in 0..255
LayoutAgrees == \A k \in DOMAIN Enc : Enc[k] = SlotByte(kind, Len(Enc), v, k)
\* decoding is injective on the defined bits: only v itself decodes from Enc among
\* the one-bit neighbours of v
Unique == \A q \in 1..NLimbs(kind), b \in 0..15 :
            LET w == [v EXCEPT ![q] = IF (v[q] \div Pow2(b)) % 2 = 1 THEN v[q] - Pow2(b) ELSE v[q] + Pow2(b)]
            IN ~IsDecodingOf(kind, Enc, w)
ASSUME \A kd \in Kinds : \A n \in 1..MaxLen(kd) : SlotsPartition(kd, n)
=============================================================================
