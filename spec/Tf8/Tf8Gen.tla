---- MODULE Tf8Gen ----
(* exports the layout table for the exhaustive 2^32 sweep's table interpreter *)
EXTENDS Tf8, TLC, Json
VARIABLE x
ASSUME PrintT("VERIF-GEN " \o ToJson(SlotTbl))
Init == x = 0
Next == UNCHANGED x
Spec == Init /\ [][Next]_x
====
