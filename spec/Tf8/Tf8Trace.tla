------------------------------- MODULE Tf8Trace -------------------------------
(* Trace specification for C20.  Every recorded call of the real codecs is checked    *)
(* field by field against the bit layout of Tf8: encoded bytes, the three byte counts  *)
(* (Encode's result, Len, Decode's count), the decoded value, the announced length and *)
(* the failure condition of Decode on arbitrary byte strings, and the stream readers.  *)
EXTENDS Tf8, TLC, Json, IOUtils

Trace == ndJsonDeserialize(IOEnv.TRACE)
VARIABLES l, rej
vars == <<l, rej>>
Ev == Trace[l]
Init == l = 1 /\ rej = <<>>
IsEv(e) == l <= Len(Trace) /\ Ev.ev = e /\ l' = l + 1
Min(a, b) == IF a < b THEN a ELSE b

Reset == IsEv("T") /\ UNCHANGED rej

\* Encode(v) -> bytes, n;  Len(v);  Decode(bytes) -> dv, dn, dok
Enc == /\ IsEv("enc") /\ UNCHANGED rej
       /\ LET k == Ev.kind
              n == LenOf(k, Ev.v)
          IN /\ Ev.n = n /\ Ev.len = n /\ Len(Ev.bytes) = n
             /\ \A i \in 1..n : Ev.bytes[i] % CareMod(k, n, i) = Byte(k, n, Ev.v, i) % CareMod(k, n, i)
             /\ Ev.dok /\ Ev.dn = n /\ Ev.dv = Ev.v
             /\ Ev.clean                                   \* nothing is written beyond the n bytes
             /\ Ev.exact                                   \* a destination of exactly Len(v) bytes suffices

\* Decode(arbitrary bytes) -> v, n, ok
Dec == /\ IsEv("dec") /\ UNCHANGED rej
       /\ Ev.res = "ok"
       /\ IF Len(Ev.bytes) = 0 THEN Ev.n = 0 /\ ~Ev.ok
          ELSE LET a == Announced(Ev.kind, Ev.bytes[1])
               IN /\ Ev.n = a
                  /\ Ev.ok = (Len(Ev.bytes) >= a)          \* fails exactly when bytes are missing
                  /\ Ev.ok => IsDecodingOf(Ev.kind, Ev.bytes, Ev.v)

\* the stream readers of package cram over a stream holding exactly Ev.bytes
SDec == /\ IsEv("sdec") /\ UNCHANGED rej
        /\ Ev.res = "ok"
        /\ IF Len(Ev.bytes) = 0 THEN Ev.err /\ Ev.consumed = 0
           ELSE LET a == Announced(Ev.kind, Ev.bytes[1])
                IN /\ Ev.consumed <= a                      \* never reads beyond the announced length
                   /\ Ev.err = (Len(Ev.bytes) < a)
                   /\ ~Ev.err => Ev.consumed = a /\ IsDecodingOf(Ev.kind, Ev.bytes, Ev.v)

Regular == Reset \/ Enc \/ Dec \/ SDec
RECURSIVE NextHdr(_)
NextHdr(i) == IF i > Len(Trace) THEN i ELSE IF Trace[i].ev = "T" THEN i ELSE NextHdr(i + 1)
Skip == /\ l <= Len(Trace) /\ ~ENABLED Regular
        /\ rej' = Append(rej, [sc |-> Ev.sc, line |-> l]) /\ l' = l + 1   \* events are independent
Done == /\ l = Len(Trace) + 1
        /\ PrintT("VERIF-DONE " \o ToJson([lines |-> Len(Trace), rej |-> rej]))
        /\ l' = l + 1 /\ UNCHANGED rej
Next == Regular \/ Skip \/ Done
Spec == Init /\ [][Next]_vars
=============================================================================
