------------------------------- MODULE Tf8 -------------------------------
(* ITF-8 and LTF-8 as bit layouts, written from the CRAM specification (section 2.3),  *)
(* not from the Go code.  TLC integers are 32 bit, so a value is a sequence of 16-bit   *)
(* limbs, most significant first: 2 limbs for ITF-8 (the uint32 image of the int32),    *)
(* 4 limbs for LTF-8.  The whole codec is one table, Slot: which value bit (or which    *)
(* constant) sits at bit j of byte k of an n-byte encoding.                             *)
EXTENDS Integers, Sequences

Kinds == {"itf8", "ltf8"}
Pow2(k) == 2^k
Width(kind) == IF kind = "itf8" THEN 32 ELSE 64
MaxLen(kind) == IF kind = "itf8" THEN 5 ELSE 9
NLimbs(kind) == Width(kind) \div 16

\* bit i (0 = least significant) of the limb sequence v
Bit(v, i) == LET limb == v[Len(v) - (i \div 16)] IN (limb \div Pow2(i % 16)) % 2

\* number of value bits carried by an encoding of n bytes
ValueBits(kind, n) == IF kind = "itf8" /\ n = 5 THEN 32
                      ELSE IF kind = "ltf8" /\ n = 9 THEN 64
                      ELSE 7 * n
PrefixOnes(kind, n) == IF kind = "itf8" /\ n = 5 THEN 4 ELSE IF n = 9 THEN 8 ELSE n - 1
HasZero(kind, n) == ~(kind = "itf8" /\ n = 5) /\ n < 9
FirstBits(kind, n) == 8 - PrefixOnes(kind, n) - (IF HasZero(kind, n) THEN 1 ELSE 0)

ZERO == -1      \* constant 0 bit
ONE  == -2      \* constant 1 bit
ANY  == -3      \* not defined by the format (high nibble of ITF-8's fifth byte)
\* what sits at bit j (7 = most significant) of byte k (1-based) of an n-byte encoding
Slot(kind, n, k, j) ==
    LET W == ValueBits(kind, n)
        p == PrefixOnes(kind, n)
        f == FirstBits(kind, n)
    IN IF k = 1
       THEN IF j >= 8 - p THEN ONE
            ELSE IF HasZero(kind, n) /\ j = 7 - p THEN ZERO
            ELSE W - f + j
       ELSE IF kind = "itf8" /\ n = 5
            THEN IF k = 5 THEN (IF j >= 4 THEN ANY ELSE j)
                 ELSE 4 + 8 * (4 - k) + j
            ELSE 8 * (n - k) + j
\* ---- arithmetic form used for checking (fast); the bit-by-bit form below is the
\* ---- same layout read slot by slot, and Tf8MC checks that the two agree.
Limb(v, q) == IF q < Len(v) THEN v[Len(v) - q] ELSE 0          \* q = 0 is least significant
\* the w-bit field (w <= 16) of v starting at bit s
Field(v, s, w) == LET q == s \div 16
                      r == s % 16
                      lo == Limb(v, q) \div Pow2(r)
                  IN IF w = 0 THEN 0
                     ELSE IF r + w <= 16 THEN lo % Pow2(w)
                     ELSE lo + (Limb(v, q + 1) % Pow2(r + w - 16)) * Pow2(16 - r)
\* all bits of v at positions >= k are zero
FitsIn(v, k, kind) == \A q \in 0..(NLimbs(kind) - 1) :
                         IF 16 * q >= k THEN Limb(v, q) = 0
                         ELSE IF 16 * q + 16 <= k THEN TRUE
                         ELSE Limb(v, q) \div Pow2(k - 16 * q) = 0
Holds(kind, n, v) == ValueBits(kind, n) >= Width(kind) \/ FitsIn(v, ValueBits(kind, n), kind)
\* the encoded length: the shortest form that holds the value
LenOf(kind, v) == CHOOSE n \in 1..MaxLen(kind) : Holds(kind, n, v) /\ \A m \in 1..(n - 1) : ~Holds(kind, m, v)

Ones(k) == 256 - Pow2(8 - k)                 \* a byte with k leading one bits
\* value bits carried by byte k: a contiguous run starting at Slot(kind,n,k,0)
BitsIn(kind, n, k) == IF k = 1 THEN FirstBits(kind, n)
                      ELSE IF kind = "itf8" /\ n = 5 /\ k = 5 THEN 4 ELSE 8
Byte(kind, n, v, k) == (IF k = 1 THEN Ones(PrefixOnes(kind, n)) ELSE 0)
                       + (IF BitsIn(kind, n, k) = 0 THEN 0 ELSE Field(v, Slot(kind, n, k, 0), BitsIn(kind, n, k)))
\* bits of byte k that the format defines, as a modulus: compare bytes modulo this
CareMod(kind, n, k) == IF kind = "itf8" /\ n = 5 /\ k = 5 THEN 16 ELSE 256
Encoding(kind, v) == LET n == LenOf(kind, v) IN [k \in 1..n |-> Byte(kind, n, v, k)]

\* the length announced by a first byte
RECURSIVE LeadingOnes(_, _)
LeadingOnes(b, k) == IF k = 0 \/ (b \div Pow2(k - 1)) % 2 = 0 THEN 0 ELSE 1 + LeadingOnes(b, k - 1)
Announced(kind, b0) == LET o == LeadingOnes(b0, 8)
                       IN IF kind = "itf8" THEN (IF o >= 4 THEN 5 ELSE o + 1) ELSE o + 1

\* v is the value that the first Announced bytes of bs encode
IsDecodingOf(kind, bs, v) ==
    LET n == Announced(kind, bs[1])
    IN /\ Holds(kind, n, v)
       /\ \A k \in 1..n : bs[k] % CareMod(kind, n, k) = Byte(kind, n, v, k) % CareMod(kind, n, k)

\* ---- bit-by-bit reading of the Slot table (slow; used by Tf8MC on a small value set)
RECURSIVE ByteR(_, _, _, _, _)
ByteR(kind, n, k, v, j) ==
    IF j = 8 THEN 0
    ELSE LET sl == Slot(kind, n, k, j)
         IN (IF sl = ONE THEN 1 ELSE IF sl >= 0 THEN Bit(v, sl) ELSE 0) * Pow2(j) + ByteR(kind, n, k, v, j + 1)
SlotByte(kind, n, v, k) == ByteR(kind, n, k, v, 0)
\* every value bit below ValueBits has exactly one slot, and none above
SlotsPartition(kind, n) ==
    \A i \in 0..(Width(kind) - 1) :
        LET S == {kj \in (1..n) \X (0..7) : Slot(kind, n, kj[1], kj[2]) = i}
        IN IF i < ValueBits(kind, n) THEN \E x \in S : S = {x} ELSE S = {}
SlotTbl == [kd \in Kinds |-> [n \in 1..MaxLen(kd) |-> [k \in 1..n |-> [j \in 0..7 |-> Slot(kd, n, k, j)]]]]
=============================================================================
