------------------------------- MODULE GrammarTrace -------------------------------
(* Judges the recorded outcome of every executed case: the case must be one of Grammar's  *)
(* (both components, for pairs) and its outcome a value or an error.                       *)
EXTENDS Grammar, Json, IOUtils, Integers
Trace == ndJsonDeserialize(IOEnv.TRACE)
VARIABLES l, rej, seen
vars == <<l, rej, seen>>
Ev == Trace[l]
Init == l = 1 /\ rej = <<>> /\ seen = 0
CaseOK == /\ IsCase(Ev.dec, Ev.field, Ev.inst, Ev.mut)
          /\ (Ev.field2 # "" => IsCase(Ev.dec, Ev.field2, Ev.inst2, Ev.mut2))
          /\ (Total(Ev.outcome) \/ NotJudged(Ev.outcome))
Guard == CASE Ev.ev = "T" -> TRUE
           [] Ev.ev = "case" -> CaseOK
           [] Ev.ev = "corpus" -> Ev.dec \in Decs /\ Total(Ev.outcome)      \* an input of the repository's crasher corpora
           [] OTHER -> FALSE
Step == /\ l <= Len(Trace) /\ l' = l + 1
        /\ rej' = IF Guard THEN rej ELSE Append(rej, [sc |-> Ev.sc, line |-> l])
        /\ seen' = IF Ev.ev \in {"case", "corpus"} /\ Total(Ev.outcome) THEN seen + 1 ELSE seen
Done == /\ l = Len(Trace) + 1
        /\ PrintT("VERIF-DONE " \o ToJson([lines |-> Len(Trace), rej |-> rej, judged |-> seen]))
        /\ l' = l + 1 /\ UNCHANGED <<rej, seen>>
Next == Step \/ Done
Spec == Init /\ [][Next]_vars
=============================================================================
