------------------------------- MODULE Grammar -------------------------------
(* C11 - decoders are total.                                                              *)
(* For every decoder of the library: the fields of its encoding (Schema: field name ->    *)
(* kind) and the space of structure-aware mutations of a valid encoding (Muts by kind).   *)
(* A case = (decoder, field, which instance of the field, mutation kind).  The only       *)
(* behavioural claim is Total: a decoder given any such input returns a value or an       *)
(* error - and every value returned without error survives the library's own accessors,   *)
(* formatters, writers and index builders (run by the harness in the same protected call) *)
(* - never a panic, never a hang.  TLC enumerates Cases (GrammarGen) and judges every     *)
(* recorded outcome (GrammarTrace).                                                       *)
(*                                                                                        *)
(* Kinds:  magic  fixed bytes                int    fixed-width little-endian integer     *)
(*         count  integer: number of repeated groups / elements that follow               *)
(*         len    integer: length in bytes of a following field                           *)
(*         itf/ltf ITF-8 / LTF-8 coded integer          icount  ITF-8 coded count/length  *)
(*         bytes  opaque bytes               nul    NUL-terminated string(s)              *)
(*         col    text column                num    numeric text column                   *)
(*         sep    separator (tab, colon, comma, newline)    tag   code letters (@SQ, VN, type letter, CIGAR op) *)
EXTENDS Sequences, FiniteSets, TLC
Schema == [
   bgzf |->
     [
      bsize |-> "len", cdata |-> "bytes", cm |-> "int", crc |-> "int", flg |-> "int",
      id1 |-> "magic", id2 |-> "magic", isize |-> "len", mtime |-> "int", os |-> "int",
      si1 |-> "magic", si2 |-> "magic", slen |-> "len", xfl |-> "int", xlen |-> "len" ],
   bam |->
     [
      aux_arr |-> "bytes", aux_cnt |-> "count", aux_str |-> "nul", aux_sub |-> "tag",
      aux_tag |-> "tag", aux_type |-> "tag", aux_val |-> "int", bam_magic |-> "magic", bin |-> "int",
      block_size |-> "len", cigar_op |-> "int", flag |-> "int", l_name |-> "len",
      l_read_name |-> "len", l_ref |-> "int", l_seq |-> "len", l_text |-> "len", mapq |-> "int",
      n_cigar_op |-> "count", n_ref |-> "count", name |-> "nul", next_pos |-> "int",
      next_refID |-> "int", pos |-> "int", qual |-> "bytes", read_name |-> "nul", refID |-> "int",
      seq |-> "bytes", text |-> "bytes", tlen |-> "int" ],
   bamhdr |->
     [
      bam_magic |-> "magic", l_name |-> "len", l_ref |-> "int", l_text |-> "len", n_ref |-> "count",
      name |-> "nul", text |-> "bytes" ],
   bai |->
     [
      bai_magic |-> "magic", bin |-> "int", chunk_beg |-> "int", chunk_end |-> "int",
      ioffset |-> "int", n_bin |-> "count", n_chunk |-> "count", n_intv |-> "count",
      n_no_coor |-> "int", n_ref |-> "count", stat_beg |-> "int", stat_end |-> "int",
      stat_mapped |-> "int", stat_unmapped |-> "int" ],
   tabix |->
     [
      bin |-> "int", chunk_beg |-> "int", chunk_end |-> "int", col_beg |-> "int", col_end |-> "int",
      col_seq |-> "int", format |-> "int", ioffset |-> "int", l_nm |-> "len", meta |-> "int",
      n_bin |-> "count", n_chunk |-> "count", n_intv |-> "count", n_no_coor |-> "int",
      n_ref |-> "count", names |-> "nul", skip |-> "int", stat_beg |-> "int", stat_end |-> "int",
      stat_mapped |-> "int", stat_unmapped |-> "int", tbi_magic |-> "magic" ],
   csi |->
     [
      aux |-> "bytes", bin |-> "int", chunk_beg |-> "int", chunk_end |-> "int",
      csi_magic |-> "magic", csi_version |-> "int", depth |-> "int", l_aux |-> "len",
      loffset |-> "int", min_shift |-> "int", n_bin |-> "count", n_chunk |-> "count",
      n_no_coor |-> "int", n_rec |-> "int", n_ref |-> "count", stat_beg |-> "int",
      stat_end |-> "int", stat_mapped |-> "int", stat_unmapped |-> "int" ],
   fai |->
     [
      fai_length |-> "num", fai_linebases |-> "num", fai_linewidth |-> "num", fai_name |-> "col",
      fai_offset |-> "num", nl |-> "sep", tab |-> "sep" ],
   fasta |->
     [
      bases |-> "col", fa_desc |-> "col", fa_name |-> "col", gt |-> "tag", nl |-> "sep",
      space |-> "sep" ],
   samhdr |->
     [
      co_code |-> "tag", co_text |-> "col", colon |-> "sep", hd_GO |-> "col", hd_SO |-> "col",
      hd_VN |-> "col", hd_code |-> "tag", hd_tag |-> "tag", nl |-> "sep", pg_CL |-> "col",
      pg_ID |-> "col", pg_PN |-> "col", pg_PP |-> "col", pg_VN |-> "col", pg_code |-> "tag",
      pg_tag |-> "tag", rg_CN |-> "col", rg_DS |-> "col", rg_DT |-> "col", rg_FO |-> "col",
      rg_ID |-> "col", rg_KS |-> "col", rg_LB |-> "col", rg_PG |-> "col", rg_PI |-> "num",
      rg_PL |-> "col", rg_PU |-> "col", rg_SM |-> "col", rg_code |-> "tag", rg_tag |-> "tag",
      sq_AS |-> "col", sq_LN |-> "num", sq_M5 |-> "col", sq_SN |-> "col", sq_SP |-> "col",
      sq_UR |-> "col", sq_code |-> "tag", sq_tag |-> "tag", tab |-> "sep" ],
   samrec |->
     [
      aux_elem |-> "num", aux_num |-> "num", aux_sub |-> "tag", aux_tag |-> "tag",
      aux_type |-> "tag", aux_val |-> "col", cigar_star |-> "col", colon |-> "sep", comma |-> "sep",
      op |-> "tag", oplen |-> "num", pnext |-> "num", qname |-> "col", rname |-> "col",
      rnext |-> "col", sflag |-> "num", smapq |-> "num", spos |-> "num", squal |-> "col",
      sseq |-> "col", stlen |-> "num", tab |-> "sep" ],
   samfile |->
     [
      aux_num |-> "num", aux_tag |-> "tag", aux_type |-> "tag", aux_val |-> "col", co_code |-> "tag",
      co_text |-> "col", colon |-> "sep", hd_GO |-> "col", hd_SO |-> "col", hd_VN |-> "col",
      hd_code |-> "tag", hd_tag |-> "tag", nl |-> "sep", op |-> "tag", oplen |-> "num",
      pg_CL |-> "col", pg_ID |-> "col", pg_PN |-> "col", pg_PP |-> "col", pg_VN |-> "col",
      pg_code |-> "tag", pg_tag |-> "tag", pnext |-> "num", qname |-> "col", rg_CN |-> "col",
      rg_DS |-> "col", rg_DT |-> "col", rg_FO |-> "col", rg_ID |-> "col", rg_KS |-> "col",
      rg_LB |-> "col", rg_PG |-> "col", rg_PI |-> "num", rg_PL |-> "col", rg_PU |-> "col",
      rg_SM |-> "col", rg_code |-> "tag", rg_tag |-> "tag", rname |-> "col", rnext |-> "col",
      sflag |-> "num", smapq |-> "num", spos |-> "num", sq_AS |-> "col", sq_LN |-> "num",
      sq_M5 |-> "col", sq_SN |-> "col", sq_SP |-> "col", sq_UR |-> "col", sq_code |-> "tag",
      sq_tag |-> "tag", squal |-> "col", sseq |-> "col", stlen |-> "num", tab |-> "sep" ],
   auxtext |->
     [
      aux_elem |-> "num", aux_num |-> "num", aux_sub |-> "tag", aux_tag |-> "tag",
      aux_type |-> "tag", aux_val |-> "col", colon |-> "sep", comma |-> "sep" ],
   cigartext |->
     [
      op |-> "tag", oplen |-> "num" ],
   cram |->
     [
      b_contentid |-> "itf", b_crc |-> "int", b_csize |-> "icount", b_gzdata |-> "bytes",
      b_method |-> "int", b_rsize |-> "icount", b_type |-> "int", c_bases |-> "ltf",
      c_blocks |-> "itf", c_crc |-> "int", c_landmark |-> "itf", c_len |-> "len",
      c_nlandmarks |-> "icount", c_nrec |-> "itf", c_reccount |-> "ltf", c_refid |-> "itf",
      c_span |-> "itf", c_start |-> "itf", comp_hdr |-> "bytes", core_data |-> "bytes",
      cram_id |-> "bytes", cram_magic |-> "magic", cram_major |-> "int", cram_minor |-> "int",
      ext_data |-> "bytes", fh_len |-> "len", fh_text |-> "bytes", s_blockid |-> "itf",
      s_blocks |-> "itf", s_embedded |-> "itf", s_md5 |-> "bytes", s_nblockids |-> "icount",
      s_nrec |-> "itf", s_reccount |-> "ltf", s_refid |-> "itf", s_span |-> "itf", s_start |-> "itf",
      s_tags |-> "bytes" ],
   itf8 |->
     [
      itf |-> "itf" ],
   ltf8 |->
     [
      ltf |-> "ltf" ],
   itf8slice |->
     [
      itf_elem |-> "itf", n_itf |-> "icount" ]
 ]
Decs == DOMAIN Schema
Inst == {"first", "last"}
\* truncBefore/Inside: the whole encoding ends at / inside the field.  cutBefore/Inside: the structure
\* enclosing the field (record, block, member) ends there and its length fields agree with that.
Trunc == {"truncBefore", "truncInside", "cutBefore", "cutInside"}
\* (eight: a count equal to the size of the fixed part of an array field - with element "width" -1 the
\* field length comes out as zero; nul: a zero byte where text is expected; asZ/asB: a type letter of
\* another family in place of this one)
IntMuts == {"neg", "zero", "one", "eight", "big", "max", "umax", "plus1", "minus1"}
Muts(k) == CASE k = "magic" -> Trunc \cup {"flipBit"}
             [] k = "int" -> Trunc \cup {"flipBit", "neg", "zero", "max", "umax"}
             [] k \in {"count", "len"} -> Trunc \cup {"flipBit"} \cup IntMuts
             [] k \in {"itf", "ltf"} -> Trunc \cup {"flipBit", "neg", "zero", "max"}
             [] k = "icount" -> Trunc \cup {"flipBit", "neg", "zero", "one", "eight", "big", "max"}
             [] k = "bytes" -> Trunc \cup {"flipBit", "empty", "short1", "splice", "long", "nul"}
             [] k = "nul" -> Trunc \cup {"flipBit", "empty", "short1", "noNul", "splice", "long", "nul"}
             [] k = "col" -> Trunc \cup {"flipBit", "empty", "short1", "short2", "unknownLetter", "splice", "long", "nul"}
             [] k = "num" -> Trunc \cup {"empty", "badDigit", "hugeNum", "negNum", "zeroNum", "plus1Num", "minus1Num", "short1", "long"}
             [] k = "sep" -> {"truncBefore", "cutBefore", "dropSep", "dupSep"}
             [] k = "tag" -> Trunc \cup {"flipBit", "empty", "short1", "unknownLetter", "long", "nul", "asZ", "asB"}
CasesOf(d) == UNION {{[dec |-> d, field |-> f, inst |-> n, mut |-> m] : n \in Inst, m \in Muts(Schema[d][f])} : f \in DOMAIN Schema[d]}
IsCase(d, f, n, m) == d \in Decs /\ f \in DOMAIN Schema[d] /\ n \in Inst /\ m \in Muts(Schema[d][f])
\* pairs of cases that are always run together with the single cases (the thorough tier adds seeded pairs):
\* a type letter of another family together with each small count
DirectedPairs(d) ==
    {<<a, b>> \in CasesOf(d) \X CasesOf(d) :
        /\ Schema[d][a.field] = "tag" /\ a.mut \in {"asZ", "asB", "unknownLetter"}
        /\ Schema[d][b.field] \in {"count", "icount"} /\ b.mut \in {"eight", "zero", "one", "neg"}
        /\ a.inst = b.inst}
\* the property: what a decoder (followed by the accessor battery) may do with a case's input
Total(outcome) == outcome \in {"value", "error"}
\* outcomes that are recorded but not judged: the mutation did not change the specimen; the
\* decoder asked for more memory than the harness limit (the property sets those aside)
NotJudged(outcome) == outcome \in {"unapplied", "oom"}
=============================================================================
