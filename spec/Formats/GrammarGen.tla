---- MODULE GrammarGen ----
(* prints the schema and the cases of every decoder for the harness *)
EXTENDS Grammar, Json
VARIABLE x
ASSUME PrintT("VERIF-GEN " \o ToJson([schema |-> Schema]))
ASSUME \A d \in Decs : PrintT("VERIF-GEN " \o ToJson([dec |-> d, cases |-> CasesOf(d)]))
ASSUME \A d \in {"bam", "auxtext", "samrec", "cram"} : PrintT("VERIF-GEN " \o ToJson([pdec |-> d, pairs |-> DirectedPairs(d)]))
Init == x = 0
Next == UNCHANGED x
Spec == Init /\ [][Next]_x
====
