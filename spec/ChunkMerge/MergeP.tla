------------------------------- MODULE MergeP -------------------------------
(* Property-level specification of the chunk merge strategies (C17).               *)
(* A chunk is [b |-> <<file,block>>, e |-> <<file,block>>] and covers the virtual   *)
(* offset positions p with b <= p < e.  Nothing here looks like the Go code: it is   *)
(* the statement of C17 and accepts any implementation that satisfies it.            *)
EXTENDS VOff, FiniteSets

Idx(cs) == 1..Len(cs)
SortedByBegin(cs) == \A i \in 1..(Len(cs) - 1) : LeV(cs[i].b, cs[i + 1].b)
WellFormed(cs) == \A i \in Idx(cs) : LeV(cs[i].b, cs[i].e)

\* Coverage is constant between consecutive endpoints, so comparing it at every
\* endpoint of either list decides it for every virtual offset position.
Pts(cs, ds) == {cs[i].b : i \in Idx(cs)} \cup {cs[i].e : i \in Idx(cs)} \cup
               {ds[i].b : i \in Idx(ds)} \cup {ds[i].e : i \in Idx(ds)}
In(p, cs) == \E i \in Idx(cs) : LeV(cs[i].b, p) /\ LtV(p, cs[i].e)
Covers(out, in) == \A p \in Pts(in, out) : In(p, in) => In(p, out)

Common(in, out) == SortedByBegin(out) /\ Covers(out, in)

PostIdentity(in, out) == out = in
PostAdjacent(in, out) ==
    /\ Common(in, out)
    /\ Covers(in, out)                                              \* exactly the input's positions
    /\ \A i \in 1..(Len(out) - 1) : LtV(out[i].e, out[i + 1].b)     \* pairwise separated
PostSquash(in, out) ==
    IF in = <<>> THEN out = <<>>
    ELSE /\ Len(out) = 1
         /\ \A i \in Idx(in) : LeV(out[1].b, in[i].b) /\ LeV(in[i].e, out[1].e)   \* enclosing
         /\ \E i \in Idx(in) : out[1].b = in[i].b                                 \* and tight
         /\ \E i \in Idx(in) : out[1].e = in[i].e
PostCompressor(near, in, out) ==
    /\ Common(in, out)
    /\ \A i \in 1..(Len(out) - 1) : out[i].e[1] + near < out[i + 1].b[1]

Post(strat, near, in, out) ==
    CASE strat = "identity"   -> PostIdentity(in, out)
      [] strat = "adjacent"   -> PostAdjacent(in, out)
      [] strat = "squash"     -> PostSquash(in, out)
      [] strat = "compressor" -> PostCompressor(near, in, out)
=============================================================================
