------------------------------- MODULE MergeTrace -------------------------------
(* Trace specification for C17: every recorded call of a real merge strategy is      *)
(* checked against MergeP (verdict) or, with CheckI, against the loop of MergeI       *)
(* (conformance of the implementation-shaped model; a mismatch there is model drift). *)
EXTENDS MergeP, TLC, Json, IOUtils, SequencesExt
CONSTANT CheckI

Trace == ndJsonDeserialize(IOEnv.TRACE)
VARIABLES l, rej
vars == <<l, rej>>
Ev == Trace[l]

ToChunks(s) == [i \in 1..Len(s) |-> [b |-> s[i][1], e |-> s[i][2]]]

\* MergeI's functional form (same text as MergeI!Run; MergeI itself has constants)
RECURSIVE RunLoop(_, _, _, _)
RunLoop(s, n, cs, k) ==
    IF k > Len(cs) THEN cs
    ELSE LET lft == cs[k - 1]
             r == cs[k]
             m == IF s = "adjacent" THEN LeV(r.b, lft.e) ELSE lft.e[1] + n >= r.b[1]
         IN IF m THEN RunLoop(s, n, [i \in 1..(Len(cs) - 1) |->
                                        IF i < k - 1 THEN cs[i]
                                        ELSE IF i = k - 1 THEN [b |-> lft.b, e |-> MaxV(lft.e, r.e)]
                                        ELSE cs[i + 1]], k)
            ELSE RunLoop(s, n, cs, k + 1)
Run(s, n, cs) ==
    IF s = "identity" \/ cs = <<>> THEN cs
    ELSE IF s = "squash" THEN << [b |-> cs[1].b, e |-> FoldLeft(LAMBDA acc, x : MaxV(acc, x.e), cs[1].e, cs)] >>
    ELSE RunLoop(s, n, cs, 2)

Init == l = 1 /\ rej = <<>>
IsEv(e) == l <= Len(Trace) /\ Ev.ev = e /\ l' = l + 1

Reset == IsEv("T") /\ UNCHANGED rej
\* Holds(b) makes TLC evaluate a state-level guard as one boolean value.  Written as a bare conjunct it
\* is expanded by Skip's ~ENABLED Regular, which explores every branch of every quantifier and implication
\* of a guard that is false - exponential in the number of chunk end points for a rejected event.
Holds(b) == b = TRUE
MergeOK == /\ Ev.res = "ok"                               \* a panic has no action
           /\ LET in == ToChunks(Ev.in)
                  out == ToChunks(Ev.out)
                  out2 == ToChunks(Ev.out2)
              IN /\ SortedByBegin(in) /\ WellFormed(in)   \* generator precondition
                 /\ IF CheckI THEN out = Run(Ev.strat, Ev.near, in)
                    ELSE /\ Post(Ev.strat, Ev.near, in, out)
                         /\ out2 = out                    \* applying twice changes nothing
Merge == /\ IsEv("merge") /\ UNCHANGED rej
         /\ Holds(MergeOK)

Regular == Reset \/ Merge
RECURSIVE NextHdr(_)
NextHdr(i) == IF i > Len(Trace) THEN i ELSE IF Trace[i].ev = "T" THEN i ELSE NextHdr(i + 1)
Skip == /\ l <= Len(Trace) /\ ~ENABLED Regular
        /\ rej' = Append(rej, [sc |-> Ev.sc, line |-> l]) /\ l' = l + 1   \* events are independent
Done == /\ l = Len(Trace) + 1
        /\ PrintT("VERIF-DONE " \o ToJson([lines |-> Len(Trace), rej |-> rej]))
        /\ l' = l + 1 /\ UNCHANGED rej
Next == Regular \/ Skip \/ Done
Spec == Init /\ [][Next]_vars
=============================================================================
