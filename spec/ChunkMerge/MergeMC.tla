---- MODULE MergeMC ----
EXTENDS MergeI
====
