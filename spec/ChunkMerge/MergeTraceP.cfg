SPECIFICATION Spec
CONSTANT CheckI = FALSE
CHECK_DEADLOCK FALSE
