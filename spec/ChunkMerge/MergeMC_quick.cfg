SPECIFICATION Spec
CONSTANTS
  Files = {0, 1, 2}
  Blocks = {0, 1}
  MaxLen = 3
  Nears = {0, 1}
INVARIANTS PostHolds Idempotent
CHECK_DEADLOCK FALSE
