SPECIFICATION Spec
CONSTANT CheckI = TRUE
CHECK_DEADLOCK FALSE
