------------------------------- MODULE MergeI -------------------------------
(* Implementation-shaped specification of bgzf/index/strategy.go: the in-place       *)
(* left-to-right loop of adjacent() and CompressorStrategy(), and squash().  One      *)
(* action per loop iteration; `chunks = append(chunks[:c-1], chunks[c:]...)` after    *)
(* the right chunk was overwritten is "remove element c-1" on the visible slice.      *)
EXTENDS MergeP, SequencesExt
CONSTANTS Files, Blocks, MaxLen, Nears

Offs == Files \X Blocks
Chunks == {c \in [b : Offs, e : Offs] : LeV(c.b, c.e)}
RECURSIVE ListsOf(_)
ListsOf(n) == IF n = 0 THEN {<<>>}
              ELSE LET S == ListsOf(n - 1)
                   IN S \cup {Append(s, c) : s \in {x \in S : Len(x) = n - 1}, c \in Chunks}
SortedLists == {s \in ListsOf(MaxLen) : SortedByBegin(s)}

VARIABLES strat, near, input, chunks, c, pc, pass, first
vars == <<strat, near, input, chunks, c, pc, pass, first>>

MergeCond(l, r) ==
    IF strat = "adjacent" THEN LeV(r.b, l.e) ELSE l.e[1] + near >= r.b[1]

Init == /\ input \in SortedLists
        /\ strat \in {"identity", "adjacent", "squash", "compressor"}
        /\ near \in (IF strat = "compressor" THEN Nears ELSE {0})
        /\ chunks = input /\ c = 2 /\ pc = "start" /\ pass = 1 /\ first = <<>>

Start == /\ pc = "start"
         /\ IF strat = "identity" THEN pc' = "ret" /\ UNCHANGED chunks
            ELSE IF chunks = <<>> THEN pc' = "ret" /\ UNCHANGED chunks      \* returns nil
            ELSE IF strat = "squash"
                 THEN /\ chunks' = << [b |-> chunks[1].b,
                                       e |-> FoldLeft(LAMBDA acc, x : MaxV(acc, x.e), chunks[1].e, chunks)] >>
                      /\ pc' = "ret"
                 ELSE pc' = "loop" /\ UNCHANGED chunks
         /\ c' = 2 /\ UNCHANGED <<strat, near, input, pass, first>>

Iter == /\ pc = "loop"
        /\ UNCHANGED <<strat, near, input, pass, first>>
        /\ IF c > Len(chunks) THEN pc' = "ret" /\ UNCHANGED <<chunks, c>>
           ELSE /\ pc' = "loop"
                /\ LET l == chunks[c - 1]
                       r == chunks[c]
                   IN IF MergeCond(l, r)
                      THEN /\ chunks' = [i \in 1..(Len(chunks) - 1) |->
                                           IF i < c - 1 THEN chunks[i]
                                           ELSE IF i = c - 1 THEN [b |-> l.b, e |-> MaxV(l.e, r.e)]
                                           ELSE chunks[i + 1]]
                           /\ UNCHANGED c        \* c-- then c++
                      ELSE c' = c + 1 /\ UNCHANGED chunks

\* second application on the first result (idempotence clause)
Again == /\ pc = "ret" /\ pass = 1
         /\ first' = chunks /\ pass' = 2 /\ pc' = "start"
         /\ UNCHANGED <<strat, near, input, chunks, c>>
Finish == pc = "ret" /\ pass = 2 /\ pc' = "done" /\ UNCHANGED <<strat, near, input, chunks, c, pass, first>>

Next == Start \/ Iter \/ Again \/ Finish
Spec == Init /\ [][Next]_vars

\* I refines P
PostHolds == (pc = "ret" /\ pass = 1) => Post(strat, near, input, chunks)
Idempotent == pc = "done" => chunks = first
Terminates == <>(pc = "done")

\* functional form of the same loop, used to compare the code's output in trace validation
RECURSIVE RunLoop(_, _, _, _)
RunLoop(s, n, cs, k) ==
    IF k > Len(cs) THEN cs
    ELSE LET l == cs[k - 1]
             r == cs[k]
             m == IF s = "adjacent" THEN LeV(r.b, l.e) ELSE l.e[1] + n >= r.b[1]
         IN IF m THEN RunLoop(s, n, [i \in 1..(Len(cs) - 1) |->
                                        IF i < k - 1 THEN cs[i]
                                        ELSE IF i = k - 1 THEN [b |-> l.b, e |-> MaxV(l.e, r.e)]
                                        ELSE cs[i + 1]], k)
            ELSE RunLoop(s, n, cs, k + 1)
Run(s, n, cs) ==
    IF s = "identity" \/ cs = <<>> THEN cs
    ELSE IF s = "squash" THEN << [b |-> cs[1].b, e |-> FoldLeft(LAMBDA acc, x : MaxV(acc, x.e), cs[1].e, cs)] >>
    ELSE RunLoop(s, n, cs, 2)
=============================================================================
