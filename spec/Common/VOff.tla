------------------------------- MODULE VOff -------------------------------
(* Virtual offsets <<file, block>> ordered lexicographically.  TLC integers are 32 bit, *)
(* so an offset is never packed into one number (file<<16|block).                        *)
EXTENDS Integers, Sequences
LtV(a, b) == a[1] < b[1] \/ (a[1] = b[1] /\ a[2] < b[2])
LeV(a, b) == a = b \/ LtV(a, b)
MaxV(a, b) == IF LtV(a, b) THEN b ELSE a
MinV(a, b) == IF LtV(b, a) THEN b ELSE a
=============================================================================
