SPECIFICATION Spec
INVARIANTS RoundTrip SizeField
CHECK_DEADLOCK FALSE
