------------------------------- MODULE CodecTrace -------------------------------
(* Trace specification for C05 and C06.  For every generated record: the bytes the BAM   *)
(* writer produced must equal the reference encoding (bin field excepted); what the BAM   *)
(* reader returns under each Omit mode must be the record minus exactly the omitted       *)
(* parts; the SAM line must be the reference line (decimal and hexadecimal flags), must   *)
(* parse back to an equal record (integer aux types narrowed) that formats identically,   *)
(* and the record read from BAM must format to the same line.  The SAM reader must        *)
(* return every line of its input as one record.                                          *)
EXTENDS Codec, Json, IOUtils
Trace == ndJsonDeserialize(IOEnv.TRACE)
VARIABLES l, rej, refs, cur        \* refs: the header's reference names as byte sequences
vars == <<l, rej, refs, cur>>
Ev == Trace[l]
Init == l = 1 /\ rej = <<>> /\ refs = <<>> /\ cur = [name |-> <<>>]
\* integer aux values are stored in the smallest type that holds them when parsed from text
NarrowType(a) ==
    IF a.typ \in {"c", "C", "s", "S", "i"}
    THEN (IF a.v < 0 THEN (IF a.v >= -128 THEN "c" ELSE IF a.v >= -32768 THEN "s" ELSE "i")
          ELSE (IF a.v <= 255 THEN "C" ELSE IF a.v <= 65535 THEN "S" ELSE "I"))
    ELSE IF a.typ = "I" THEN (IF a.v[1] = 0 THEN (IF a.v[2] <= 255 THEN "C" ELSE "S") ELSE "I")
    ELSE a.typ
\* <<type, value>> as it is after narrowing (an I value stays <<hi, lo>> only if it stays I)
NarrowVal(a) == LET t == NarrowType(a)
                IN IF a.typ = "I" /\ t # "I" THEN a.v[2]
                   ELSE IF a.typ = "i" /\ t = "I" THEN <<a.v \div 65536, a.v % 65536>>
                   ELSE a.v
\* One guard per event kind.  (A single deterministic step with an explicit guard rather than
\* Skip == ~ENABLED Regular: TLC evaluates ENABLED by recursion over every bounded quantifier,
\* which overflows the stack on records of tens of kilobytes.)
\* rec: the generated record and the bytes bam.Writer produced for it
RecOK == Ev.res = "nil" /\ SameButBin(Encode(Ev.r), Ev.enc)
\* back: read back with bam.Reader under Omit mode Ev.omit
BackOK == Ev.res = "nil" /\ Ev.r = Omitted(cur, Ev.omit)
SamOK == /\ Ev.res = "nil"
         /\ Ev.lineb = Line(refs, cur, FlagBytes(Ev.fmt, cur.flag))       \* the reference line
         /\ Ev.reline                                       \* parse(line) formats to the identical line
         /\ Len(Ev.ptypes) = Len(cur.aux)
         /\ \A i \in DOMAIN cur.aux : Ev.ptypes[i] = NarrowType(cur.aux[i])
         /\ Ev.fields                                       \* parsed fields equal the record's (projection by the harness, aux by text)
         /\ Ev.bamline = Ev.line                            \* the record read back from BAM formats to the same line
\* sam.Reader over an input of Ev.n record lines: every line is one record, then io.EOF
SamReaderOK == /\ Ev.res = "nil" /\ Ev.got = Ev.want /\ Ev.err = "EOF"
               /\ \A k \in DOMAIN Ev.same : Ev.same[k]          \* each record formats to its input line
\* sam.Writer output = header text, then one line (and a newline) per record; sam.Reader over it gives the
\* header and every record back (each re-formats to its line), then io.EOF
SamFileOK == /\ Ev.res = "nil"
             /\ Ev.out = Ev.hdrtext \o Flatten([i \in 1..Len(Ev.lines) |-> Ev.lines[i] \o <<10>>])
             /\ Ev.hdrback /\ Ev.err = "EOF" /\ Len(Ev.same) = Ev.n /\ \A k \in DOMAIN Ev.same : Ev.same[k]
Guard == CASE Ev.ev = "T" -> TRUE
           [] Ev.ev = "cur" -> TRUE          \* the record the following sam events are about (C06 traces)
           [] Ev.ev = "rec" -> RecOK
           [] Ev.ev = "back" -> BackOK
           [] Ev.ev = "hdrenc" -> Ev.enc = HeaderBytes(Ev.text, Ev.hrefs)
           [] Ev.ev = "hdr" -> Ev.equal
           [] Ev.ev = "eof" -> Ev.err = "EOF"
           [] Ev.ev = "sam" -> SamOK
           [] Ev.ev = "samreader" -> SamReaderOK
           [] Ev.ev = "samfile" -> SamFileOK
           [] OTHER -> FALSE
Step == /\ l <= Len(Trace) /\ l' = l + 1
        /\ rej' = IF Guard THEN rej ELSE Append(rej, [sc |-> Ev.sc, line |-> l])
        /\ refs' = IF Ev.ev = "T" THEN Ev.refsb ELSE refs
        /\ cur' = IF Ev.ev = "T" THEN [name |-> <<>>] ELSE IF Ev.ev \in {"rec", "cur"} /\ "r" \in DOMAIN Ev THEN Ev.r ELSE cur
Done == /\ l = Len(Trace) + 1
        /\ PrintT("VERIF-DONE " \o ToJson([lines |-> Len(Trace), rej |-> rej]))
        /\ l' = l + 1 /\ UNCHANGED <<rej, refs, cur>>
Next == Step \/ Done
Spec == Init /\ [][Next]_vars
=============================================================================
