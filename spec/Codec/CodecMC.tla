------------------------------- MODULE CodecMC -------------------------------
(* Self-consistency of the reference encoder (C05): a decoder written from the same      *)
(* section of the SAM specification, Decode, recovers every record of a small but        *)
(* class-complete domain from Encode's bytes, and two different records never have the   *)
(* same encoding.  TLC enumerates the domain (one state per record).                     *)
EXTENDS Codec, FiniteSets
\* ---- decoder ---------------------------------------------------------------------------
U(b, k, n) == LET F[i \in 0..n] == IF i = 0 THEN 0 ELSE F[i - 1] + b[k + i - 1] * Pow(256, i - 1) IN F[n]   \* unsigned, n <= 3
\* signed 32-bit from four bytes without leaving TLC's 32-bit integers
S32(b, k) == LET hi == b[k + 3] IN
             IF hi >= 128 THEN U(b, k, 3) + (hi - 256) * 16777216 ELSE U(b, k, 3) + hi * 16777216
S8(x) == IF x >= 128 THEN x - 256 ELSE x
S16(b, k) == LET v == U(b, k, 2) IN IF v >= 32768 THEN v - 65536 ELSE v
Sub(b, from, n) == [i \in 1..n |-> b[from + i - 1]]
Width(t) == CASE t \in {"A", "c", "C"} -> 1 [] t \in {"s", "S"} -> 2 [] OTHER -> 4
TypeOf(x) == CHOOSE t \in {"A", "c", "C", "s", "S", "i", "I", "f", "Z", "H", "B"} : TypeByte(t) = x
ElemVal(t, b, k) == CASE t = "A" -> b[k] [] t = "C" -> b[k] [] t = "c" -> S8(b[k])
                      [] t = "S" -> U(b, k, 2) [] t = "s" -> S16(b, k)
                      [] t = "i" -> S32(b, k)
                      [] t = "I" -> <<b[k + 2] + 256 * b[k + 3], b[k] + 256 * b[k + 1]>>
                      [] t = "f" -> Sub(b, k, 4)
\* position of the first NUL at or after k
RECURSIVE Nul(_, _)
Nul(b, k) == IF b[k] = 0 THEN k ELSE Nul(b, k + 1)
\* aux fields from position k to the end: sequence of [tag, typ, v, sub]
RECURSIVE Auxs(_, _)
Auxs(b, k) ==
    IF k > Len(b) THEN <<>>
    ELSE LET t == TypeOf(b[k + 2]) IN
         IF t \in {"Z", "H"} THEN LET z == Nul(b, k + 3) IN
              <<[tag |-> <<b[k], b[k + 1]>>, typ |-> t, v |-> Sub(b, k + 3, z - k - 3), sub |-> ""]>> \o Auxs(b, z + 1)
         ELSE IF t = "B" THEN LET st == TypeOf(b[k + 3]) n == S32(b, k + 4) w == Width(st) IN
              <<[tag |-> <<b[k], b[k + 1]>>, typ |-> t, v |-> [i \in 1..n |-> ElemVal(st, b, k + 8 + (i - 1) * w)], sub |-> st]>>
              \o Auxs(b, k + 8 + n * w)
         ELSE <<[tag |-> <<b[k], b[k + 1]>>, typ |-> t, v |-> ElemVal(t, b, k + 3), sub |-> ""]>> \o Auxs(b, k + 3 + Width(t))
Decode(e) ==
    LET b == Sub(e, 5, Len(e) - 4)                 \* after block_size
        lname == b[9]  ncig == U(b, 13, 2)  lseq == S32(b, 17)
        pn == 33  pc == pn + lname  ps == pc + 4 * ncig  pq == ps + (lseq + 1) \div 2  pa == pq + lseq
        q == Sub(b, pq, lseq)
        hasq == \E i \in 1..lseq : q[i] # 255
    IN [size |-> S32(e, 1),
        name |-> Sub(b, pn, lname - 1), ref |-> S32(b, 1), pos |-> S32(b, 5), mapq |-> b[10], flag |-> U(b, 15, 2),
        cigar |-> [i \in 1..ncig |-> LET w == pc + 4 * (i - 1) IN <<b[w] % 16, b[w] \div 16 + b[w + 1] * 16 + b[w + 2] * 4096 + b[w + 3] * 1048576>>],
        mref |-> S32(b, 21), mpos |-> S32(b, 25), tlen |-> S32(b, 29),
        seq |-> [i \in 1..lseq |-> LET x == b[ps + (i - 1) \div 2] IN IF i % 2 = 1 THEN x \div 16 ELSE x % 16],
        hasq |-> hasq, qual |-> IF hasq THEN q ELSE <<>>,
        aux |-> Auxs(b, pa)]
\* the decodable content of a record (the text fields names/tags/txt are not part of the encoding)
Core(r) == [size |-> Len(Encode(r)) - 4, name |-> r.name, ref |-> r.ref, pos |-> r.pos, mapq |-> r.mapq, flag |-> r.flag, cigar |-> r.cigar,
            mref |-> r.mref, mpos |-> r.mpos, tlen |-> r.tlen, seq |-> r.seq, hasq |-> r.hasq, qual |-> r.qual,
            aux |-> [i \in 1..Len(r.aux) |-> [tag |-> r.aux[i].tag, typ |-> r.aux[i].typ, v |-> r.aux[i].v, sub |-> r.aux[i].sub]]]
\* ---- domain ----------------------------------------------------------------------------
A(tag, typ, v, sub) == [tag |-> tag, tags |-> "", typ |-> typ, v |-> v, sub |-> sub, txt |-> ""]
\* (the choices are sequences indexed by the state variable: TLC cannot build a set of values of different shapes)
AuxChoices == << <<>>,
               <<A(<<88, 65>>, "A", 113, "")>>,
               <<A(<<88, 99>>, "c", -128, ""), A(<<88, 67>>, "C", 255, "")>>,
               <<A(<<88, 115>>, "s", -32768, ""), A(<<88, 83>>, "S", 65535, ""), A(<<88, 105>>, "i", -2147483647 - 1, "")>>,
               <<A(<<88, 73>>, "I", <<65535, 65535>>, ""), A(<<88, 102>>, "f", <<0, 0, 192, 63>>, "")>>,
               <<A(<<88, 90>>, "Z", <<>>, ""), A(<<88, 72>>, "H", <<49, 65>>, ""), A(<<88, 90>>, "Z", <<104, 105>>, "")>>,
               <<A(<<88, 66>>, "B", <<>>, "c"), A(<<88, 66>>, "B", <<1, 65535>>, "S"), A(<<88, 66>>, "B", <<-1, 2147483647>>, "i")>>,
               <<A(<<88, 66>>, "B", <<<<1, 2>>>>, "I"), A(<<88, 66>>, "B", <<<<0, 0, 128, 127>>, <<1, 2, 3, 4>>>>, "f"), A(<<88, 66>>, "B", <<-128, 127, 0>>, "c")>> >>
Names == << <<65>>, <<114, 47, 49>> >>
Cigars == << <<>>, <<<<0, 1>>>>, <<<<4, 2>>, <<9, 268435455>>, <<8, 0>>>> >>
Seqs == << <<>>, <<1>>, <<15, 0>>, <<8, 4, 2>> >>
\* quality choice 1 = absent, 2 = all zero, 3 = 255 first then 93
Qual(s, q) == IF q = 1 \/ s = <<>> THEN <<>> ELSE IF q = 2 THEN [i \in 1..Len(s) |-> 0] ELSE [i \in 1..Len(s) |-> IF i = 1 /\ Len(s) > 1 THEN 255 ELSE 93]
Pick2(k, a, b) == IF k = 1 THEN a ELSE b
VARIABLES k, seen            \* k: the choice made for every field
vars == <<k, seen>>
R == LET s == Seqs[k.s] q == Qual(s, k.q) IN
     [name |-> Names[k.n], names |-> "", flag |-> Pick2(k.f, 0, 65535), ref |-> Pick2(k.rf, -1, 2), pos |-> Pick2(k.p, -1, 268435455),
      mapq |-> Pick2(k.mq, 0, 255), cigar |-> Cigars[k.c], mref |-> Pick2(k.mr, -1, 0), mpos |-> Pick2(k.mp, -1, 536870911),
      tlen |-> Pick2(k.tl, -2147483647 - 1, 2147483647), seq |-> s, hasq |-> q # <<>>, qual |-> q, aux |-> AuxChoices[k.a]]
Init == /\ k \in [n : 1..2, f : 1..2, rf : 1..2, p : 1..2, mq : 1..2, c : 1..3, mr : 1..2, mp : 1..2, tl : 1..2, s : 1..4, q : 1..3, a : 1..8]
        /\ seen = FALSE
\* quick tier: every cigar / sequence / quality / aux choice, the other fields at one extreme
InitQ == /\ k \in [n : {2}, f : {2}, rf : 1..2, p : {2}, mq : {2}, c : 1..3, mr : {1}, mp : {2}, tl : 1..2, s : 1..4, q : 1..3, a : 1..8]
         /\ seen = FALSE
Next == seen = FALSE /\ seen' = TRUE /\ UNCHANGED k
Spec == Init /\ [][Next]_vars
SpecQ == InitQ /\ [][Next]_vars
RoundTrip == Decode(Encode(R)) = Core(R)
SizeField == LET e == Encode(R) IN S32(e, 1) = Len(e) - 4
=============================================================================
