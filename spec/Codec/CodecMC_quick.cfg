SPECIFICATION SpecQ
INVARIANTS RoundTrip SizeField
CHECK_DEADLOCK FALSE
