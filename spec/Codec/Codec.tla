------------------------------- MODULE Codec -------------------------------
(* Reference BAM encoder and SAM formatter (C05, C06), transcribed from the SAM         *)
(* specification (sections 1.4, 1.5, 4.2), not from the Go code.  A record is            *)
(*   [name (bytes), names (string), flag, ref, pos, mapq, cigar <<op 0..9, len>>,         *)
(*    mref, mpos, tlen, seq (4-bit codes), hasq, qual (phred bytes), aux]                 *)
(* with ref/mref indexes into the header's reference names (-1 = none) and aux a          *)
(* sequence of [tag <<b,b>>, tags (string), typ, v, sub, txt]: v = integer for A c C s S i,*)
(* <<hi16, lo16>> for I, raw bytes for f, bytes for Z and H, a sequence of such values    *)
(* for B (sub = element type); txt / txtb = the text of the value (string / bytes): used by *)
(* the formatter only for I values and floats - all other integers are formatted here.    *)
EXTENDS Integers, Sequences, TLC
Pow(b, k) == b^k
\* little-endian two's complement bytes of an integer in [-2^31, 2^31)
LE(v, n) == [k \in 1..n |-> (v \div Pow(256, k - 1)) % 256]
Halves(h) == <<h[2] % 256, h[2] \div 256, h[1] % 256, h[1] \div 256>>     \* uint32 given as <<hi16, lo16>>
\* concatenation of ss[lo..hi] by halving (recursion depth log n, records of tens of kilobytes occur)
RECURSIVE FlatR(_, _, _)
FlatR(ss, lo, hi) == IF lo > hi THEN <<>> ELSE IF lo = hi THEN ss[lo]
                     ELSE LET mid == (lo + hi) \div 2 IN FlatR(ss, lo, mid) \o FlatR(ss, mid + 1, hi)
Flatten(ss) == FlatR(ss, 1, Len(ss))
ByteOf(c) == c                      \* characters are given as byte values
CigarBytes(c) == Flatten([i \in 1..Len(c) |-> <<(c[i][2] % 16) * 16 + c[i][1], (c[i][2] \div 16) % 256,
                                                (c[i][2] \div 4096) % 256, (c[i][2] \div 1048576) % 256>>])
SeqBytes(s) == [k \in 1..((Len(s) + 1) \div 2) |-> s[2 * k - 1] * 16 + (IF 2 * k <= Len(s) THEN s[2 * k] ELSE 0)]
QualBytes(r) == IF r.hasq THEN r.qual ELSE [k \in 1..Len(r.seq) |-> 255]
ElemBytes(t, v) == CASE t \in {"A", "c", "C"} -> LE(v, 1)
                     [] t \in {"s", "S"} -> LE(v, 2)
                     [] t = "i" -> LE(v, 4)
                     [] t = "I" -> Halves(v)
                     [] t = "f" -> v
TypeByte(t) == CASE t = "A" -> 65 [] t = "c" -> 99 [] t = "C" -> 67 [] t = "s" -> 115 [] t = "S" -> 83 [] t = "i" -> 105
                 [] t = "I" -> 73 [] t = "f" -> 102 [] t = "Z" -> 90 [] t = "H" -> 72 [] t = "B" -> 66
AuxBytes(a) == <<a.tag[1], a.tag[2], TypeByte(a.typ)>> \o
               (CASE a.typ \in {"Z", "H"} -> a.v \o <<0>>
                  [] a.typ = "B" -> <<TypeByte(a.sub)>> \o LE(Len(a.v), 4) \o Flatten([i \in 1..Len(a.v) |-> ElemBytes(a.sub, a.v[i])])
                  [] OTHER -> ElemBytes(a.typ, a.v))
AllAux(r) == Flatten([i \in 1..Len(r.aux) |-> AuxBytes(r.aux[i])])
\* the record after its block_size field (the two bin bytes are given as 0 and masked in the comparison)
Body(r) == LE(r.ref, 4) \o LE(r.pos, 4) \o <<Len(r.name) + 1, r.mapq, 0, 0>> \o LE(Len(r.cigar), 2) \o LE(r.flag, 2)
           \o LE(Len(r.seq), 4) \o LE(r.mref, 4) \o LE(r.mpos, 4) \o LE(r.tlen, 4)
           \o r.name \o <<0>> \o CigarBytes(r.cigar) \o SeqBytes(r.seq) \o QualBytes(r) \o AllAux(r)
Encode(r) == LE(Len(Body(r)), 4) \o Body(r)
\* the BAM header: magic, l_text, text, n_ref, then per reference l_name, name NUL, l_ref  (section 4.2)
RefBytes(rf) == LE(Len(rf.name) + 1, 4) \o rf.name \o <<0>> \o LE(rf.len, 4)
HeaderBytes(text, hrefs) == <<66, 65, 77, 1>> \o LE(Len(text), 4) \o text \o LE(Len(hrefs), 4)
                            \o Flatten([i \in 1..Len(hrefs) |-> RefBytes(hrefs[i])])
BinBytes == {15, 16}                \* 1-based positions of the bin field in Encode(r)
SameButBin(a, b) == Len(a) = Len(b) /\ \A k \in DOMAIN a : k \in BinBytes \/ a[k] = b[k]
\* Omit modes of the BAM reader
Omitted(r, mode) == CASE mode = 0 -> r
                      [] mode = 1 -> [r EXCEPT !.aux = <<>>]
                      [] mode = 2 -> [r EXCEPT !.aux = <<>>, !.seq = <<>>, !.qual = <<>>, !.hasq = FALSE]
\* ---- SAM text (section 1.4, 1.5), as byte sequences -------------------------------------
\* (Byte sequences rather than TLA+ strings: TLC interns every intermediate string for the
\* life of the run, which makes per-character concatenation of thousands of lines unusable.)
BaseCode == <<61, 65, 67, 77, 71, 82, 83, 86, 84, 87, 89, 72, 75, 68, 66, 78>>      \* =ACMGRSVTWYHKDBN
OpCode == <<77, 73, 68, 78, 83, 72, 80, 61, 88, 66>>                                  \* MIDNSHP=XB
Star == <<42>>
RECURSIVE DecU(_)
DecU(n) == IF n < 10 THEN <<48 + n>> ELSE DecU(n \div 10) \o <<48 + (n % 10)>>
\* decimal text of an integer in [-2^31, 2^31)  (TLC integers are 32 bits: -(-2^31) does not exist)
Dec(n) == IF n >= 0 THEN DecU(n)
          ELSE IF n = -2147483647 - 1 THEN <<45, 50, 49, 52, 55, 52, 56, 51, 54, 52, 56>>
          ELSE <<45>> \o DecU(-n)
HexDigit(d) == IF d < 10 THEN 48 + d ELSE 87 + d
RECURSIVE HexU(_)
HexU(n) == IF n < 16 THEN <<HexDigit(n)>> ELSE HexU(n \div 16) \o <<HexDigit(n % 16)>>
FlagBytes(fmt, flag) == IF fmt = "dec" THEN DecU(flag) ELSE <<48, 120>> \o HexU(flag)         \* 0x..
RECURSIVE JoinR(_, _, _)
JoinR(ss, k, sep) == IF k = Len(ss) THEN ss[k] ELSE ss[k] \o <<sep>> \o JoinR(ss, k + 1, sep)
JoinB(ss, sep) == IF ss = <<>> THEN <<>> ELSE JoinR(ss, 1, sep)
CigarText(c) == IF c = <<>> THEN Star ELSE Flatten([i \in 1..Len(c) |-> DecU(c[i][2]) \o <<OpCode[c[i][1] + 1]>>])
SeqText(s) == IF s = <<>> THEN Star ELSE [i \in 1..Len(s) |-> BaseCode[s[i] + 1]]
QualText(r) == IF ~r.hasq \/ r.qual = <<>> THEN Star ELSE [i \in 1..Len(r.qual) |-> r.qual[i] + 33]
RefText(refsb, i) == IF i < 0 THEN Star ELSE refsb[i + 1]
MateText(refsb, r) == IF r.mref >= 0 /\ r.mref = r.ref THEN <<61>> ELSE RefText(refsb, r.mref)
\* aux value text.  Integers (c C s S i and arrays of them) are formatted here; the decimal text of an
\* I value (above 32 bits) and of floats is supplied (txtb), computed by the harness with strconv.
IntTypes == {"c", "C", "s", "S", "i"}
AuxValText(a) == CASE a.typ \in IntTypes -> <<105, 58>> \o Dec(a.v)
                   [] a.typ = "I" -> <<105, 58>> \o a.txtb
                   [] a.typ = "A" -> <<65, 58, a.v>>
                   [] a.typ = "f" -> <<102, 58>> \o a.txtb
                   [] a.typ = "Z" -> <<90, 58>> \o a.v
                   [] a.typ = "H" -> <<72, 58>> \o a.v
                   [] a.typ = "B" -> <<66, 58, TypeByte(a.sub)>> \o
                                     (IF a.sub \in IntTypes THEN Flatten([i \in 1..Len(a.v) |-> <<44>> \o Dec(a.v[i])]) ELSE a.txtb)
AuxText(a) == a.tag \o <<58>> \o AuxValText(a)
Line(refsb, r, flagText) ==
    JoinB(<<r.name, flagText, RefText(refsb, r.ref), Dec(r.pos + 1), DecU(r.mapq), CigarText(r.cigar), MateText(refsb, r),
            Dec(r.mpos + 1), Dec(r.tlen), SeqText(r.seq), QualText(r)>> \o [i \in 1..Len(r.aux) |-> AuxText(r.aux[i])], 9)
=============================================================================
