SPECIFICATION Spec
CONSTANTS
  LinearAsCoded = FALSE
  CheckI = FALSE
CHECK_DEADLOCK FALSE
