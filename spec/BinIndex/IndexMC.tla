------------------------------- MODULE IndexMC -------------------------------
(* Exhaustive check of IndexI against IndexP on a tiny geometry: every sorted sequence  *)
(* of up to MaxRecs records on one reference (the per-reference state is independent),   *)
(* record k occupying the file chunk [k, k+1) (optionally sharing its begin with the      *)
(* previous record's end, as consecutive BAM records do), and every query interval.       *)
EXTENDS IndexI, TLC
CONSTANTS MS, D, MaxRecs
VARIABLES st, added
vars == <<st, added>>
Range == Pow2(MS + 3 * D)
Init == st = EmptyRef /\ added = <<>>
Add == /\ Len(added) < MaxRecs /\ ~st.panicked
       /\ \E beg \in 0..(Range - 1) : \E ln \in {0, 1, 2, Pow2(MS), Pow2(MS) + 1, 3 * Pow2(MS)} :
            /\ beg + ln <= Range
            /\ (added # <<>> => added[Len(added)].beg <= beg)
            /\ LET k == Len(added) + 1
                   r == [ref |-> 0, beg |-> beg, end |-> beg + ln, cb |-> <<k, 0>>, ce |-> <<k + 1, 0>>, placed |-> TRUE, mapped |-> TRUE]
               IN /\ added' = Append(added, r)
                  /\ st' = AddRec(st, r, MS, D)
Next == Add
Spec == Init /\ [][Next]_vars
NoPanic == ~st.panicked
QueriesComplete ==
    st.panicked \/
    \A qb \in 0..(Range - 1) : \A qe \in (qb + 1)..Range :
        LET res == ChunksOf(st, qb, qe, MS, D)
        IN IF res[1] THEN Complete(added, 0, qb, qe, res[2])
           ELSE NoneOverlap(added, 0, qb, qe)                \* an error implies that nothing overlaps
=============================================================================
