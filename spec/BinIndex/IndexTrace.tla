------------------------------- MODULE IndexTrace -------------------------------
(* Trace specification for C04 and C15: recorded Add / Chunks / statistics / round trip / *)
(* MergeChunks calls on real bam.Index, csi.Index and tabix.Index are judged against      *)
(* IndexP: the state is only the list of added records.  With CheckI the answers of BAI   *)
(* and tabix are also compared with IndexI's Chunks (conformance of the model).           *)
EXTENDS IndexI, TLC, Json, IOUtils
CONSTANT CheckI
Trace == ndJsonDeserialize(IOEnv.TRACE)
VARIABLES l, rej, added, kind, ms, d, ist
vars == <<l, rej, added, kind, ms, d, ist>>
Ev == Trace[l]
IsEv(e) == l <= Len(Trace) /\ Ev.ev = e /\ l' = l + 1 /\ UNCHANGED rej
Init == l = 1 /\ rej = <<>> /\ added = <<>> /\ kind = "" /\ ms = 14 /\ d = 5 /\ ist = <<>>
Reset == IsEv("T") /\ added' = <<>> /\ kind' = Ev.kind /\ ms' = Ev.ms /\ d' = Ev.d
         /\ ist' = [i \in 1..Ev.nref |-> EmptyRef]
\* Holds(b): TLC evaluates the guard as one boolean instead of expanding its quantifiers and implications
\* branch by branch when Skip asks ~ENABLED Regular for a rejected event (exponential otherwise).
Holds(b) == b = TRUE
V(o) == <<o[1], o[2]>>
RecOf(e) == [ref |-> e.ref, beg |-> e.beg, end |-> e.end, cb |-> V(e.cb), ce |-> V(e.ce), placed |-> e.placed, mapped |-> e.mapped]
\* (the libraries apply the position bound to the exclusive end as well: the very last indexable base is not judged)
InRange(r) == r.beg >= -1 /\ r.end <= Pow2(ms + 3 * d) - 2
\* adding records in sorted order never fails or panics
Add == /\ IsEv("add")
       /\ LET r == RecOf(Ev)
              a2 == Append(added, r)
          IN /\ Holds((SortedInput(a2) /\ InRange(r)) => Ev.res = "nil")
             /\ Ev.res = "nil"                       \* the generator only produces admissible input
             /\ added' = a2
             /\ ist' = IF r.placed /\ kind # "csi" THEN [ist EXCEPT ![r.ref + 1] = AddRec(@, r, ms, d)] ELSE ist
       /\ UNCHANGED <<kind, ms, d>>
Res(e) == [i \in 1..Len(e.chunks) |-> <<V(e.chunks[i][1]), V(e.chunks[i][2])>>]
SameChunkSet(a, b) == {a[i] : i \in DOMAIN a} = {b[i] : i \in DOMAIN b}
Chunks == /\ IsEv("chunks")
          /\ Holds(IF Ev.res = "nil"
             THEN /\ Complete(added, Ev.ref, Ev.beg, Ev.end, Res(Ev))
                  /\ \A i \in 1..(Len(Ev.chunks) - 1) : LeV(V(Ev.chunks[i][1]), V(Ev.chunks[i + 1][1]))     \* sorted by begin
             ELSE \* an error implies that no added record overlaps the query; a panic is never acceptable
                  /\ Ev.res # "panic" /\ SubSeq(Ev.res, 1, 4) = "err:"
                  /\ NoneOverlap(added, Ev.ref, Ev.beg, Ev.end))
          /\ Holds(("same" \in DOMAIN Ev) => Ev.same)                   \* same answer after write + read (C15)
          /\ Holds((CheckI /\ kind # "csi" /\ Ev.phase \in {"mem", "rt"} /\ Ev.ref >= 0 /\ Ev.ref < Len(ist)
              /\ Len(ist[Ev.ref + 1].ivs) <= 64 /\ Ev.end - Ev.beg <= 64 * Pow2(ms)) =>         \* (small indexes only: the operator walks tiles one by one)
                LET m == ChunksOf(ist[Ev.ref + 1], Ev.beg, Ev.end, ms, d)
                IN IF m[1] THEN Ev.res = "nil" ELSE Ev.res # "nil")
          /\ UNCHANGED <<added, kind, ms, d, ist>>
Stats == /\ IsEv("stats") /\ Ev.res = "nil"
         /\ Ev.numrefs = NumRefs(added)
         /\ Holds(\A i \in 1..Ev.numrefs :
              LET s == Ev.refs[i]
                  P == PlacedOn(added, i - 1)
              IN IF P = {} THEN ~s[1]                                    \* no records: no statistics
                 ELSE /\ s[1] /\ s[2] = MappedCount(added, i - 1) /\ s[3] = UnmappedCount(added, i - 1)
                      /\ V(s[4]) = added[FirstOn(added, i - 1)].cb /\ V(s[5]) = added[LastOn(added, i - 1)].ce)
         /\ Holds(IF added = <<>> THEN TRUE ELSE Ev.unplacedok /\ Ev.unplaced = UnplacedCount(added))
         /\ UNCHANGED <<added, kind, ms, d, ist>>
RoundTrip == /\ IsEv("roundtrip") /\ Ev.res = "nil"
             /\ "err" \notin DOMAIN Ev
             /\ Holds(IF "empty" \in DOMAIN Ev THEN NumRefs(added) = 0
                      ELSE Ev.bytesEqual /\ (("fields" \in DOMAIN Ev) => Ev.fields))
             /\ UNCHANGED <<added, kind, ms, d, ist>>
\* iterating the returned chunks over the real BAM reaches every overlapping record (record k was added k-th)
Reach == /\ IsEv("reach") /\ Ev.res = "nil"
         /\ Holds(\A i \in DOMAIN added : Overlaps(added[i], Ev.ref, Ev.beg, Ev.end) => \E j \in DOMAIN Ev.got : Ev.got[j] = i)
         /\ UNCHANGED <<added, kind, ms, d, ist>>
Merge == IsEv("merge") /\ Ev.res = "nil" /\ UNCHANGED <<added, kind, ms, d, ist>>
Regular == Reset \/ Add \/ Chunks \/ Stats \/ RoundTrip \/ Merge \/ Reach
RECURSIVE NextHdr(_)
NextHdr(i) == IF i > Len(Trace) THEN i ELSE IF Trace[i].ev = "T" THEN i ELSE NextHdr(i + 1)
\* a rejected query or statistics event does not hide the rest of the scenario; a rejected Add does
Skip == /\ l <= Len(Trace) /\ ~ENABLED Regular
        /\ rej' = Append(rej, [sc |-> Ev.sc, line |-> l])
        /\ l' = IF Ev.ev \in {"chunks", "stats", "roundtrip", "reach"} THEN l + 1 ELSE NextHdr(l + 1)
        /\ UNCHANGED <<added, kind, ms, d, ist>>
Done == /\ l = Len(Trace) + 1
        /\ PrintT("VERIF-DONE " \o ToJson([lines |-> Len(Trace), rej |-> rej]))
        /\ l' = l + 1 /\ UNCHANGED <<rej, added, kind, ms, d, ist>>
Next == Regular \/ Skip \/ Done
Spec == Init /\ [][Next]_vars
=============================================================================
