SPECIFICATION Spec
CONSTANTS
  MS = 1
  D = 1
  MaxRecs = 3
  LinearAsCoded = FALSE
INVARIANTS NoPanic QueriesComplete
CHECK_DEADLOCK FALSE
