SPECIFICATION Spec
CONSTANTS
  MS = 0
  D = 2
  MaxRecs = 2
  LinearAsCoded = FALSE
INVARIANTS NoPanic QueriesComplete
CHECK_DEADLOCK FALSE
