------------------------------- MODULE Bins -------------------------------
(* The binning scheme of BAI / tabix (minShift 14, depth 5) and CSI (any minShift,     *)
(* depth), written from the SAM and CSI specification texts: level l (0 = the single    *)
(* root bin) has 8^l bins of width 2^(minShift + 3*(depth-l)), numbered from            *)
(* (8^l - 1)/7.  Reg2Bin is the deepest bin that contains [b, e); Reg2Bins every bin    *)
(* of every level that intersects it.                                                   *)
EXTENDS Integers, FiniteSets
Pow2(k) == 2^k
Pow8(l) == 2^(3 * l)
LevelOffset(l) == (Pow8(l) - 1) \div 7
Shift(ms, d, l) == ms + 3 * (d - l)
\* floor division also for negative positions (Go's arithmetic shift)
Cell(p, ms, d, l) == p \div Pow2(Shift(ms, d, l))
Contains(b, e, ms, d, l) == Cell(b, ms, d, l) = Cell(e - 1, ms, d, l)
Levels(d) == 0..d
Reg2Bin(b, e, ms, d) ==
    LET Ls == {l \in 1..d : Contains(b, e, ms, d, l)}
    IN IF Ls = {} THEN 0
       ELSE LET l == CHOOSE l \in Ls : \A m \in Ls : m <= l IN LevelOffset(l) + Cell(b, ms, d, l)
Reg2Bins(b, e, ms, d) ==
    UNION {{LevelOffset(l) + k : k \in Cell(b, ms, d, l)..Cell(e - 1, ms, d, l)} : l \in 0..d}
MaxPos(ms, d) == Pow2(ms + 3 * d)
Overlap(b1, e1, b2, e2) == b1 < e2 /\ b2 < e1
=============================================================================
