SPECIFICATION Spec
CONSTANTS
  MS = 1
  D = 1
  MaxRecs = 3
  LinearAsCoded = TRUE
INVARIANTS NoPanic QueriesComplete
CHECK_DEADLOCK FALSE
