------------------------------- MODULE IndexP -------------------------------
(* Property-level specification of a coordinate index (BAI, CSI, tabix): C04 and C15.   *)
(* The state is just the records that were added, with the file chunks they occupy.      *)
(* Every answer of the index is judged against that list by brute force.                 *)
EXTENDS Integers, Sequences, FiniteSets, VOff
\* a record: [ref, beg, end, cb, ce, placed, mapped]; cb/ce virtual offsets <<file, block>>
Max2(a, b) == IF a > b THEN a ELSE b
EndOf(r) == Max2(r.beg + 1, r.end)                     \* an alignment without length occupies one base
Overlaps(r, ref, beg, end) == r.placed /\ r.ref = ref /\ r.beg < end /\ beg < EndOf(r)
Covers(c, r) == LeV(c[1], r.cb) /\ LeV(r.ce, c[2])     \* c = <<begin, end>>
\* every overlapping record lies in a returned chunk
Complete(added, ref, beg, end, result) ==
    \A i \in DOMAIN added : Overlaps(added[i], ref, beg, end) => \E j \in DOMAIN result : Covers(result[j], added[i])
NoneOverlap(added, ref, beg, end) == \A i \in DOMAIN added : ~Overlaps(added[i], ref, beg, end)
\* statistics are the true counts
PlacedOn(added, ref) == {i \in DOMAIN added : added[i].placed /\ added[i].ref = ref}
MappedCount(added, ref) == Cardinality({i \in PlacedOn(added, ref) : added[i].mapped})
UnmappedCount(added, ref) == Cardinality({i \in PlacedOn(added, ref) : ~added[i].mapped})
UnplacedCount(added) == Cardinality({i \in DOMAIN added : ~added[i].placed})
NumRefs(added) == IF \E i \in DOMAIN added : added[i].placed
                  THEN 1 + (CHOOSE m \in {added[i].ref : i \in {j \in DOMAIN added : added[j].placed}} :
                                 \A i \in DOMAIN added : added[i].placed => added[i].ref <= m)
                  ELSE 0
FirstOn(added, ref) == CHOOSE i \in PlacedOn(added, ref) : \A j \in PlacedOn(added, ref) : i <= j
LastOn(added, ref) == CHOOSE i \in PlacedOn(added, ref) : \A j \in PlacedOn(added, ref) : j <= i
\* the input precondition: placed records sorted by (ref, beg)
SortedInput(added) == \A i, j \in DOMAIN added :
                          (i < j /\ added[i].placed /\ added[j].placed) =>
                              added[i].ref < added[j].ref \/ (added[i].ref = added[j].ref /\ added[i].beg <= added[j].beg)
=============================================================================
