------------------------------- MODULE IndexI -------------------------------
(* Implementation-shaped specification of internal.Index (shared by BAI and tabix): per  *)
(* reference a list of bins, each with a chunk list built by the "extend the chunk whose  *)
(* End is beyond the new Begin, else append" rule, and the linear index of tile offsets;  *)
(* Chunks() with its bin enumeration and tile pruning loop.  Geometry (ms, d): tile width *)
(* 2^ms = the finest bin width (BAI: 14, 5).  Everything is a pure operator on a          *)
(* per-reference state [bins, ivs], so that the model checker and the trace spec use the  *)
(* same text.                                                                             *)
(*   LinearAsCoded = TRUE: the pinned revision's linear-index growth (one tile short,     *)
(*   and the `panic("unexpected alignment length")` branch)                               *)
EXTENDS IndexP, Bins
CONSTANT LinearAsCoded

Zero == <<0, 0>>
EmptyRef == [bins |-> <<>>, ivs |-> <<>>, panicked |-> FALSE]
Tile(p, ms) == p \div Pow2(ms)

\* ---- Add ---------------------------------------------------------------------------
RECURSIVE ExtendIn(_, _, _, _)
\* `for j, chunk := range chunks { if chunk.End > c.Begin { chunks[j].End = c.End; found } }`
ExtendIn(chunks, j, cb, ce) ==
    IF j > Len(chunks) THEN Append(chunks, <<cb, ce>>)
    ELSE IF LtV(cb, chunks[j][2]) THEN [chunks EXCEPT ![j] = <<chunks[j][1], ce>>]
    ELSE ExtendIn(chunks, j + 1, cb, ce)
RECURSIVE AddBin(_, _, _, _, _)
AddBin(bins, i, b, cb, ce) ==
    IF i > Len(bins) THEN Append(bins, [bin |-> b, chunks |-> << <<cb, ce>> >>])
    ELSE IF bins[i].bin = b THEN [bins EXCEPT ![i].chunks = ExtendIn(bins[i].chunks, 1, cb, ce)]
    ELSE AddBin(bins, i + 1, b, cb, ce)

Grow(ivs, n) == [k \in 1..n |-> IF k <= Len(ivs) THEN ivs[k] ELSE Zero]
\* the linear index after adding a record covering tiles of [beg, end) whose chunk begins at cb
LinearFixed(ivs, beg, end, cb, ms) ==
    LET biv == Tile(beg, ms)
        e0 == Tile(Max2(end, beg + 1) - 1, ms)          \* last tile touched
        n == Len(ivs)
    IN [panic |-> FALSE,
        ivs |-> IF e0 < n THEN ivs
                ELSE [k \in 1..(e0 + 1) |-> IF k <= n THEN ivs[k]
                                            ELSE IF k - 1 >= biv THEN cb ELSE Zero]]
\* as coded: `eiv := End/TileWidth; if eiv == len { if eiv > biv { panic }; append } else if eiv > len { make(eiv) ... }`
LinearCoded(ivs, beg, end, cb, ms) ==
    LET biv == Tile(beg, ms)
        eiv == Tile(end, ms)
        n == Len(ivs)
    IN IF eiv = n THEN (IF eiv > biv THEN [panic |-> TRUE, ivs |-> ivs] ELSE [panic |-> FALSE, ivs |-> Append(ivs, cb)])
       ELSE IF eiv > n THEN [panic |-> FALSE, ivs |-> [k \in 1..eiv |-> IF k <= n THEN ivs[k]
                                               ELSE IF k - 1 >= Max2(biv, n) THEN cb ELSE Zero]]
       ELSE [panic |-> FALSE, ivs |-> ivs]
AddRec(st, r, ms, d) ==
    LET lin == IF LinearAsCoded THEN LinearCoded(st.ivs, r.beg, r.end, r.cb, ms) ELSE LinearFixed(st.ivs, r.beg, r.end, r.cb, ms)
    IN IF lin.panic THEN [st EXCEPT !.panicked = TRUE]
       ELSE [bins |-> AddBin(st.bins, 1, Reg2Bin(r.beg, Max2(r.end, r.beg + 1), ms, d), r.cb, r.ce), ivs |-> lin.ivs, panicked |-> st.panicked]

\* ---- Chunks ------------------------------------------------------------------------
\* the tile loop of Chunks for one chunk: is it kept?
RECURSIVE TileKeeps(_, _, _, _, _, _, _, _)
TileKeeps(ivs, iv, j, have, beg, end, cend, ms) ==
    IF iv + j + 1 > Len(ivs) THEN FALSE
    ELSE LET tile == ivs[iv + j + 1]
         IN IF have /\ tile = Zero THEN TileKeeps(ivs, iv, j + 1, have, beg, end, cend, ms)
            ELSE LET tbeg == (iv + j) * Pow2(ms)
                     tend == tbeg + Pow2(ms)
                 IN IF tend >= beg /\ tbeg <= end /\ LtV(tile, cend) THEN TRUE
                    ELSE TileKeeps(ivs, iv, j + 1, TRUE, beg, end, cend, ms)
\* <<ok, chunks>>: ok = FALSE is index.ErrInvalid
ChunksOf(st, beg, end, ms, d) ==
    LET iv == Tile(beg, ms)
    IN IF iv >= Len(st.ivs) THEN <<FALSE, <<>>>>
       ELSE LET want == Reg2Bins(beg, end, ms, d)
                kept(i) == SelectSeq(st.bins[i].chunks, LAMBDA c : TileKeeps(st.ivs, iv, 0, FALSE, beg, end, c[2], ms))
                RECURSIVE Collect(_)
                Collect(i) == IF i > Len(st.bins) THEN <<>>
                              ELSE (IF st.bins[i].bin \in want THEN kept(i) ELSE <<>>) \o Collect(i + 1)
            IN <<TRUE, Collect(1)>>
=============================================================================
