SPECIFICATION Spec
CONSTANTS
  LinearAsCoded = FALSE
  CheckI = TRUE
CHECK_DEADLOCK FALSE
