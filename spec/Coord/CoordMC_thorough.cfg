SPECIFICATION Spec
CONSTANT Geoms <- GeomsThorough
INVARIANTS BinInOwnList RunLemma BinRange TileLemma
CHECK_DEADLOCK FALSE
