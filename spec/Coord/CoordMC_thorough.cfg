SPECIFICATION Spec
CONSTANT Geoms <- GeomsThorough
INVARIANTS BinInOwnList RunLemma BinRange
CHECK_DEADLOCK FALSE
