------------------------------- MODULE CoordTrace -------------------------------
(* Trace specification for C16: recorded results of the real End/Len/Lengths/IsValid/Bin *)
(* and of the real bin functions (BAI's BinFor/OverlappingBinsFor, CSI's reg2bin/reg2bins)*)
(* are compared with Cigar.tla / Bins.tla.  A binrow event is the run-length encoding of   *)
(* the real bin function over a progression of end values for one begin; both ends of      *)
(* every run are compared with Reg2Bin (CoordMC!RunLemma covers the values in between).    *)
EXTENDS Cigar, TLC, Json, IOUtils
Trace == ndJsonDeserialize(IOEnv.TRACE)
VARIABLES l, rej
vars == <<l, rej>>
Ev == Trace[l]
Init == l = 1 /\ rej = <<>>
IsEv(e) == l <= Len(Trace) /\ Ev.ev = e /\ l' = l + 1 /\ UNCHANGED rej
Reset == IsEv("T")
Ops(c) == [i \in 1..Len(c) |-> <<c[i][1], c[i][2]>>]
CigarEv ==
    /\ IsEv("cigar") /\ Ev.res = "ok"
    /\ LET c == Ops(Ev.ops)
       IN /\ Ev.ref = RefLen(c) /\ Ev.read = QueryLen(c)
          /\ Ev.end = End(Ev.pos, c, Ev.unmapped)
          /\ Ev.alen = AlnLen(Ev.pos, c, Ev.unmapped)
          /\ Ev.valid = IsValid(c, Ev.seqlen)
          /\ Ev.bin = Bin(Ev.pos, c, Ev.unmapped)
RECURSIVE RunsOK(_, _, _)
RunsOK(runs, i, k) ==      \* k = index of the first end value of run i
    IF i > Len(runs) THEN TRUE
    ELSE LET n == runs[i][1]
             bin == runs[i][2]
             e1 == Ev.e0 + k * Ev.step
             e2 == Ev.e0 + (k + n - 1) * Ev.step
         IN /\ n >= 1
            /\ bin = Reg2Bin(Ev.b, e1, Ev.ms, Ev.d)
            /\ bin = Reg2Bin(Ev.b, e2, Ev.ms, Ev.d)
            /\ RunsOK(runs, i + 1, k + n)
RECURSIVE Total(_, _)
Total(runs, i) == IF i > Len(runs) THEN 0 ELSE runs[i][1] + Total(runs, i + 1)
BinRow == /\ IsEv("binrow")
          /\ Total(Ev.runs, 1) = Ev.count
          /\ (RunsOK(Ev.runs, 1, 0)) = TRUE     \* (= TRUE: evaluated as one value under ENABLED, not expanded)
BinsEv == /\ IsEv("bins")
          /\ {Ev.list[i] : i \in DOMAIN Ev.list} = Reg2Bins(Ev.b, Ev.e, Ev.ms, Ev.d)
          /\ Cardinality({Ev.list[i] : i \in DOMAIN Ev.list}) = Len(Ev.list)       \* no bin listed twice
Regular == Reset \/ CigarEv \/ BinRow \/ BinsEv
Skip == /\ l <= Len(Trace) /\ ~ENABLED Regular
        /\ rej' = Append(rej, [sc |-> Ev.sc, line |-> l]) /\ l' = l + 1   \* events are independent
Done == /\ l = Len(Trace) + 1
        /\ PrintT("VERIF-DONE " \o ToJson([lines |-> Len(Trace), rej |-> rej]))
        /\ l' = l + 1 /\ UNCHANGED rej
Next == Regular \/ Skip \/ Done
Spec == Init /\ [][Next]_vars
=============================================================================
