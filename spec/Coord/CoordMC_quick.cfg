SPECIFICATION Spec
CONSTANT Geoms <- GeomsQuick
INVARIANTS BinInOwnList OverlapComplete RunLemma BinRange
CHECK_DEADLOCK FALSE
