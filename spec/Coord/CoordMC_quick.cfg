SPECIFICATION Spec
CONSTANT Geoms <- GeomsQuick
INVARIANTS BinInOwnList OverlapComplete RunLemma BinRange TileLemma
CHECK_DEADLOCK FALSE
