SPECIFICATION Spec
CONSTANT Geoms <- GeomsOverlap
INVARIANTS OverlapComplete
CHECK_DEADLOCK FALSE
