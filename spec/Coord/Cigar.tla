------------------------------- MODULE Cigar -------------------------------
(* Coordinate arithmetic of an alignment from its position and CIGAR, from the SAM     *)
(* specification (sections 1.4 and 4.2; the B operation per the samtools-devel proposal *)
(* quoted in the library's documentation).  A CIGAR is a sequence of <<op, len>>.       *)
EXTENDS Bins, Sequences
RefOps == {"M", "D", "N", "=", "X"}
QueryOps == {"M", "I", "S", "=", "X"}
RECURSIVE SumOver(_, _, _)
SumOver(c, S, i) == IF i > Len(c) THEN 0 ELSE (IF c[i][1] \in S THEN c[i][2] ELSE 0) + SumOver(c, S, i + 1)
RefLen(c) == SumOver(c, RefOps, 1)
QueryLen(c) == SumOver(c, QueryOps, 1)
\* reference coordinate after the first i operations (B moves back)
RECURSIVE Coord(_, _, _)
Coord(pos, c, i) == IF i = 0 THEN pos
                    ELSE Coord(pos, c, i - 1) + (IF c[i][1] \in RefOps THEN c[i][2] ELSE IF c[i][1] = "B" THEN -c[i][2] ELSE 0)
Max2(a, b) == IF a > b THEN a ELSE b
RECURSIVE MaxCoord(_, _, _)
MaxCoord(pos, c, i) == IF i = 0 THEN pos ELSE Max2(Coord(pos, c, i), MaxCoord(pos, c, i - 1))
\* exclusive end of the alignment on the reference
End(pos, c, unmapped) == IF unmapped \/ c = <<>> THEN pos + 1 ELSE MaxCoord(pos, c, Len(c))
AlnLen(pos, c, unmapped) == End(pos, c, unmapped) - pos
\* validity for a sequence of the given length: query-consuming lengths add up; H only as
\* the first or last operation; S only at an end or next to such an H; B never brings a
\* query-consuming operation left of the start
IsValid(c, seqlen) ==
    /\ QueryLen(c) = seqlen
    /\ \A i \in DOMAIN c : c[i][1] = "H" => i = 1 \/ i = Len(c)
    /\ \A i \in DOMAIN c : c[i][1] = "S" =>
          \/ i = 1 \/ i = Len(c)
          \/ (i = 2 /\ c[1][1] = "H") \/ (i = Len(c) - 1 /\ c[Len(c)][1] = "H")
    /\ \A i \in DOMAIN c : c[i][1] \in QueryOps => Coord(0, c, i - 1) >= 0      \* (an operation of length 0 counts as placed there)
\* the BAM index bin: reg2bin(pos, end) with an alignment that consumes no reference (or an
\* unmapped read) taken as of length one; 4680 = reg2bin(-1, 0) for an unplaced read
Bin(pos, c, unmapped) ==
    IF pos < 0 THEN 4680
    ELSE LET e == IF unmapped \/ RefLen(c) = 0 THEN pos + 1 ELSE Max2(End(pos, c, FALSE), pos + 1)
         IN Reg2Bin(pos, e, 14, 5)
=============================================================================
