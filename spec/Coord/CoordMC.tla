------------------------------- MODULE CoordMC -------------------------------
(* Lemmas about the binning scheme, checked exhaustively for small geometries: an       *)
(* interval's bin is in the bin list of every interval it overlaps (what makes index     *)
(* queries complete), Reg2Bin(b, .) does not change between two ends that give the same  *)
(* bin (what makes the run-length evidence about the real functions exhaustive), and     *)
(* basic CIGAR facts.  One state per (geometry, b, e).                                   *)
EXTENDS Cigar, TLC
CONSTANT Geoms       \* set of <<minShift, depth>>
VARIABLES g, b, e
vars == <<g, b, e>>
Init == g \in Geoms /\ b = 0 /\ e = 1
Next == /\ UNCHANGED g
        /\ \/ (e < MaxPos(g[1], g[2]) /\ e' = e + 1 /\ UNCHANGED b)
           \/ (b + 1 < MaxPos(g[1], g[2]) /\ b' = b + 1 /\ e' = b + 2)
Spec == Init /\ [][Next]_vars
ms == g[1]
d == g[2]
BinInOwnList == Reg2Bin(b, e, ms, d) \in Reg2Bins(b, e, ms, d)
OverlapComplete == \A b2 \in 0..(MaxPos(ms, d) - 1) : \A e2 \in (b2 + 1)..MaxPos(ms, d) :
                      Overlap(b, e, b2, e2) => Reg2Bin(b, e, ms, d) \in Reg2Bins(b2, e2, ms, d)
\* between two ends with the same bin every end has that bin
RunLemma == \A e3 \in e..MaxPos(ms, d) :
              Reg2Bin(b, e, ms, d) = Reg2Bin(b, e3, ms, d) =>
                 \A e2 \in e..e3 : Reg2Bin(b, e2, ms, d) = Reg2Bin(b, e, ms, d)
BinRange == Reg2Bin(b, e, ms, d) \in 0..(LevelOffset(d + 1) - 1)
\* bins depend only on the smallest-level tiles of the first and the last base: geometry (ms, d) at
\* [b, e) is geometry (0, d) at [b div 2^ms, (e-1) div 2^ms + 1).  This is what lets the trace
\* specification judge geometries whose positions exceed TLC's 32-bit integers in tile units.
TileLemma == /\ Reg2Bin(b, e, ms, d) = Reg2Bin(b \div Pow2(ms), (e - 1) \div Pow2(ms) + 1, 0, d)
             /\ Reg2Bins(b, e, ms, d) = Reg2Bins(b \div Pow2(ms), (e - 1) \div Pow2(ms) + 1, 0, d)
GeomsQuick == {<<0, 2>>, <<1, 1>>}
GeomsThorough == {<<0, 2>>, <<1, 2>>, <<1, 1>>, <<2, 1>>, <<0, 3>>}
GeomsOverlap == {<<0, 2>>, <<1, 2>>}
ASSUME Reg2Bin(-1, 0, 14, 5) = 4680
ASSUME RefLen(<<<<"M", 10>>, <<"B", 3>>, <<"M", 11>>>>) = 21 /\ End(100, <<<<"M", 10>>, <<"B", 3>>, <<"M", 11>>>>, FALSE) = 118
=============================================================================
