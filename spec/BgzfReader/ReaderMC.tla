---- MODULE ReaderMC ----
EXTENDS ReaderI
====
