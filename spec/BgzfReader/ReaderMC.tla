---- MODULE ReaderMC ----
EXTENDS ReaderI
\* --- liveness (C09r/C03: no call hangs).  Deadlock detection finds states in which nothing can move; a cycle in
\* which the read-ahead and the decompressors keep exchanging blocks while the caller's Read or Seek never
\* returns is not a deadlock.  Fairness is per goroutine - the caller, the read-ahead loop, each inflate
\* goroutine - and says only that a goroutine that can take a step eventually takes one.
ConsumerNext == \/ StartNext \/ StartTouch \/ (\E m \in 1..N : StartSeek(m))
                \/ NGet \/ NHit \/ NMiss \/ NRecv \/ NWait \/ NKeep
                \/ YUse \/ YPeek \/ YRead \/ YWait \/ YDrain
                \/ SelWaiting("s") \/ SelWorking("s") \/ SelWWait("s") \/ SFound
                \/ SGet \/ SHit \/ SHitCtl \/ SMiss \/ SInBlock
                \/ StartClose \/ Closed
ReadAheadNext == ATake \/ ACtl \/ APeek \/ ARead \/ ASend
LiveSpec == Spec /\ WF_vars(ConsumerNext) /\ WF_vars(ReadAheadNext) /\ \A d \in Dec : WF_vars(Inflate(d))
\* every call returns, and a caller that goes on (fairness makes it) ends with the reader closed
AllCallsReturn == []<>(cpc \in {"idle", "closed", "panic"})
ReaderEnds == <>[](cpc \in {"closed", "panic"})
====
