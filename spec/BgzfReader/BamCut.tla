------------------------------- MODULE BamCut -------------------------------
(* C10 (BAM half): reading a proper prefix of a BAM stream returns only a prefix of the   *)
(* records and then an error, or a clean end only when the cut is exactly at a member     *)
(* boundary that is also a record boundary.  recs = logical ranges of the records,        *)
(* avail = logical length of the data of the members wholly present, boundary = the cut   *)
(* is at a member boundary.                                                               *)
EXTENDS Integers, Sequences, TLC, Json, IOUtils
Trace == ndJsonDeserialize(IOEnv.TRACE)
VARIABLES l, rej, recs, hdrLen, avail, boundary, count, open
vars == <<l, rej, recs, hdrLen, avail, boundary, count, open>>
Ev == Trace[l]
IsEv(e) == l <= Len(Trace) /\ Ev.ev = e /\ l' = l + 1 /\ UNCHANGED rej
Init == l = 1 /\ rej = <<>> /\ recs = <<>> /\ hdrLen = 0 /\ avail = 0 /\ boundary = FALSE /\ count = 0 /\ open = FALSE
Reset == /\ IsEv("T") /\ recs' = Ev.recs /\ hdrLen' = Ev.hdrLen /\ avail' = Ev.avail /\ boundary' = Ev.boundary
         /\ count' = 0 /\ open' = FALSE
\* NewReader needs the whole BAM header
New == /\ IsEv("bnew") /\ ~open
       /\ IF Ev.err = "nil" THEN avail >= hdrLen /\ open' = TRUE
          ELSE /\ avail < hdrLen /\ open' = FALSE
               /\ Ev.err = "EOF" => avail = 0 /\ boundary          \* an empty stream is the only clean end here
       /\ UNCHANGED <<recs, hdrLen, avail, boundary, count>>
\* only records wholly present, in order, unchanged
Rec == /\ IsEv("brec") /\ open
       /\ Ev.k = count + 1 /\ Ev.k <= Len(recs) /\ Ev.idx = Ev.k /\ Ev.same
       /\ recs[Ev.k][2] <= avail
       /\ count' = Ev.k /\ UNCHANGED <<recs, hdrLen, avail, boundary, open>>
\* the end: an error, or a clean end only at a member boundary that is a record boundary
End == /\ IsEv("bend") /\ open /\ Ev.count = count
       /\ Ev.err # "nil"
       /\ Ev.err = "EOF" => /\ boundary
                            /\ avail = (IF count = 0 THEN hdrLen ELSE recs[count][2])
       /\ open' = FALSE /\ UNCHANGED <<recs, hdrLen, avail, boundary, count>>
Regular == Reset \/ New \/ Rec \/ End
RECURSIVE NextHdr(_)
NextHdr(i) == IF i > Len(Trace) THEN i ELSE IF Trace[i].ev = "T" THEN i ELSE NextHdr(i + 1)
Skip == /\ l <= Len(Trace) /\ ~ENABLED Regular
        /\ rej' = Append(rej, [sc |-> Ev.sc, line |-> l]) /\ l' = NextHdr(l + 1)
        /\ UNCHANGED <<recs, hdrLen, avail, boundary, count, open>>
Done == /\ l = Len(Trace) + 1
        /\ PrintT("VERIF-DONE " \o ToJson([lines |-> Len(Trace), rej |-> rej]))
        /\ l' = l + 1 /\ UNCHANGED <<rej, recs, hdrLen, avail, boundary, count, open>>
Next == Regular \/ Skip \/ Done
Spec == Init /\ [][Next]_vars
=============================================================================
