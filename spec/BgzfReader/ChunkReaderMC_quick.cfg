SPECIFICATION Spec
CONSTANTS
  MaxMembers = 3
  MaxLen = 2
  MaxChunks = 2
  BufSizes = {1, 2, 3}
  AllowEmptyChunks = TRUE
  FixedEmptyChunk = TRUE
INVARIANTS OnlyChunkBytes AllAtEOF Progress
CHECK_DEADLOCK FALSE
