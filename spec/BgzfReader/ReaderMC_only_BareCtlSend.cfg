SPECIFICATION Spec
CONSTANTS
  N = 3
  RD = 2
  CAP = 2
  MaxOps = 4
  FaultAt = 0
  KeepStaleOnFail = FALSE
  PanicOnMiss = FALSE
  BareCtlSend = TRUE
  KeepFoundBlock = FALSE
  SilentSeekHit = FALSE
  EarlyReturnOnForeign = FALSE
  KeepCurAfterKeep = FALSE
  KeepOnGet = FALSE
  Foreign = {}
  RealCache = FALSE
INVARIANTS NoPanic DataIdentity ErrorsTrue NoStaleMapping CacheBounded Capacities NoLeak
CHECK_DEADLOCK TRUE
