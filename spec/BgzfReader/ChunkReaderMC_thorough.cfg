SPECIFICATION Spec
CONSTANTS
  MaxMembers = 4
  MaxLen = 3
  MaxChunks = 2
  BufSizes = {1, 2, 3, 4}
  AllowEmptyChunks = TRUE
  FixedEmptyChunk = TRUE
INVARIANTS OnlyChunkBytes AllAtEOF Progress
CHECK_DEADLOCK FALSE
