------------------------------- MODULE ReaderI -------------------------------
(* Implementation-shaped specification of bgzf/reader.go: block objects that are        *)
(* recycled, decompressors, the read head token, the channels `waiting`, `working`       *)
(* and `control`, the read-ahead goroutine, the inflate goroutines, the block cache,      *)
(* and the consumer's nextBlock / Seek / Close.  Data are identities: member i has        *)
(* base i, NextBase i+1; member N+1 does not exist (reading there fails with EOF); a      *)
(* block object records which member's header (hdr) and data it holds and which base it   *)
(* claims.  The cache is policy-free: a full cache may refuse a block or evict any block  *)
(* (this over-approximates LRU, FIFO and Random, which is sound for the safety            *)
(* properties checked here).                                                              *)
(*                                                                                        *)
(* Variant switches (constants), naming the code's behaviour before / after repairs:      *)
(*   KeepStaleOnFail  failed member read leaves the old header/data on the block          *)
(*   PanicOnMiss      nextBlock panics when the read-ahead queue lacks the wanted block   *)
(*                    (and blocks forever on an empty queue); otherwise it falls back to   *)
(*                    Seek's synchronous load of the wanted block, which restarts the      *)
(*                    read-ahead there                                                     *)
(*   BareCtlSend      Seek's "found in working" branch sends on control without draining  *)
(*   SilentSeekHit    a Seek answered from the cache does not tell the read-ahead goroutine  *)
(*                    where the reader now is                                              *)
(*   KeepFoundBlock   Seek puts the block taken from `working` into the cache before it   *)
(*                    finds that it is the wanted one and makes it the current block      *)
(*   EarlyReturnOnForeign  cacheSwap returns as soon as the cache hands it a block of      *)
(*                    another Reader (ErrContaminatedCache), without offering the current  *)
(*                    block to the cache; repaired (d7bbfb4): such a block is a miss       *)
(*   KeepCurAfterKeep nextBlock keeps, as the current block, a block it has just handed to  *)
(*                    the cache (`bg.current = nil` missing after keep): the next load       *)
(*                    decompresses into a block the cache lists (seeded change C03-B)        *)
(* Environment switches:                                                                  *)
(*   KeepOnGet        the cache's Get leaves a used block in the cache (cache.FIFO);       *)
(*                    its Put answers (nil, false) for a block it is still holding         *)
(*   Foreign          members for which the cache arrives holding a block of another       *)
(*                    Reader of the same stream (a shared or previously used cache)        *)
(*   RealCache        a full cache refuses a block that has not been used and makes room for  *)
(*                    one that has (what LRU, FIFO and Random all do); FALSE: policy-free, a   *)
(*                    full cache may refuse or evict anything                                  *)
(* A block object carries `used` (bytes were read from it): set when the caller reads,     *)
(* reset only when the object is first made or taken over from another owner - the code    *)
(* does not reset it when it recycles one of its own blocks.                               *)
EXTENDS Integers, Sequences, FiniteSets
CONSTANTS N,            \* members 1..N
          RD,           \* decompressors (1 = synchronous reader)
          CAP,          \* cache capacity (0 = no cache)
          MaxOps,       \* API operations explored per behaviour
          FaultAt,      \* member whose read fails with an I/O error (0 = none)
          KeepStaleOnFail, PanicOnMiss, BareCtlSend, KeepFoundBlock, SilentSeekHit,
          EarlyReturnOnForeign, KeepCurAfterKeep, KeepOnGet, Foreign, RealCache
ASSUME Foreign \subseteq 1..N /\ Cardinality(Foreign) <= CAP

Dec == 1..RD
NB == RD + CAP + 3                      \* block objects that may ever be allocated
NoBlk == 0
EOFm == N + 1

VARIABLES
  blk,        \* [1..NB -> [base, hdr, data]]  (0 = none)
  nalloc,     \* block objects allocated so far
  dblk, derr, dwg,        \* per decompressor: block, error, wg pending
  head,       \* read head token available
  filepos,    \* member the underlying reader is positioned at
  waiting, working, control, closedCh,
  cache,      \* set of <<key, block>>
  \* consumer
  cpc, cur, cerr, want, cdec, cbase, coff, ci, nops, cfound,
  \* read-ahead goroutine
  apc, adec, anext, aoff,
  inflating   \* set of decompressors with a running inflate goroutine
vars == <<blk, nalloc, dblk, derr, dwg, head, filepos, waiting, working, control, closedCh, cache,
          cpc, cur, cerr, want, cdec, cbase, coff, ci, nops, cfound, apc, adec, anext, aoff, inflating>>

NextBaseOf(b) == IF b = NoBlk \/ blk[b].hdr = 0 THEN -1 ELSE blk[b].hdr + 1
HasData(b) == b # NoBlk /\ blk[b].data # 0
\* cache entries <<key, block>>; block -k stands for the other Reader's block of member k
CacheKeys == {e[1] : e \in cache}
CachedFor(k) == {e[2] : e \in {x \in cache : x[1] = k}}

Init ==
  /\ blk = [b \in 1..NB |-> IF b = 1 THEN [base |-> 1, hdr |-> 1, data |-> 1, used |-> FALSE]
                                       ELSE [base |-> 0, hdr |-> 0, data |-> 0, used |-> FALSE]]
  /\ nalloc = 1
  /\ dblk = [d \in Dec |-> NoBlk] /\ derr = [d \in Dec |-> "nil"] /\ dwg = [d \in Dec |-> 0]
  /\ head = TRUE /\ filepos = 2
  /\ waiting = (IF RD > 1 THEN [i \in 1..RD |-> i] ELSE <<>>)
  /\ working = <<>> /\ control = <<>> /\ closedCh = FALSE
  /\ cache = {<<k, -k>> : k \in Foreign}
  /\ cpc = "idle" /\ cur = 1 /\ cerr = "nil" /\ want = 1 /\ cdec = 0 /\ cbase = 0 /\ coff = 0 /\ ci = 0 /\ nops = 0 /\ cfound = FALSE
  /\ apc = (IF RD > 1 THEN "take" ELSE "none") /\ adec = 0 /\ anext = 2 /\ aoff = 0
  /\ inflating = {}

\* ------------------------------------------------------------------ cache (policy-free)
\* Put(b): <<handed back, retained>> and the new cache
PutOutcomes(b) ==
  IF CAP = 0 \/ b = NoBlk \/ ~HasData(b) THEN {<<b, FALSE, cache>>}
  ELSE IF <<blk[b].base, b>> \in cache THEN {<<NoBlk, FALSE, cache>>}     \* the cache still holds b: not available for reuse
  ELSE IF blk[b].base \in CacheKeys THEN {<<b, FALSE, cache>>}
  ELSE IF Cardinality(cache) < CAP THEN {<<NoBlk, TRUE, cache \cup {<<blk[b].base, b>>}>>}
  ELSE IF RealCache /\ ~blk[b].used THEN {<<b, FALSE, cache>>}
  ELSE (IF RealCache THEN {} ELSE {<<b, FALSE, cache>>}) \cup {<<e[2], TRUE, (cache \ {e}) \cup {<<blk[b].base, b>>}>> : e \in cache}

\* ------------------------------------------------------------------ nextBlockAt, shared
\* step 1: `for { exists, next := cacheHasBlockFor(off); if !exists { break }; off = next }`
\* one Peek per step; returns the new offset or "done"
PeekStep(off) == IF CAP > 0 /\ off \in CacheKeys
                 THEN LET b == CHOOSE b \in CachedFor(off) : TRUE
                      IN [done |-> FALSE, off |-> IF b < 0 THEN 1 - b ELSE NextBaseOf(b)]
                 ELSE [done |-> TRUE, off |-> off]
\* step 2 (holding the head): lazyBlock, seek if needed, setBase, readMember; the effect on
\* the decompressor d reading member off with block b (NoBlk = allocate)
\* block objects something still points to; lazyBlock takes an unreferenced one (a new allocation)
Referenced == {cur} \cup {dblk[d] : d \in Dec} \cup {e[2] : e \in cache}
              \cup (IF cpc \in {"n.hit", "s.hit"} THEN {cdec} ELSE {})
FreshBlk == CHOOSE b \in 1..NB : b \notin Referenced
ReadMember(d, off) ==
  LET b == IF dblk[d] = NoBlk THEN FreshBlk ELSE dblk[d]
      ok == off \in 1..N /\ off # FaultAt
      e == IF off = FaultAt THEN "other" ELSE "EOF"
  IN /\ head
     /\ nalloc' = IF dblk[d] = NoBlk THEN nalloc + 1 ELSE nalloc
     /\ dblk' = [dblk EXCEPT ![d] = b]
     /\ IF ok
        THEN /\ blk' = [blk EXCEPT ![b] = [base |-> off, hdr |-> off, data |-> 0,
                                              used |-> IF dblk[d] = NoBlk THEN FALSE ELSE blk[b].used]]
             /\ filepos' = off + 1
             /\ derr' = [derr EXCEPT ![d] = "nil"]
             /\ dwg' = [dwg EXCEPT ![d] = 1]
             /\ inflating' = inflating \cup {d}
        ELSE /\ blk' = [blk EXCEPT ![b] = IF KeepStaleOnFail THEN [@ EXCEPT !.base = off]
                                          ELSE [base |-> off, hdr |-> 0, data |-> 0, used |-> FALSE]]
             /\ filepos' = IF off > N THEN EOFm ELSE off
             /\ derr' = [derr EXCEPT ![d] = e]
             /\ dwg' = [dwg EXCEPT ![d] = 0]
             /\ UNCHANGED inflating
     /\ UNCHANGED head

Inflate(d) == /\ d \in inflating
              /\ inflating' = inflating \ {d}
              /\ blk' = [blk EXCEPT ![dblk[d]].data = blk[dblk[d]].hdr]
              /\ dwg' = [dwg EXCEPT ![d] = 0]
              /\ UNCHANGED <<nalloc, dblk, derr, head, filepos, waiting, working, control, closedCh, cache,
                             cpc, cur, cerr, want, cdec, cbase, coff, ci, nops, cfound, apc, adec, anext, aoff>>

\* ------------------------------------------------------------------ read-ahead goroutine
aVars == <<apc, adec, anext, aoff>>
cVars == <<cpc, cur, cerr, want, cdec, cbase, coff, ci, nops, cfound>>
ATake == /\ apc = "take"
         /\ IF waiting # <<>> THEN /\ adec' = Head(waiting) /\ waiting' = Tail(waiting) /\ apc' = "ctl"
                                   /\ UNCHANGED <<anext, aoff>>
            ELSE /\ closedCh /\ apc' = "exited" /\ UNCHANGED <<adec, anext, aoff, waiting>>
         /\ UNCHANGED <<blk, nalloc, dblk, derr, dwg, head, filepos, working, control, closedCh, cache, inflating>> /\ UNCHANGED cVars
\* `if next < 0 { next, open = <-control } else { select { case next, open = <-control: default: } }`
ACtl == /\ apc = "ctl"
        /\ IF control # <<>>
           THEN /\ anext' = Head(control) /\ control' = Tail(control) /\ apc' = "peek" /\ aoff' = Head(control)
           ELSE IF closedCh THEN /\ apc' = "exited" /\ UNCHANGED <<anext, aoff, control>>
           ELSE /\ anext >= 0 /\ apc' = "peek" /\ aoff' = anext /\ UNCHANGED <<anext, control>>
        /\ UNCHANGED <<blk, nalloc, dblk, derr, dwg, head, filepos, waiting, working, closedCh, cache, inflating, adec>> /\ UNCHANGED cVars
APeek == /\ apc = "peek"
         /\ LET r == PeekStep(aoff) IN /\ aoff' = r.off /\ apc' = IF r.done THEN "read" ELSE "peek"
         /\ UNCHANGED <<blk, nalloc, dblk, derr, dwg, head, filepos, waiting, working, control, closedCh, cache, inflating, adec, anext>> /\ UNCHANGED cVars
ARead == /\ apc = "read"
         /\ ReadMember(adec, aoff)
         /\ apc' = "send"
         /\ UNCHANGED <<waiting, working, control, closedCh, cache, adec, anext, aoff>> /\ UNCHANGED cVars
\* `next = dec.blk.NextBase(); bg.working <- dec`
ASend == /\ apc = "send" /\ Len(working) < RD
         /\ anext' = NextBaseOf(dblk[adec])
         /\ working' = Append(working, adec) /\ apc' = "take"
         /\ UNCHANGED <<blk, nalloc, dblk, derr, dwg, head, filepos, waiting, control, closedCh, cache, inflating, adec, aoff>> /\ UNCHANGED cVars

\* ------------------------------------------------------------------ consumer
sVars == <<blk, nalloc, dblk, derr, dwg, head, filepos, inflating>>
chVars == <<waiting, working, control, closedCh>>

\* API: advance to the next member (a Read crossing the end of the current block)
StartNext == /\ cpc = "idle" /\ nops < MaxOps /\ cerr = "nil" /\ cur # NoBlk
             /\ nops' = nops + 1 /\ want' = want + 1
             /\ cbase' = NextBaseOf(cur) /\ cpc' = "n.get"
             /\ blk' = [blk EXCEPT ![cur].used = TRUE]          \* the caller has read the block to its end
             /\ UNCHANGED <<cur, cerr, cdec, coff, ci, cfound>> /\ UNCHANGED <<nalloc, dblk, derr, dwg, head, filepos, inflating>>
             /\ UNCHANGED chVars /\ UNCHANGED cache /\ UNCHANGED aVars
\* API: a Read that stays inside the current block (it only matters to a cache that treats used blocks differently)
StartTouch == /\ KeepOnGet /\ cpc = "idle" /\ nops < MaxOps /\ cerr = "nil" /\ cur # NoBlk /\ ~blk[cur].used
              /\ nops' = nops + 1 /\ blk' = [blk EXCEPT ![cur].used = TRUE]
              /\ UNCHANGED <<cpc, cur, cerr, want, cdec, cbase, coff, ci, cfound>> /\ UNCHANGED <<nalloc, dblk, derr, dwg, head, filepos, inflating>>
              /\ UNCHANGED chVars /\ UNCHANGED cache /\ UNCHANGED aVars
\* API: Seek(m, 0)
StartSeek(m) == /\ cpc = "idle" /\ nops < MaxOps
                /\ nops' = nops + 1 /\ want' = m /\ cbase' = m
                /\ IF cur # NoBlk /\ blk[cur].base = m /\ HasData(cur)
                   THEN cpc' = "s.inblock"
                   ELSE cpc' = "s.get"
                /\ UNCHANGED <<cur, cerr, cdec, coff, ci, cfound>> /\ UNCHANGED sVars /\ UNCHANGED chVars /\ UNCHANGED cache /\ UNCHANGED aVars

\* cacheSwap(base): Get, then Put of the current block (two separate atomic cache operations)
SwapGet(pcGet, pcHit, pcMiss, pcSkip) ==
    /\ cpc = pcGet
    /\ IF CAP > 0 /\ cbase \in CacheKeys
       THEN LET b == CHOOSE b \in CachedFor(cbase) : TRUE
                stays == KeepOnGet /\ (IF b < 0 THEN TRUE ELSE blk[b].used)
            IN /\ cache' = IF stays THEN cache ELSE {e \in cache : e[1] # cbase}
               /\ IF b < 0 \/ ~HasData(b)
                  THEN \* a block of another Reader (ErrContaminatedCache), or one that cannot be rewound (it holds nothing)
                       /\ cpc' = IF EarlyReturnOnForeign THEN pcSkip ELSE pcMiss
                       /\ UNCHANGED cdec
                  ELSE /\ cdec' = b            \* remembered in cdec until the Put is done
                       /\ cpc' = pcHit
       ELSE /\ cpc' = pcMiss /\ UNCHANGED <<cache, cdec>>
    /\ UNCHANGED <<cur, cerr, want, cbase, coff, ci, nops, cfound>> /\ UNCHANGED sVars /\ UNCHANGED chVars /\ UNCHANGED aVars
\* hit: `bg.cachePut(bg.current); bg.current = blk`
SwapPutHit(pcHit, pcDone) ==
    /\ cpc = pcHit
    /\ \E o \in PutOutcomes(cur) : cache' = o[3]
    /\ cur' = cdec /\ cdec' = 0 /\ cerr' = "nil" /\ cpc' = pcDone
    /\ UNCHANGED <<want, cbase, coff, ci, nops, cfound>> /\ UNCHANGED sVars /\ UNCHANGED chVars /\ UNCHANGED aVars
\* miss: `bg.current, retained = bg.cachePut(bg.current); if retained { bg.current = nil }`
SwapPutMiss(pcMiss, pcNext) ==
    /\ cpc = pcMiss
    /\ \E o \in PutOutcomes(cur) : /\ cache' = o[3]
                                   /\ cur' = IF o[2] THEN NoBlk ELSE o[1]
    /\ cpc' = pcNext
    /\ UNCHANGED <<cerr, want, cdec, cbase, coff, ci, nops, cfound>> /\ UNCHANGED sVars /\ UNCHANGED chVars /\ UNCHANGED aVars

\* --- nextBlock
NGet == SwapGet("n.get", "n.hit", "n.miss", IF RD = 1 THEN "y.use" ELSE "n.recv")
NHit == SwapPutHit("n.hit", "idle")
NMiss == SwapPutMiss("n.miss", IF RD = 1 THEN "y.use" ELSE "n.recv")
\* rd > 1: `for i := 0; i < cap(working); i++ { dec := <-working; cur, err = dec.wait(); waiting <- dec; ... }`
NRecv == /\ cpc = "n.recv"
         /\ IF ci >= RD
            THEN /\ cpc' = IF PanicOnMiss THEN "panic" ELSE "s.select"
                 /\ ci' = 0 /\ UNCHANGED <<working, cdec>>
            ELSE /\ working # <<>>
                 /\ cdec' = Head(working) /\ working' = Tail(working) /\ cpc' = "n.wait" /\ UNCHANGED ci
         /\ UNCHANGED <<cur, cerr, want, cbase, coff, nops, cfound, waiting, control, closedCh, cache>> /\ UNCHANGED sVars /\ UNCHANGED aVars
\* `bg.current, err = dec.wait(); bg.waiting <- dec`, then the comparison with the wanted base
NWait == /\ cpc = "n.wait" /\ dwg[cdec] = 0
         /\ LET b == dblk[cdec]
                e == derr[cdec]
            IN /\ dblk' = [dblk EXCEPT ![cdec] = NoBlk]
               /\ waiting' = Append(waiting, cdec)
               /\ cur' = b
               /\ IF blk[b].base = cbase
                  THEN /\ cerr' = e /\ cpc' = "idle" /\ ci' = 0
                  ELSE IF e = "nil"
                  THEN /\ cpc' = "n.keep" /\ UNCHANGED <<cerr, ci>>
                  ELSE \* a failed block that is not the wanted one
                       /\ UNCHANGED cerr
                       /\ IF PanicOnMiss THEN ci' = ci + 1 /\ cpc' = "n.recv"
                          ELSE ci' = 0 /\ cpc' = "s.select"
         /\ cdec' = 0
         /\ UNCHANGED <<blk, nalloc, derr, dwg, head, filepos, inflating, working, control, closedCh, cache, want, cbase, coff, nops, cfound>> /\ UNCHANGED aVars
\* `bg.keep(bg.current); bg.current = nil` (a separate step: the decompressor has been handed back already)
NKeep == /\ cpc = "n.keep"
         /\ \E o \in PutOutcomes(cur) : cache' = o[3]
         /\ cur' = (IF KeepCurAfterKeep THEN cur ELSE NoBlk) /\ ci' = ci + 1 /\ cpc' = "n.recv"
         /\ UNCHANGED <<cerr, want, cdec, cbase, coff, nops, cfound>> /\ UNCHANGED sVars /\ UNCHANGED chVars /\ UNCHANGED aVars

\* Until fix 2bc52f5 the synchronous (demand) load also skipped members the cache reports, like the
\* read-ahead does (SyncSkips = TRUE: the as-coded behaviour; harmless in this model, whose cache never
\* holds a block the reader cannot use - on the real code a cache holding another Reader's blocks made
\* the demand load skip the requested member).  The repaired code loads the requested member.
SyncSkips == FALSE
\* --- synchronous load of member cbase by decompressor YDec into the consumer's block:
\* `dec.using(bg.current).nextBlockAt(base, rs).wait()`
YDec == IF RD = 1 THEN 1 ELSE cdec
YUse == /\ cpc = "y.use"
        /\ dblk' = [dblk EXCEPT ![YDec] = cur] /\ coff' = cbase /\ cpc' = IF SyncSkips THEN "y.peek" ELSE "y.read"
        /\ UNCHANGED <<blk, nalloc, derr, dwg, head, filepos, inflating, cache, cur, cerr, want, cdec, cbase, ci, nops, cfound>>
        /\ UNCHANGED chVars /\ UNCHANGED aVars
YPeek == /\ cpc = "y.peek"
         /\ LET r == PeekStep(coff) IN coff' = r.off /\ cpc' = IF r.done THEN "y.read" ELSE "y.peek"
         /\ UNCHANGED <<cur, cerr, want, cdec, cbase, ci, nops, cfound, cache>> /\ UNCHANGED sVars /\ UNCHANGED chVars /\ UNCHANGED aVars
YRead == /\ cpc = "y.read"
         /\ ReadMember(YDec, coff)
         /\ cpc' = "y.wait"
         /\ UNCHANGED <<cur, cerr, want, cdec, cbase, coff, ci, nops, cfound, cache>> /\ UNCHANGED chVars /\ UNCHANGED aVars
\* wait(): `d.wg.Wait(); blk := d.blk; d.blk = nil; return blk, d.err`
YWait == /\ cpc = "y.wait" /\ dwg[YDec] = 0
         /\ cur' = dblk[YDec] /\ cerr' = derr[YDec]
         /\ dblk' = [dblk EXCEPT ![YDec] = NoBlk]
         /\ cpc' = IF RD = 1 THEN "idle" ELSE "y.drain"
         /\ UNCHANGED <<blk, nalloc, derr, dwg, head, filepos, inflating, cache, want, cdec, cbase, coff, ci, nops, cfound>>
         /\ UNCHANGED chVars /\ UNCHANGED aVars
\* rd > 1: `select { case <-control: default: }; control <- current.NextBase(); waiting <- dec`
YDrain == /\ cpc = "y.drain"
          /\ control' = <<NextBaseOf(cur)>>          \* drained, then sent: never blocks (the consumer is the only sender)
          /\ waiting' = Append(waiting, cdec) /\ cdec' = 0 /\ cpc' = "idle"
          /\ UNCHANGED <<working, closedCh, cache, cur, cerr, want, cbase, coff, ci, nops, cfound>> /\ UNCHANGED sVars /\ UNCHANGED aVars

\* --- obtaining a decompressor for a synchronous load (Seek, and the restart in nextBlock):
\* `select { case dec = <-waiting: case dec = <-working: blk, err := dec.wait(); if err == nil { keep(blk); ... } }`
\* pcs: X.select, X.wwait  (X = "s" for Seek, "r" for the restart)
SelWaiting(X) == /\ cpc = X \o ".select" /\ waiting # <<>>
                 /\ cdec' = Head(waiting) /\ waiting' = Tail(waiting) /\ cpc' = "y.use"
                 /\ UNCHANGED <<working, control, closedCh, cache, cur, cerr, want, cbase, coff, ci, nops, cfound>>
                 /\ UNCHANGED sVars /\ UNCHANGED aVars
SelWorking(X) == /\ cpc = X \o ".select" /\ working # <<>>
                 /\ cdec' = Head(working) /\ working' = Tail(working) /\ cpc' = X \o ".wwait"
                 /\ UNCHANGED <<waiting, control, closedCh, cache, cur, cerr, want, cbase, coff, ci, nops, cfound>>
                 /\ UNCHANGED sVars /\ UNCHANGED aVars
\* the stale (or wanted) result of the decompressor taken from `working`
SelWWait(X) ==
    /\ cpc = X \o ".wwait" /\ dwg[cdec] = 0
    /\ LET b == dblk[cdec]
           e == derr[cdec]
       IN /\ dblk' = [dblk EXCEPT ![cdec] = NoBlk]
          /\ IF e = "nil"
             THEN IF X = "s" /\ blk[b].base = cbase
                  THEN \* "This decompressor had the block we wanted."
                       /\ cur' = b /\ cerr' = "nil" /\ cpc' = "s.found"
                       /\ IF KeepFoundBlock THEN \E o \in PutOutcomes(b) : cache' = o[3] ELSE UNCHANGED cache
                  ELSE /\ \E o \in PutOutcomes(b) : cache' = o[3]            \* keep(blk)
                       /\ cpc' = "y.use" /\ UNCHANGED <<cur, cerr>>
             ELSE /\ cpc' = "y.use" /\ UNCHANGED <<cache, cur, cerr>>
    /\ UNCHANGED <<blk, nalloc, derr, dwg, head, filepos, inflating, want, cdec, cbase, coff, ci, nops, cfound>>
    /\ UNCHANGED chVars /\ UNCHANGED aVars
\* `bg.control <- bg.current.NextBase(); bg.waiting <- dec`
SFound == /\ cpc = "s.found"
          /\ IF BareCtlSend THEN /\ control = <<>> /\ control' = <<NextBaseOf(cur)>>     \* blocks while a message is pending
             ELSE control' = <<NextBaseOf(cur)>>
          /\ waiting' = Append(waiting, cdec) /\ cdec' = 0 /\ cpc' = "s.inblock"
          /\ UNCHANGED <<working, closedCh, cache, cur, cerr, want, cbase, coff, ci, nops, cfound>> /\ UNCHANGED sVars /\ UNCHANGED aVars

\* --- Seek
SGet == SwapGet("s.get", "s.hit", "s.miss", IF RD = 1 THEN "y.use" ELSE "s.select")
SHit == SwapPutHit("s.hit", IF RD = 1 \/ SilentSeekHit THEN "s.inblock" ELSE "s.hitctl")
\* repaired: `select { case <-control: default: }; control <- current.NextBase()`
SHitCtl == /\ cpc = "s.hitctl"
           /\ control' = <<NextBaseOf(cur)>> /\ cpc' = "s.inblock"
           /\ UNCHANGED <<waiting, working, closedCh, cache, cur, cerr, want, cdec, cbase, coff, ci, nops, cfound>> /\ UNCHANGED sVars /\ UNCHANGED aVars
SMiss == SwapPutMiss("s.miss", IF RD = 1 THEN "y.use" ELSE "s.select")
\* `bg.err = bg.current.seek(off.Block)` (after a failed load Seek has already returned the error)
SInBlock == /\ cpc = "s.inblock" /\ cpc' = "idle" /\ cerr' = "nil"
            /\ UNCHANGED <<cur, want, cdec, cbase, coff, ci, nops, cfound, cache>> /\ UNCHANGED sVars /\ UNCHANGED chVars /\ UNCHANGED aVars

\* --- Close: `close(control); close(waiting); <-done`
StartClose == /\ cpc = "idle" /\ nops >= 1 /\ ~closedCh
              /\ closedCh' = TRUE /\ cpc' = "closing"
              /\ UNCHANGED <<waiting, working, control, cache, cur, cerr, want, cdec, cbase, coff, ci, nops, cfound>>
              /\ UNCHANGED sVars /\ UNCHANGED aVars
Closed == /\ cpc = "closing" /\ apc \in {"exited", "none"} /\ cpc' = "closed"
          /\ UNCHANGED <<cur, cerr, want, cdec, cbase, coff, ci, nops, cfound, cache>> /\ UNCHANGED sVars /\ UNCHANGED chVars /\ UNCHANGED aVars

Terminated == cpc \in {"closed", "panic"} /\ UNCHANGED vars

Next == \/ ATake \/ ACtl \/ APeek \/ ARead \/ ASend
        \/ (\E d \in Dec : Inflate(d))
        \/ StartNext \/ StartTouch \/ (\E m \in 1..N : StartSeek(m))
        \/ NGet \/ NHit \/ NMiss \/ NRecv \/ NWait \/ NKeep
        \/ YUse \/ YPeek \/ YRead \/ YWait \/ YDrain
        \/ SelWaiting("s") \/ SelWorking("s") \/ SelWWait("s") \/ SFound
        \/ SGet \/ SHit \/ SHitCtl \/ SMiss \/ SInBlock
        \/ StartClose \/ Closed \/ Terminated
Spec == Init /\ [][Next]_vars

\* ------------------------------------------------------------------ properties
NoPanic == cpc # "panic"
\* what the caller reads next is the member its history implies (ReaderP's data rule)
DataIdentity == (cpc = "idle" /\ cerr = "nil") =>
                   /\ cur # NoBlk /\ want <= N
                   /\ blk[cur].base = want /\ blk[cur].data = want /\ blk[cur].hdr = want
\* no clean end before the true end; I/O errors only where injected
ErrorsTrue == (cpc = "idle" /\ cerr = "EOF" => want = EOFm) /\ (cpc = "idle" /\ cerr = "other" => FaultAt # 0)
\* the cache never maps a base to a block that holds another member
NoStaleMapping == \A e \in cache : e[2] > 0 => blk[e[2]].base = e[1] /\ blk[e[2]].data = e[1] /\ blk[e[2]].hdr = e[1]
CacheBounded == Cardinality(cache) <= CAP
Capacities == Len(waiting) <= RD /\ Len(working) <= RD /\ Len(control) <= 1
\* after Close nothing of the library is running
\* (an inflate goroutine still running when Close returns ends by itself: it never blocks)
NoLeak == cpc = "closed" => apc \in {"exited", "none"}
=============================================================================
