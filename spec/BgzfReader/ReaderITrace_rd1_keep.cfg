SPECIFICATION TSpec
CONSTANTS
  N = 3
  RD = 1
  CAP = 2
  MaxOps = 12
  FaultAt = 0
  KeepStaleOnFail = FALSE
  PanicOnMiss = FALSE
  BareCtlSend = FALSE
  KeepFoundBlock = FALSE
  SilentSeekHit = FALSE
  EarlyReturnOnForeign = FALSE
  KeepCurAfterKeep = FALSE
  KeepOnGet = TRUE
  Foreign = {}
  RealCache = FALSE
CONSTRAINT HWM
POSTCONDITION PostHWM
CHECK_DEADLOCK FALSE
