SPECIFICATION SSpec
CONSTANTS
  N = 4
  RD = 2
  CAP = 2
  MaxOps = 5
  FaultAt = 0
  KeepStaleOnFail = FALSE
  PanicOnMiss = FALSE
  BareCtlSend = FALSE
  KeepFoundBlock = FALSE
  SilentSeekHit = FALSE
  EarlyReturnOnForeign = FALSE
  KeepCurAfterKeep = FALSE
  KeepOnGet = FALSE
  Foreign = {}
  RealCache = TRUE
CHECK_DEADLOCK FALSE
