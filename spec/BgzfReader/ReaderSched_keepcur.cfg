SPECIFICATION DSpec
CONSTANTS
  N = 4
  RD = 2
  CAP = 4
  MaxOps = 4
  FaultAt = 0
  KeepStaleOnFail = FALSE
  PanicOnMiss = FALSE
  BareCtlSend = FALSE
  KeepFoundBlock = FALSE
  SilentSeekHit = FALSE
  EarlyReturnOnForeign = FALSE
  KeepCurAfterKeep = TRUE
  KeepOnGet = FALSE
  Foreign = {}
  RealCache = TRUE
INVARIANT StopAtBad
VIEW SView
CHECK_DEADLOCK FALSE
