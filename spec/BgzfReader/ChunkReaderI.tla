------------------------------- MODULE ChunkReaderI -------------------------------
(* bgzf/index.ChunkReader.Read transcribed step for step (the `want`/`cursor` clamp,   *)
(* the zero End.Block special case, the progress test, the seek to the next chunk)      *)
(* over a deterministic model of bgzf.Reader in Blocked mode (current member, offset,   *)
(* LastChunk, BlockLen).  A file is a sequence of member payload lengths; the data is    *)
(* the sequence of logical positions.  TLC enumerates every file, every ordered list of  *)
(* non-overlapping chunks with boundaries in either spelling ((m, len) or (m+1, 0)) and  *)
(* every buffer size, and checks the property: the bytes returned are exactly            *)
(* Flat[Logical(Begin), Logical(End)) of each chunk, concatenated, then io.EOF.          *)
EXTENDS Integers, Sequences, FiniteSets
CONSTANTS MaxMembers, MaxLen, MaxChunks, BufSizes,
          AllowEmptyChunks,  \* chunks that cover no byte
          FixedEmptyChunk    \* FALSE: io.EOF at the first chunk that holds nothing more (pinned revision)

VARIABLES lens,       \* member payload lengths
          chunks,     \* remaining chunks: sequence of <<<<m,b>>, <<m,b>>>> (member index, offset)
          all,        \* the chunk list given at the start
          buf,        \* buffer size of this run
          cur, co,    \* reader: current member, offset in it
          lastB, lastE,   \* reader: LastChunk
          rerr,       \* reader's sticky error
          out,        \* logical positions returned so far
          done,       \* ChunkReader returned io.EOF
          zeros       \* consecutive (0, nil) replies
vars == <<lens, chunks, all, buf, cur, co, lastB, lastE, rerr, out, done, zeros>>

N == Len(lens)
RECURSIVE Prefix(_)
Prefix(i) == IF i <= 1 THEN 0 ELSE Prefix(i - 1) + lens[i - 1]
Logical(o) == Prefix(o[1]) + o[2]
LtV(a, b) == a[1] < b[1] \/ (a[1] = b[1] /\ a[2] < b[2])
GeV(a, b) == ~LtV(a, b)
Min(a, b) == IF a < b THEN a ELSE b

Offsets(ls) == {<<m, b>> : m \in 1..Len(ls), b \in 0..MaxLen} \cap {o \in (1..Len(ls)) \X (0..MaxLen) : o[2] <= ls[o[1]]}
LensSet == UNION {[1..n -> 0..MaxLen] : n \in 1..MaxMembers}
\* ordered, non-overlapping (logically), each Begin <= End in virtual-offset order
ChunkLists(ls) ==
    LET Os == Offsets(ls)
        Cs == {c \in Os \X Os : ~LtV(c[2], c[1]) /\ (IF AllowEmptyChunks THEN Logical(c[1]) <= Logical(c[2]) ELSE Logical(c[1]) < Logical(c[2]))}
        Ok2(a, b) == Logical(a[2]) <= Logical(b[1]) /\ ~LtV(b[1], a[2])
    IN {<<>>} \cup {<<c>> : c \in Cs}
       \cup (IF MaxChunks >= 2 THEN {<<a, b>> : a \in Cs, b \in Cs} \cap {s \in Seq(Cs) : Len(s) = 2 /\ Ok2(s[1], s[2])} ELSE {})

\* ---- the reader in Blocked mode ----------------------------------------------------
RSeek(o) == /\ cur' = o[1] /\ co' = o[2] /\ lastB' = o /\ lastE' = o /\ rerr' = "nil"
\* first member at or after (m, o) with unread data; N+1 if none
RECURSIVE Skip(_, _)
Skip(m, o) == IF m > N THEN N + 1 ELSE IF lens[m] - o > 0 THEN m ELSE Skip(m + 1, 0)
\* Read(n): <<k, err, cur', co', lastB', lastE', rerr'>>
RRead(n) ==
    IF rerr # "nil" THEN <<0, rerr, cur, co, lastB, lastE, rerr>>
    ELSE LET s == Skip(cur, co)
             so == IF s = cur THEN co ELSE 0
         IN IF s > N THEN <<0, "EOF", N + 1, 0, lastB, lastE, "EOF">>
            ELSE LET k == Min(n, lens[s] - so)
                 IN <<k, IF k < n THEN "EOF" ELSE "nil", s, so + k, <<s, so>>, <<s, so + k>>, "nil">>
BlockLen == IF cur > N THEN 0 ELSE lens[cur] - co

\* ---- Init: NewChunkReader seeks to the first chunk's Begin ---------------------------
Init == /\ lens \in LensSet
        /\ all \in ChunkLists(lens) /\ chunks = all
        /\ buf \in BufSizes
        /\ IF all # <<>> THEN /\ cur = all[1][1][1] /\ co = all[1][1][2] /\ lastB = all[1][1] /\ lastE = all[1][1]
           ELSE /\ cur = 1 /\ co = 0 /\ lastB = <<1, 0>> /\ lastE = <<1, 0>>
        /\ rerr = "nil" /\ out = <<>> /\ done = FALSE /\ zeros = 0

\* ---- ChunkReader.Read(p) with len(p) = buf ---------------------------------------------
Read ==
    /\ ~done
    /\ UNCHANGED <<lens, all, buf>>
    /\ IF chunks = <<>> THEN done' = TRUE /\ UNCHANGED <<chunks, cur, co, lastB, lastE, rerr, out, zeros>>
       ELSE IF GeV(lastE, chunks[1][2])
       THEN \* `for vOffset(last.End) >= vOffset(chunks[0].End) { next chunk or io.EOF; Seek(Begin) }` (one iteration per step)
            IF FixedEmptyChunk
            THEN /\ chunks' = Tail(chunks) /\ UNCHANGED <<out, zeros>>
                 /\ IF Tail(chunks) = <<>> THEN done' = TRUE /\ UNCHANGED <<cur, co, lastB, lastE, rerr>>
                    ELSE done' = FALSE /\ RSeek(chunks[2][1])
            ELSE done' = TRUE /\ UNCHANGED <<chunks, cur, co, lastB, lastE, rerr, out, zeros>>     \* as coded before 
       ELSE LET endc == chunks[1][2]
                want == IF endc[2] = 0 /\ endc[1] > lastE[1] THEN BlockLen ELSE endc[2]
                cursor == IF lastE[1] = endc[1] THEN lastE[2] ELSE 0
                ask == Min(buf, want - cursor)
                r == RRead(IF ask < 0 THEN 0 ELSE ask)
                k == r[1]
                newout == out \o [i \in 1..k |-> Logical(r[5]) + i - 1]
            IN IF ask < 0
               THEN \* p[:negative] panics
                    /\ done' = TRUE /\ out' = Append(out, -1) /\ UNCHANGED <<chunks, cur, co, lastB, lastE, rerr, zeros>>
               ELSE IF r[2] # "nil"
               THEN \* `if n != 0 && err == io.EOF { err = nil }; return n, err`
                    /\ out' = newout /\ cur' = r[3] /\ co' = r[4] /\ lastB' = r[5] /\ lastE' = r[6] /\ rerr' = r[7]
                    /\ done' = (k = 0) /\ UNCHANGED chunks
                    /\ zeros' = IF k = 0 THEN zeros + 1 ELSE 0
               ELSE \* progress test and chunk end test
                    LET thisB == r[5]
                        thisE == r[6]
                        finished == (buf # 0 /\ thisB = lastB /\ thisE = lastE) \/ GeV(thisE, endc)
                    IN /\ out' = newout
                       /\ zeros' = IF k = 0 THEN zeros + 1 ELSE 0
                       /\ IF finished
                          THEN /\ chunks' = Tail(chunks)
                               /\ IF Tail(chunks) = <<>>
                                  THEN /\ done' = TRUE /\ cur' = r[3] /\ co' = r[4] /\ lastB' = thisB /\ lastE' = thisE /\ rerr' = r[7]
                                  ELSE /\ done' = FALSE /\ RSeek(chunks[2][1])
                          ELSE /\ UNCHANGED chunks /\ done' = FALSE
                               /\ cur' = r[3] /\ co' = r[4] /\ lastB' = thisB /\ lastE' = thisE /\ rerr' = r[7]
Next == Read \/ (done /\ UNCHANGED vars)
Spec == Init /\ [][Next]_vars

\* ---- the property ---------------------------------------------------------------------
RECURSIVE Expected(_)
Expected(cs) == IF cs = <<>> THEN <<>>
                ELSE [i \in 1..(Logical(cs[1][2]) - Logical(cs[1][1])) |-> Logical(cs[1][1]) + i - 1] \o Expected(Tail(cs))
IsPrefixOf(a, b) == Len(a) <= Len(b) /\ \A i \in 1..Len(a) : a[i] = b[i]
\* only the chunks' bytes, in order; all of them when EOF is reported; no endless (0, nil)
OnlyChunkBytes == IsPrefixOf(out, Expected(all))
AllAtEOF == done => out = Expected(all)
Progress == zeros <= 2
=============================================================================
