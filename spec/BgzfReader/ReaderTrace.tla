------------------------------- MODULE ReaderTrace -------------------------------
(* Trace specification: API traces of real bgzf.Reader runs against ReaderP.  No action  *)
(* exists for a call that hangs or panics.                                                *)
EXTENDS ReaderP, TLC, Json, IOUtils
Trace == ndJsonDeserialize(IOEnv.TRACE)
VARIABLES l, rej
vars == <<rvars, l, rej>>
Ev == Trace[l]
IsEv(e) == l <= Len(Trace) /\ Ev.ev = e /\ l' = l + 1 /\ UNCHANGED rej

Init == /\ l = 1 /\ rej = <<>> /\ file = <<>> /\ fileEnd = 0 /\ pos = 0 /\ blocked = FALSE /\ perr = "nil"
        /\ faultable = FALSE /\ cutLen = -1 /\ layoutOK = TRUE /\ open = FALSE

\* header: the file layout and the fault setting; "new" tells whether NewReader succeeded
Reset == /\ IsEv("T")
         /\ file' = Ev.file /\ fileEnd' = Ev.fileEnd /\ pos' = 0 /\ blocked' = FALSE /\ perr' = "nil"
         /\ faultable' = Ev.faultable /\ cutLen' = Ev.cutLen /\ open' = FALSE
         /\ layoutOK' = (IF "altered" \in DOMAIN Ev THEN ~Ev.altered ELSE TRUE)
TNew == /\ IsEv("new") /\ ~open
        /\ IF Ev.err = "nil" THEN open' = TRUE
           ELSE /\ (faultable \/ N = 0) /\ open' = FALSE
                /\ (Ev.err = "EOF" => N = 0 \/ cutLen = 0)
        /\ UNCHANGED <<file, fileEnd, pos, blocked, perr, faultable, cutLen, layoutOK>>
\* C03: where the harness ran the same history on an uncached reader, the reply must be identical
Same == "same" \in DOMAIN Ev => Ev.same
\* C10: HasEOF reports false for every proper prefix of a stream
THasEOF == IsEv("haseof") /\ Ev.v = FALSE /\ UNCHANGED rvars
TRead == IsEv("read") /\ Read(Ev.n, Ev) /\ Same
TSeek == IsEv("seek") /\ Seek(<<Ev.off[1], Ev.off[2]>>, [err |-> Ev.err, begin |-> <<Ev.begin[1], Ev.begin[2]>>, end |-> <<Ev.end[1], Ev.end[2]>>]) /\ Same
TBlocked == IsEv("blocked") /\ SetBlocked(Ev.v) /\ Same
TSetCache == IsEv("setcache") /\ SetCache
TClose == IsEv("close") /\ Close(Ev)

Regular == Reset \/ THasEOF \/ TNew \/ TRead \/ TSeek \/ TBlocked \/ TSetCache \/ TClose
RECURSIVE NextHdr(_)
NextHdr(i) == IF i > Len(Trace) THEN i ELSE IF Trace[i].ev = "T" THEN i ELSE NextHdr(i + 1)
Skip == /\ l <= Len(Trace) /\ ~ENABLED Regular
        /\ rej' = Append(rej, [sc |-> Ev.sc, line |-> l]) /\ l' = NextHdr(l + 1)
        /\ UNCHANGED rvars
Done == /\ l = Len(Trace) + 1
        /\ PrintT("VERIF-DONE " \o ToJson([lines |-> Len(Trace), rej |-> rej]))
        /\ l' = l + 1 /\ UNCHANGED <<rvars, rej>>
Next == Regular \/ Skip \/ Done
Spec == Init /\ [][Next]_vars
=============================================================================
