------------------------------- MODULE ReaderP -------------------------------
(* Property-level specification of a BGZF reader (C01 reader half, C02, C03, C09 reader  *)
(* half, C10, and the base of C13): the flat-stream model.  A file is a sequence of       *)
(* members [base, size, len]; the uncompressed data is the constant texture T, so the     *)
(* byte at logical position p is T(p).  The state is the logical position, the Blocked    *)
(* flag and whether an error is pending; caches, read-ahead and block objects do not      *)
(* exist at this level - SetCache is a no-op, which is what "transparent" means.          *)
(*                                                                                        *)
(* Fault-aware part (C09, C10): when the scenario is `faultable` (the stream is cut,      *)
(* a byte was altered, or the underlying reader is made to fail) a read may stop early    *)
(* with an error after a correct prefix; it may never return other bytes, and a clean     *)
(* end before the true end is allowed only if the stream is cut exactly at a member       *)
(* boundary.                                                                              *)
EXTENDS Integers, Sequences
VARIABLES file,        \* sequence of <<base, size, len>>
          fileEnd,     \* offset just past the last member
          pos,         \* logical position
          blocked,
          perr,        \* pending (sticky) error class: "nil", "EOF", "other"
          faultable,   \* errors may appear
          cutLen,      \* -1, or the logical length of the data before a cut that falls on a member boundary
          layoutOK,    \* the member table describes the stream (FALSE when a byte was altered: offsets are then not judged)
          open
rvars == <<file, fileEnd, pos, blocked, perr, faultable, cutLen, layoutOK, open>>

\* the data: a texture both TLC and the harness can compute
T(i) == ((i % 251) * (i % 251) + (i \div 251) * 3 + (i \div 64256) * 11) % 256

N == Len(file)
Base(i) == file[i][1]
Size(i) == file[i][2]
MLen(i) == file[i][3]
RECURSIVE Prefix(_)
Prefix(i) == IF i <= 1 THEN 0 ELSE Prefix(i - 1) + MLen(i - 1)
Total == Prefix(N + 1)
Min(a, b) == IF a < b THEN a ELSE b

\* every spelling of logical position p as a virtual offset <<f, b>>
Spells(off, p) ==
    \/ \E i \in 1..N : off[1] = Base(i) /\ off[2] <= MLen(i) /\ Prefix(i) + off[2] = p
    \/ off = <<fileEnd, 0>> /\ p = Total
\* the spelling inside the member that holds byte p (what Seek must be given to replay it)
SpellsInside(off, p) == \E i \in 1..N : off[1] = Base(i) /\ off[2] < MLen(i) /\ Prefix(i) + off[2] = p
ValidOffset(off) == \E i \in 1..N : off[1] = Base(i) /\ off[2] <= MLen(i)
Logical(off) == LET i == CHOOSE i \in 1..N : off[1] = Base(i) IN Prefix(i) + off[2]

\* bytes available to one read from p: to the end of the data, or (Blocked) to the end of
\* the member holding byte p
MemberOf(p) == CHOOSE i \in 1..N : Prefix(i) <= p /\ p < Prefix(i) + MLen(i)
Avail(p) == IF p >= Total THEN 0
            ELSE IF blocked THEN Prefix(MemberOf(p)) + MLen(MemberOf(p)) - p
            ELSE Total - p

\* the bytes of a reply: short replies carry the bytes, long ones the positions at which the
\* harness found the returned bytes in the data (all of them; normally one)
DataOK(r, p, k) == IF "dok" \in DOMAIN r THEN r.dok /\ r.hpos = p      \* C01 read-back: compared by the harness at its own running position
                   ELSE IF k <= 8 THEN /\ Len(r.data) = k
                                   /\ \A j \in 1..k : r.data[j] = T(p + j - 1)
                   ELSE \E q \in DOMAIN r.pm : r.pm[q] = p

\* Read(n) / ReadByte (n = 1, byte = TRUE) with reply r = [k, err, data|pm, begin, end]
Read(n, r) ==
    /\ open
    /\ UNCHANGED <<file, fileEnd, blocked, faultable, cutLen, layoutOK, open>>
    /\ IF perr # "nil"
       THEN \* a pending error is returned until a Seek
            /\ r.k = 0 /\ r.err = perr /\ UNCHANGED <<pos, perr>>
       ELSE LET k == Min(n, Avail(pos))
            IN \/ \* the normal outcome
                  /\ r.k = k /\ DataOK(r, pos, k)
                  /\ IF k = n /\ n > 0 THEN r.err = "nil"
                     ELSE IF n = 0 THEN r.err \in (IF pos >= Total THEN {"nil", "EOF"} ELSE {"nil"})
                     ELSE r.err = "EOF"                           \* short only at the end of the data / of the block
                  /\ layoutOK =>
                       /\ (k > 0 => SpellsInside(r.begin, pos))
                       /\ (k = 0 /\ r.err = "nil" => Spells(r.begin, pos))
                       /\ (r.err = "nil" \/ k > 0 => Spells(r.end, pos + k))
                  /\ pos' = pos + k
                  \* (in Blocked mode io.EOF ends a block, not the data: the reader has not looked at what
                  \* follows - possibly only the empty end-of-file member - and the next Read still reads the
                  \* underlying stream, where an injected fault may surface; the next Read decides again)
                  /\ perr' = IF r.err = "EOF" /\ ~blocked THEN "EOF" ELSE "nil"
               \/ \* fault-aware: a correct prefix, then an error
                  /\ faultable
                  /\ r.k <= k /\ DataOK(r, pos, r.k)
                  /\ r.err # "nil"
                  /\ (r.err = "EOF" /\ pos + r.k < Total) => (cutLen >= 0 /\ pos + r.k = cutLen)   \* no early clean end
                  /\ pos' = pos + r.k /\ perr' = r.err

\* Seek to a valid virtual offset
Seek(off, r) ==
    /\ open /\ ValidOffset(off)
    /\ UNCHANGED <<file, fileEnd, blocked, faultable, cutLen, layoutOK, open>>
    /\ \/ /\ r.err = "nil" /\ r.begin = off /\ r.end = off
          /\ pos' = Logical(off) /\ perr' = "nil"
       \/ /\ faultable /\ r.err # "nil"
          /\ perr' = r.err /\ UNCHANGED pos

SetBlocked(v) == open /\ blocked' = v /\ UNCHANGED <<file, fileEnd, pos, perr, faultable, cutLen, layoutOK, open>>
\* attaching, replacing or removing a cache changes nothing a caller can observe
SetCache == open /\ UNCHANGED rvars
Close(r) == /\ open /\ open' = FALSE
            /\ r.leak = 0                                          \* no goroutine of the library remains
            /\ (r.err # "nil" => faultable)
            /\ UNCHANGED <<file, fileEnd, pos, blocked, perr, faultable, cutLen, layoutOK>>
=============================================================================
