------------------------------- MODULE BamChunks -------------------------------
(* C13 (BAM half).  A BAM file is a BGZF file (ReaderP's member table) plus the logical   *)
(* ranges [from, to) of its records, found by the harness's own parser.  Sequential       *)
(* reading reports for record k a chunk whose Begin spells from_k inside the member that  *)
(* holds that byte and whose End spells to_k (either spelling at a member end).           *)
(* Restricting the reader to Begin_i..End_j (SetChunk) yields exactly records i..j and    *)
(* then io.EOF; an Iterator over a list of such chunks, in any order, their concatenation.*)
EXTENDS ReaderP, TLC, Json, IOUtils
Trace == ndJsonDeserialize(IOEnv.TRACE)
VARIABLES l, rej, recs, nseq
vars == <<rvars, l, rej, recs, nseq>>
Ev == Trace[l]
IsEv(e) == l <= Len(Trace) /\ Ev.ev = e /\ l' = l + 1 /\ UNCHANGED rej

Init == /\ l = 1 /\ rej = <<>> /\ file = <<>> /\ fileEnd = 0 /\ pos = 0 /\ blocked = FALSE /\ perr = "nil"
        /\ faultable = FALSE /\ cutLen = -1 /\ layoutOK = TRUE /\ open = FALSE /\ recs = <<>> /\ nseq = 0

Reset == /\ IsEv("T")
         /\ file' = Ev.file /\ fileEnd' = Ev.fileEnd /\ recs' = Ev.recs /\ nseq' = 0
         /\ pos' = 0 /\ blocked' = FALSE /\ perr' = "nil" /\ faultable' = FALSE /\ cutLen' = -1 /\ layoutOK' = TRUE /\ open' = TRUE

\* the k-th sequential Read: the record written k-th, with the chunk that delimits it
SeqRead == /\ IsEv("seq")
       /\ Ev.k = nseq + 1 /\ Ev.k <= Len(recs) /\ Ev.idx = Ev.k /\ Ev.same
       /\ SpellsInside(<<Ev.begin[1], Ev.begin[2]>>, recs[Ev.k][1])
       /\ Spells(<<Ev.end[1], Ev.end[2]>>, recs[Ev.k][2])
       /\ nseq' = Ev.k /\ UNCHANGED <<rvars, recs>>
SeqEnd == /\ IsEv("seqend") /\ Ev.err = "EOF" /\ Ev.count = Len(recs) /\ nseq = Len(recs)
          /\ UNCHANGED <<rvars, recs, nseq>>

Range(i, j) == [q \in 1..(j - i + 1) |-> i + q - 1]
SetChunk == /\ IsEv("setchunk") /\ Ev.res = "ok"
            /\ Ev.got = Range(Ev.i, Ev.j) /\ Ev.err = "EOF"
            /\ UNCHANGED <<rvars, recs, nseq>>
RECURSIVE Concat(_)
Concat(list) == IF list = <<>> THEN <<>> ELSE Range(list[1][1], list[1][2]) \o Concat(Tail(list))
Iter == /\ IsEv("iter") /\ Ev.res = "ok"
        /\ Ev.got = Concat(Ev.list) /\ Ev.err = "nil"
        /\ UNCHANGED <<rvars, recs, nseq>>

Regular == Reset \/ SeqRead \/ SeqEnd \/ SetChunk \/ Iter
Skip == /\ l <= Len(Trace) /\ ~ENABLED Regular
        /\ rej' = Append(rej, [sc |-> Ev.sc, line |-> l]) /\ l' = l + 1      \* events of a file are judged independently
        /\ UNCHANGED <<rvars, recs>>
        /\ nseq' = IF Ev.ev = "seq" THEN Ev.k ELSE nseq
Done == /\ l = Len(Trace) + 1
        /\ PrintT("VERIF-DONE " \o ToJson([lines |-> Len(Trace), rej |-> rej]))
        /\ l' = l + 1 /\ UNCHANGED <<rvars, rej, recs, nseq>>
Next == Regular \/ Skip \/ Done
Spec == Init /\ [][Next]_vars
=============================================================================
