------------------------------- MODULE ChunkTrace -------------------------------
(* Trace specification for C13 (ChunkReader half): a ChunkReader over a list of chunks   *)
(* returns exactly the bytes between each chunk's Begin and End, concatenated, and then   *)
(* io.EOF.  The state is the number of bytes of that concatenation delivered so far.      *)
EXTENDS ReaderP, TLC, Json, IOUtils
Trace == ndJsonDeserialize(IOEnv.TRACE)
VARIABLES l, rej, ranges, got, ended
vars == <<rvars, l, rej, ranges, got, ended>>
Ev == Trace[l]
IsEv(e) == l <= Len(Trace) /\ Ev.ev = e /\ l' = l + 1 /\ UNCHANGED rej

Init == /\ l = 1 /\ rej = <<>> /\ file = <<>> /\ fileEnd = 0 /\ pos = 0 /\ blocked = FALSE /\ perr = "nil"
        /\ faultable = FALSE /\ cutLen = -1 /\ layoutOK = TRUE /\ open = FALSE /\ ranges = <<>> /\ got = 0 /\ ended = FALSE

\* the logical range [from, to) of a chunk given as <<<<f,b>>, <<f,b>>>>
RangeOf(c) == <<Logical(<<c[1][1], c[1][2]>>), Logical(<<c[2][1], c[2][2]>>)>>
RECURSIVE SumLens(_, _)
SumLens(rs, i) == IF i > Len(rs) THEN 0 ELSE (rs[i][2] - rs[i][1]) + SumLens(rs, i + 1)
TotalLen == SumLens(ranges, 1)
\* logical position of the j-th byte (0-based) of the concatenation
RECURSIVE PosAt(_, _, _)
PosAt(rs, i, j) == IF j < rs[i][2] - rs[i][1] THEN rs[i][1] + j ELSE PosAt(rs, i + 1, j - (rs[i][2] - rs[i][1]))
\* bytes left in the range that holds the j-th byte
RECURSIVE LeftInRange(_, _, _)
LeftInRange(rs, i, j) == IF j < rs[i][2] - rs[i][1] THEN rs[i][2] - rs[i][1] - j ELSE LeftInRange(rs, i + 1, j - (rs[i][2] - rs[i][1]))

Reset == /\ IsEv("T")
         /\ file' = Ev.file /\ fileEnd' = Ev.fileEnd /\ pos' = 0 /\ blocked' = TRUE /\ perr' = "nil"
         /\ faultable' = FALSE /\ cutLen' = -1 /\ layoutOK' = TRUE /\ open' = TRUE
         /\ ranges' = [i \in 1..Len(Ev.chunks) |->
                         LET c == Ev.chunks[i]
                             ix(o) == CHOOSE m \in 1..Len(Ev.file) : Ev.file[m][1] = o[1]
                             pf(m) == LET RECURSIVE P(_) P(q) == IF q <= 1 THEN 0 ELSE P(q - 1) + Ev.file[q - 1][3] IN P(m)
                         IN <<pf(ix(c[1])) + c[1][2], pf(ix(c[2])) + c[2][2]>>]
         /\ got' = 0 /\ ended' = FALSE

CRead == /\ IsEv("cread") /\ ~ended
         /\ Ev.res = "ok"
         /\ LET k == Ev.k
            IN /\ k <= Ev.n /\ got + k <= TotalLen
               /\ IF k <= 8 THEN /\ Len(Ev.data) = k
                                 /\ \A j \in 1..k : Ev.data[j] = T(PosAt(ranges, 1, got + j - 1))
                  ELSE /\ k <= LeftInRange(ranges, 1, got)                      \* one contiguous run of the data
                       /\ \E q \in DOMAIN Ev.pm : Ev.pm[q] = PosAt(ranges, 1, got)
               /\ Ev.err \in {"nil", "EOF"}
               /\ Ev.err = "EOF" => got + k = TotalLen                          \* EOF only after every byte
               /\ got' = got + k
               /\ ended' = (Ev.err = "EOF")
         /\ UNCHANGED <<rvars, ranges>>
\* after EOF: nothing more
CReadAfter == /\ IsEv("cread") /\ ended /\ Ev.k = 0 /\ Ev.err = "EOF" /\ UNCHANGED <<rvars, ranges, got, ended>>

Regular == Reset \/ CRead \/ CReadAfter
RECURSIVE NextHdr(_)
NextHdr(i) == IF i > Len(Trace) THEN i ELSE IF Trace[i].ev = "T" THEN i ELSE NextHdr(i + 1)
Skip == /\ l <= Len(Trace) /\ ~ENABLED Regular
        /\ rej' = Append(rej, [sc |-> Ev.sc, line |-> l]) /\ l' = NextHdr(l + 1)
        /\ UNCHANGED <<rvars, ranges, got, ended>>
Done == /\ l = Len(Trace) + 1
        /\ PrintT("VERIF-DONE " \o ToJson([lines |-> Len(Trace), rej |-> rej]))
        /\ l' = l + 1 /\ UNCHANGED <<rvars, rej, ranges, got, ended>>
Next == Regular \/ Skip \/ Done
Spec == Init /\ [][Next]_vars
=============================================================================
