------------------------------- MODULE ReaderSched -------------------------------
(* Schedules for the real reader, generated from ReaderI.  A behaviour of ReaderI is an    *)
(* API history together with one interleaving of the consumer, the read-ahead goroutine     *)
(* and the inflate goroutines.  TLC in simulation mode walks random behaviours; hist        *)
(* records, for every step that the real code exposes as a gate (a hook point of            *)
(* bgzf/reader.go, a call into the block cache, the start of an API call), the gate's name   *)
(* and the decompressor involved.  When a behaviour has closed the reader its history is     *)
(* printed ("VERIF-GEN").  The harness replays it: every goroutine of the real reader that   *)
(* arrives at a gate waits until the schedule says it is that gate's turn (the hooks block),  *)
(* so the real code is driven through the interleaving TLC chose; the API trace of the run    *)
(* is then judged by ReaderP like any other.  The cache of the model is policy-free, the      *)
(* real one is an LRU: where their outcomes part, the gates open and the run continues        *)
(* unscheduled (the trace header records how far the schedule was followed).                  *)
EXTENDS ReaderI, Json, TLC
VARIABLES hist, ops, printed
svars == <<vars, hist, ops, printed>>

NoPut(b) == b = NoBlk \/ ~HasData(b)
\* the gate passed by the step from the current to the next state (<<>>: none)
Gate ==
  CASE cpc = "idle" /\ cpc' # "idle" -> <<"api", 0>>
    [] cpc \in {"n.get", "s.get"} /\ cpc' # cpc -> <<"c.get", 0>>
    [] cpc \in {"n.hit", "s.hit", "n.miss", "s.miss", "n.keep"} /\ cpc' # cpc -> IF NoPut(cur) THEN <<>> ELSE <<"c.put", 0>>
    [] cpc = "n.recv" /\ cpc' = "n.wait" -> <<"n.recv", cdec'>>
    [] cpc = "n.wait" /\ cpc' # cpc -> <<"n.back", cdec>>
    [] cpc = "s.select" /\ cpc' = "y.use" -> <<"l.idle", cdec'>>
    [] cpc = "s.select" /\ cpc' = "s.wwait" -> <<"l.busy", cdec'>>
    [] cpc = "s.wwait" /\ cpc' = "y.use" /\ derr[cdec] = "nil" /\ ~NoPut(dblk[cdec]) -> <<"c.put", 0>>
    [] cpc = "s.found" /\ cpc' # cpc -> <<"l.found", cdec>>
    [] cpc = "y.drain" /\ cpc' # cpc -> <<"l.back", cdec>>
    [] cpc = "s.hitctl" /\ cpc' # cpc -> <<"s.hitctl", 0>>
    [] cpc = "y.read" /\ cpc' # cpc -> <<"d.read", YDec>>
    [] apc = "take" /\ apc' = "ctl" -> <<"a.take", adec'>>
    [] apc = "ctl" /\ apc' = "peek" -> <<"a.ctl", adec>>
    [] apc = "peek" /\ (apc' # apc \/ aoff' # aoff) -> <<"c.peek", 0>>
    [] apc = "read" /\ apc' = "send" -> <<"d.read", adec>>
    [] apc = "send" /\ apc' = "take" -> <<"a.send", adec>>
    [] inflating' # inflating /\ inflating' \subseteq inflating -> <<"i.done", CHOOSE d \in inflating : d \notin inflating'>>
    [] OTHER -> <<>>
\* the API call started by the step (<<>>: none)
Api == IF cpc = "idle" /\ cpc' \in {"n.get"} THEN <<"next", 0>>
       ELSE IF cpc = "idle" /\ cpc' \in {"s.get", "s.inblock"} THEN <<"seek", want'>>
       ELSE IF cpc = "idle" /\ cpc' = "closing" THEN <<"close", 0>>
       ELSE <<>>

SInit == Init /\ hist = <<>> /\ ops = <<>> /\ printed = FALSE
\* the reader is closed only after MaxOps operations, so that every printed behaviour has a full history
Step == /\ ~(cpc = "idle" /\ cpc' = "closing" /\ nops < MaxOps)
        /\ ~(cpc = "idle" /\ cpc' = "idle")                         \* no StartTouch: it has no gate
        /\ hist' = IF Gate = <<>> THEN hist ELSE Append(hist, Gate)
        /\ ops' = IF Api = <<>> THEN ops ELSE Append(ops, Api)
        /\ UNCHANGED printed
Finish == /\ cpc = "closed" /\ ~printed /\ printed' = TRUE
          /\ PrintT("VERIF-GEN " \o ToJson([n |-> N, rd |-> RD, cap |-> CAP, ops |-> ops, steps |-> hist]))
          /\ UNCHANGED <<vars, hist, ops>>
\* directed schedules: with an as-coded / seeded switch of ReaderI on, the exhaustive search stops at the
\* first state that breaks an invariant of ReaderI and prints the history that leads there
Bad == ~(NoStaleMapping /\ DataIdentity /\ NoPanic)
StopAtBad == ~Bad \/ (PrintT("VERIF-GEN " \o ToJson([n |-> N, rd |-> RD, cap |-> CAP, ops |-> ops, steps |-> hist])) /\ FALSE)
SView == vars
SNext == (Next /\ cpc # "closed" /\ Step) \/ Finish
SSpec == SInit /\ [][SNext]_svars
DNext == Next /\ cpc # "closed" /\ Step
DSpec == SInit /\ [][DNext]_svars
=============================================================================
