------------------------------- MODULE ReaderITrace -------------------------------
(* Conformance of the implementation-shaped specification ReaderI with the real reader:   *)
(* a trace of API calls/returns ("call"/"ret"), of the reader's hook points (build tag     *)
(* verif; events "h": d.read / d.fail in nextBlockAt, i.done in the inflate goroutine,     *)
(* a.take / a.ctl / a.send / a.exit in the read-ahead goroutine, n.recv / n.back in        *)
(* nextBlock, l.idle / l.busy / l.found / l.back in loadBlock, s.hitctl in Seek, x.close   *)
(* in Close) and of every operation on the block cache (events "c", logged by the cache    *)
(* wrapper of the harness under its own lock) must be a behaviour of ReaderI.  Every       *)
(* logged event is one ReaderI action with the logged decompressor, member and cache       *)
(* outcome; the actions without an event (handing the current block to a decompressor,     *)
(* waiting for it, a cache step the code skips because the block holds nothing, ...) are   *)
(* taken silently, and TLC searches depth first for an interleaving that consumes the      *)
(* scenario.  Hooks sit before channel sends and after channel receives, so a message may  *)
(* be "in flight": the read-ahead's non-blocking poll of `control` may miss a message (or  *)
(* the close) whose hook has been logged already (ACtlLate).  A scenario that cannot be     *)
(* explained is MODEL-DRIFT - ReaderI no longer describes the code - never a violation.    *)
(* One cfg per (RD, KeepOnGet); N = 3 members, a cache of capacity CAP = 2 attached before  *)
(* the read-ahead's first step, which may hold another reader's blocks (header: foreign).  *)
EXTENDS ReaderI, Json, IOUtils, TLC
Trace == ndJsonDeserialize(IOEnv.TRACE)
VARIABLES l, dmap, pre      \* pre: receives from `waiting` taken ahead of their (late) hook event
tvars == <<vars, l, dmap, pre>>
Ev == Trace[l]
RECURSIVE NextHdr(_)
NextHdr(i) == IF i > Len(Trace) THEN i ELSE IF Trace[i].ev = "T" THEN i ELSE NextHdr(i + 1)
SetOf(s) == {s[i] : i \in DOMAIN s}

Fresh(foreign) ==
  /\ blk' = [b \in 1..NB |-> IF b = 1 THEN [base |-> 1, hdr |-> 1, data |-> 1, used |-> FALSE]
                                        ELSE [base |-> 0, hdr |-> 0, data |-> 0, used |-> FALSE]]
  /\ nalloc' = 1
  /\ dblk' = [d \in Dec |-> NoBlk] /\ derr' = [d \in Dec |-> "nil"] /\ dwg' = [d \in Dec |-> 0]
  /\ head' = TRUE /\ filepos' = 2
  /\ waiting' = (IF RD > 1 THEN [i \in 1..RD |-> i] ELSE <<>>)
  /\ working' = <<>> /\ control' = <<>> /\ closedCh' = FALSE
  /\ cache' = {<<k, -k>> : k \in foreign}
  /\ cpc' = "idle" /\ cur' = 1 /\ cerr' = "nil" /\ want' = 1 /\ cdec' = 0 /\ cbase' = 0 /\ coff' = 0 /\ ci' = 0 /\ nops' = 0 /\ cfound' = FALSE
  /\ apc' = (IF RD > 1 THEN "take" ELSE "none") /\ adec' = 0 /\ anext' = 2 /\ aoff' = 0
  /\ inflating' = {}
TInit == Init /\ l = 1 /\ dmap = <<>> /\ pre = {}

IsEv(e) == l <= Len(Trace) /\ Ev.ev = e
Consume == l' = l + 1
Mine(e) == e.n = N /\ e.rd = RD /\ e.cap = CAP /\ e.keep = KeepOnGet
Reset == IsEv("T") /\ Mine(Ev) /\ Consume /\ Fresh(SetOf(Ev.foreign)) /\ dmap' = <<>> /\ pre' = {}
SkipScenario == IsEv("T") /\ ~Mine(Ev) /\ l' = NextHdr(l + 1) /\ Fresh({}) /\ dmap' = <<>> /\ pre' = {}

\* real decompressor id w <-> model decompressor d, bound at first sight
Bind(w, d) == IF \E i \in DOMAIN dmap : dmap[i][1] = w
              THEN (\E i \in DOMAIN dmap : dmap[i] = <<w, d>>) /\ dmap' = dmap
              ELSE (\A i \in DOMAIN dmap : dmap[i][2] # d) /\ dmap' = Append(dmap, <<w, d>>)
Hook(p) == IsEv("h") /\ Ev.p = p /\ "init" \notin DOMAIN Ev /\ Consume
CacheEv(op) == IsEv("c") /\ Ev.op = op /\ Consume
Keys(c) == {e[1] : e \in c}

\* ---- API
TCall == /\ IsEv("call") /\ Consume /\ UNCHANGED <<dmap, pre>>
         /\ CASE Ev.op = "next" -> StartNext
              [] Ev.op = "seek" -> StartSeek(Ev.m)
              [] Ev.op = "touch" -> /\ cpc = "idle" /\ cur # NoBlk
                                    /\ blk' = [blk EXCEPT ![cur].used = TRUE]
                                    /\ UNCHANGED <<nalloc, dblk, derr, dwg, head, filepos, inflating, cache>>
                                    /\ UNCHANGED chVars /\ UNCHANGED cVars /\ UNCHANGED aVars
              [] Ev.op = "close" -> cpc = "idle" /\ UNCHANGED vars
TRet == /\ IsEv("ret") /\ Consume /\ UNCHANGED <<dmap, pre>>
        /\ CASE Ev.op = "next" -> /\ cpc = "idle" /\ cerr = Ev.err
                                  \* the Read took one byte of the member it crossed into
                                  /\ IF Ev.err = "nil" THEN blk' = [blk EXCEPT ![cur].used = TRUE] ELSE UNCHANGED blk
                                  /\ UNCHANGED <<nalloc, dblk, derr, dwg, head, filepos, inflating, cache>>
                                  /\ UNCHANGED chVars /\ UNCHANGED cVars /\ UNCHANGED aVars
             [] Ev.op = "seek" -> cpc = "idle" /\ cerr = Ev.err /\ UNCHANGED vars
             [] Ev.op = "touch" -> cpc = "idle" /\ UNCHANGED vars
             [] Ev.op = "close" -> IF RD = 1 THEN cpc = "idle" /\ UNCHANGED vars ELSE Closed

\* ---- cache operations (the wrapper logs key / block member and the outcome)
GetOK == /\ cbase = Ev.key
         /\ CASE Ev.res = "miss" -> cpc' \in {"n.miss", "s.miss"} /\ cbase \notin CacheKeys
              [] Ev.res = "own" -> cpc' \in {"n.hit", "s.hit"}
              [] Ev.res = "foreign" -> cbase \in CacheKeys /\ (CHOOSE b \in CachedFor(cbase) : TRUE) < 0
         /\ Ev.kept = (cbase \in Keys(cache'))
CGet == CacheEv("get") /\ (NGet \/ SGet) /\ GetOK /\ UNCHANGED <<dmap, pre>>
\* the Put of block b with the logged outcome
PutOK(b) == /\ b # NoBlk /\ HasData(b) /\ blk[b].base = Ev.m
            /\ IF Ev.ret
               THEN /\ <<Ev.m, b>> \in cache'
                    /\ IF Ev.evm = 0 THEN Cardinality(cache') = Cardinality(cache) + 1
                       ELSE Cardinality(cache') = Cardinality(cache) /\ Ev.evm \in Keys(cache) /\ Ev.evm \notin Keys(cache')
               ELSE cache' = cache /\ (Ev.held <=> <<Ev.m, b>> \in cache)
CPut == /\ CacheEv("put") /\ UNCHANGED <<dmap, pre>>
        /\ \/ (NHit \/ SHit \/ NMiss \/ SMiss \/ NKeep) /\ PutOK(cur)
           \/ cpc = "s.wwait" /\ derr[cdec] = "nil" /\ SelWWait("s") /\ cpc' = "y.use" /\ PutOK(dblk[cdec])
CPeek == /\ CacheEv("peek") /\ UNCHANGED <<dmap, pre>> /\ "a.ctl" \notin pre
         /\ APeek /\ aoff = Ev.key
         /\ Ev.exists = (apc' = "peek") /\ (Ev.exists => aoff' = Ev.next)

\* ---- hook points
HRead == /\ (Hook("d.read") \/ Hook("d.fail"))
         /\ \/ ARead /\ Bind(Ev.d, adec) /\ aoff = Ev.m
            \/ YRead /\ Bind(Ev.d, YDec) /\ coff = Ev.m
         /\ (Ev.p = "d.read") = (Ev.m \in 1..N) /\ UNCHANGED pre
HInflate == Hook("i.done") /\ (\E d \in Dec : Inflate(d) /\ Bind(Ev.d, d)) /\ UNCHANGED pre
\* a hook after a channel receive is logged some time after the receive: the other receiver of `waiting`
\* may log its own, later receive first.  The receive is then taken silently ahead of its event (pre).
HATake == /\ Hook("a.take")
          /\ IF "a.take" \in pre THEN Bind(Ev.d, adec) /\ pre' = pre \ {"a.take"} /\ UNCHANGED vars
             ELSE ATake /\ apc' = "ctl" /\ Bind(Ev.d, adec') /\ UNCHANGED pre
HACtlNow ==
         /\ \/ ACtl /\ apc' = "peek" /\ aoff' = Ev.m
            \/ \* ACtlLate: the poll missed a message (or the close) that is still in flight
               /\ apc = "ctl" /\ (control # <<>> \/ closedCh) /\ anext >= 0 /\ anext = Ev.m
               /\ apc' = "peek" /\ aoff' = anext
               /\ UNCHANGED <<blk, nalloc, dblk, derr, dwg, head, filepos, waiting, working, control, closedCh, cache, inflating, adec, anext>>
               /\ UNCHANGED cVars
HACtl == /\ Hook("a.ctl") /\ UNCHANGED dmap
         /\ IF "a.ctl" \in pre
            THEN \* the receive from `control` was taken ahead of this event
                 apc = "peek" /\ aoff = Ev.m /\ pre' = pre \ {"a.ctl"} /\ UNCHANGED vars
            ELSE /\ UNCHANGED pre /\ HACtlNow
HASend == Hook("a.send") /\ ASend /\ anext' = Ev.m /\ UNCHANGED <<dmap, pre>>
HAExit == Hook("a.exit") /\ (ATake \/ ACtl) /\ apc' = "exited" /\ UNCHANGED <<dmap, pre>>
HNRecv == Hook("n.recv") /\ ci < RD /\ NRecv /\ Bind(Ev.d, cdec') /\ UNCHANGED pre
HNBack == Hook("n.back") /\ NWait /\ blk[dblk[cdec]].base = Ev.m /\ UNCHANGED <<dmap, pre>>
HLIdle == /\ Hook("l.idle")
          /\ IF "l.idle" \in pre THEN Bind(Ev.d, cdec) /\ pre' = pre \ {"l.idle"} /\ UNCHANGED vars
             ELSE SelWaiting("s") /\ Bind(Ev.d, cdec') /\ UNCHANGED pre
HLBusy == Hook("l.busy") /\ SelWorking("s") /\ Bind(Ev.d, cdec') /\ UNCHANGED pre
HLFound == Hook("l.found") /\ SFound /\ UNCHANGED <<dmap, pre>>
HLBack == Hook("l.back") /\ YDrain /\ UNCHANGED <<dmap, pre>>
HSHitCtl == Hook("s.hitctl") /\ SHitCtl /\ UNCHANGED <<dmap, pre>>
\* (StartClose without its bound on the number of operations, which only serves the exhaustive configs)
HXClose == /\ Hook("x.close") /\ UNCHANGED <<dmap, pre>>
           /\ cpc = "idle" /\ ~closedCh /\ closedCh' = TRUE /\ cpc' = "closing"
           /\ UNCHANGED <<waiting, working, control, cache, cur, cerr, want, cdec, cbase, coff, ci, nops, cfound>>
           /\ UNCHANGED sVars /\ UNCHANGED aVars
\* events that correspond to no ReaderI action: the load of the first member inside NewReader, markers
Ignored == /\ \/ (IsEv("h") /\ "init" \in DOMAIN Ev) \/ IsEv("start")
           /\ Consume /\ UNCHANGED <<vars, dmap, pre>>
\* actions without an event
NoPut(b) == b = NoBlk \/ ~HasData(b)            \* cachePut / keep return before they reach the cache
SilentStep ==
             \/ YUse \/ YWait \/ SInBlock
             \/ (NRecv /\ ci >= RD)
             \/ ((NHit \/ SHit \/ NMiss \/ SMiss \/ NKeep) /\ NoPut(cur))
             \/ (cpc = "s.wwait" /\ SelWWait("s") /\ (cpc' # "y.use" \/ derr[cdec] # "nil" \/ NoPut(dblk[cdec])))
Silent == /\ UNCHANGED <<l, dmap>>
          /\ \/ ("a.take" \notin pre /\ ATake /\ apc' = "ctl" /\ pre' = pre \cup {"a.take"})
             \/ ("l.idle" \notin pre /\ SelWaiting("s") /\ pre' = pre \cup {"l.idle"})
             \/ ("a.ctl" \notin pre /\ "a.take" \notin pre /\ control # <<>> /\ ACtl /\ apc' = "peek" /\ pre' = pre \cup {"a.ctl"})
             \/ (SilentStep /\ UNCHANGED pre)
Done == /\ l = Len(Trace) + 1
        /\ PrintT("VERIF-DONE " \o ToJson([lines |-> Len(Trace), rej |-> <<>>]))
        /\ l' = l + 1 /\ UNCHANGED <<vars, dmap, pre>>
TNext == Reset \/ SkipScenario \/ TCall \/ TRet \/ CGet \/ CPut \/ CPeek \/ HRead \/ HInflate \/ HATake \/ HACtl \/ HASend
         \/ HAExit \/ HNRecv \/ HNBack \/ HLIdle \/ HLBusy \/ HLFound \/ HLBack \/ HSHitCtl \/ HXClose \/ Ignored \/ Silent \/ Done
TSpec == TInit /\ [][TNext]_tvars
\* high-water mark of consumed lines (needs -workers 1)
ASSUME TLCSet(1, 0)
HWM == TLCSet(1, IF l > TLCGet(1) THEN l ELSE TLCGet(1))
PostHWM == PrintT("VERIF-HWM " \o ToString(TLCGet(1)))
=============================================================================
