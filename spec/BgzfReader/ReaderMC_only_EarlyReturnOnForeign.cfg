SPECIFICATION Spec
CONSTANTS
  N = 3
  RD = 1
  CAP = 2
  MaxOps = 4
  FaultAt = 0
  KeepStaleOnFail = FALSE
  PanicOnMiss = FALSE
  BareCtlSend = FALSE
  KeepFoundBlock = FALSE
  SilentSeekHit = FALSE
  EarlyReturnOnForeign = TRUE
  KeepCurAfterKeep = FALSE
  KeepOnGet = TRUE
  Foreign = {3}
  RealCache = FALSE
INVARIANTS NoPanic DataIdentity ErrorsTrue NoStaleMapping CacheBounded Capacities NoLeak
CHECK_DEADLOCK TRUE
