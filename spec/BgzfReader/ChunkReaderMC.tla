---- MODULE ChunkReaderMC ----
EXTENDS ChunkReaderI
====
