SPECIFICATION LiveSpec
CONSTANTS
  N = 3
  RD = 2
  CAP = 1
  MaxOps = 3
  FaultAt = 2
  KeepStaleOnFail = FALSE
  PanicOnMiss = FALSE
  BareCtlSend = FALSE
  KeepFoundBlock = FALSE
  SilentSeekHit = FALSE
  EarlyReturnOnForeign = FALSE
  KeepCurAfterKeep = FALSE
  KeepOnGet = FALSE
  Foreign = {}
  RealCache = FALSE
PROPERTIES AllCallsReturn ReaderEnds
INVARIANTS NoPanic DataIdentity ErrorsTrue NoStaleMapping CacheBounded Capacities NoLeak
CHECK_DEADLOCK TRUE
