SPECIFICATION Spec
CONSTANTS
  N = 3
  RD = 2
  CAP = 1
  MaxOps = 3
  FaultAt = 0
  KeepStaleOnFail = FALSE
  PanicOnMiss = TRUE
  BareCtlSend = TRUE
  KeepFoundBlock = TRUE
  SilentSeekHit = TRUE
  EarlyReturnOnForeign = FALSE
  KeepCurAfterKeep = FALSE
  KeepOnGet = FALSE
  Foreign = {}
  RealCache = FALSE
INVARIANTS NoPanic DataIdentity ErrorsTrue NoStaleMapping CacheBounded Capacities NoLeak
CHECK_DEADLOCK TRUE
