SPECIFICATION SSpec
CONSTANTS
  N = 4
  RD = 3
  CAP = 1
  MaxOps = 4
  FaultAt = 0
  KeepStaleOnFail = FALSE
  PanicOnMiss = FALSE
  BareCtlSend = FALSE
  KeepFoundBlock = FALSE
  SilentSeekHit = FALSE
  EarlyReturnOnForeign = FALSE
  KeepCurAfterKeep = FALSE
  KeepOnGet = FALSE
  Foreign = {}
  RealCache = TRUE
CHECK_DEADLOCK FALSE
