------------------------------- MODULE WriterPlan -------------------------------
(* The block partition the code's copy-or-queue loop produces for a script, as a pure    *)
(* function (the loop of WriterI without the concurrency).  Used to bind WriterI to the   *)
(* code: the payload lengths of the members actually emitted must equal Plan(script).     *)
EXTENDS Integers, Sequences
Min2(a, b) == IF a < b THEN a ELSE b
\* one Write(n) starting with `next` bytes in the active block: returns <<blocks, next'>>
RECURSIVE WriteLoop(_, _, _, _)
WriteLoop(B, next, rem, out) ==
    IF rem = 0 THEN <<out, next>>
    ELSE LET fits == next = 0 \/ next + rem <= B
             k == IF fits THEN Min2(B - next, rem) ELSE 0
         IN IF next + k = B \/ k = 0
            THEN WriteLoop(B, 0, rem - k, Append(out, next + k))
            ELSE WriteLoop(B, next + k, rem - k, out)
RECURSIVE PlanR(_, _, _, _, _)
PlanR(B, script, i, next, out) ==
    IF i > Len(script) THEN out
    ELSE LET o == script[i]
         IN IF o[1] = "W" THEN LET r == WriteLoop(B, next, o[2], out) IN PlanR(B, script, i + 1, r[2], r[1])
            ELSE IF o[1] = "F" THEN (IF next = 0 THEN PlanR(B, script, i + 1, next, out)
                                      ELSE PlanR(B, script, i + 1, 0, Append(out, next)))
            ELSE IF o[1] = "C" THEN Append(out, next)          \* Close emits the active block, even empty
            ELSE PlanR(B, script, i + 1, next, out)
\* payload lengths of the data members emitted for script (calls after the first Close add nothing)
Plan(B, script) == PlanR(B, script, 1, 0, <<>>)
=============================================================================
