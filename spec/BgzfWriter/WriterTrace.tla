------------------------------- MODULE WriterTrace -------------------------------
(* Trace specification: API traces of real bgzf.Writer runs (call/ret events of the      *)
(* driver, emit events logged inside the underlying Write, sink observations) must be     *)
(* behaviours of WriterP.  There is no action for a call that does not return ("stuck")   *)
(* nor for goroutines left behind after Close.  With CheckI the emitted partition must    *)
(* equal WriterPlan!Plan (conformance of WriterI; a mismatch is model drift).             *)
EXTENDS WriterP, WriterPlan, TLC, Json, IOUtils
CONSTANT CheckI

Trace == ndJsonDeserialize(IOEnv.TRACE)
VARIABLES l, rej, plens, digests, script
vars == <<wvars, l, rej, plens, digests, script>>
Ev == Trace[l]
IsEv(e) == l <= Len(Trace) /\ Ev.ev = e /\ l' = l + 1 /\ UNCHANGED rej

Init == WInit /\ l = 1 /\ rej = <<>> /\ plens = <<>> /\ digests = <<>> /\ script = <<>>

Reset == /\ IsEv("T")
         /\ written' = 0 /\ issued' = 0 /\ emitted' = 0 /\ failed' = FALSE /\ eof' = FALSE /\ sticky' = FALSE
         /\ closed' = FALSE /\ cerr' = "nil" /\ pend' = NoCall /\ fmark' = 0
         /\ plens' = <<>> /\ script' = <<>> /\ UNCHANGED digests

TCall == /\ IsEv("call")
         /\ Call(Ev.op, IF Ev.op = "W" THEN Ev.n ELSE 0)
         /\ script' = IF closed THEN script ELSE Append(script, <<Ev.op, IF Ev.op = "W" THEN Ev.n ELSE 0>>)
         /\ UNCHANGED <<plens, digests>>

TEmit == /\ IsEv("emit")
         /\ Emit(Ev)
         /\ Ev.ok => Ev.accepted = Ev.size
         /\ plens' = IF Ev.ok /\ ~Ev.magic THEN Append(plens, Ev.plen) ELSE plens
         /\ UNCHANGED <<digests, script>>

\* what the file holds when a call returns: whole blocks decoding to a prefix (C12)
SinkOK(s) == failed' \/ (s.whole /\ s.prefix /\ s.decoded = emitted')

TRet == /\ IsEv("ret")
        /\ Ret(Ev.op, Ev.n, Ev.err)
        /\ SinkOK(Ev.sink)
        /\ \A i \in DOMAIN Ev.haseof : Ev.haseof[i] = (closed' /\ cerr' = "nil")   \* HasEOF reports exactly a clean close
        /\ (Ev.op = "C" /\ ~closed) =>
              /\ Ev.leak = 0                             \* no goroutine of the library remains
              /\ (CheckI /\ ~failed) => plens = Plan(BlockSize, script)
        /\ UNCHANGED <<plens, digests, script>>

\* end of scenario: gzip-compatibility and independence of the bytes from the concurrency
TEnd == /\ IsEv("end")
        /\ pend = NoCall
        /\ ~Ev.failed => Ev.gunzip
        /\ LET same == {i \in DOMAIN digests : digests[i][1] = Ev.scriptId}
           IN /\ (~Ev.failed /\ Ev.scriptId > 0) => \A i \in same : digests[i][2] = Ev.digest
              /\ digests' = IF ~Ev.failed /\ Ev.scriptId > 0 /\ same = {} THEN Append(digests, <<Ev.scriptId, Ev.digest>>) ELSE digests
        /\ UNCHANGED <<wvars, plens, script>>

Regular == Reset \/ TCall \/ TEmit \/ TRet \/ TEnd
RECURSIVE NextHdr(_)
NextHdr(i) == IF i > Len(Trace) THEN i ELSE IF Trace[i].ev = "T" THEN i ELSE NextHdr(i + 1)
Skip == /\ l <= Len(Trace) /\ ~ENABLED Regular
        /\ rej' = Append(rej, [sc |-> Ev.sc, line |-> l]) /\ l' = NextHdr(l + 1)
        /\ UNCHANGED <<wvars, plens, digests, script>>
Done == /\ l = Len(Trace) + 1
        /\ PrintT("VERIF-DONE " \o ToJson([lines |-> Len(Trace), rej |-> rej]))
        /\ l' = l + 1 /\ UNCHANGED <<wvars, rej, plens, digests, script>>
Next == Regular \/ Skip \/ Done
Spec == Init /\ [][Next]_vars
=============================================================================
