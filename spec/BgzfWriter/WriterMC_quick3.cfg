SPECIFICATION Spec
CONSTANTS
  B = 3
  NC = 3
  Scripts <- ScriptsQuick
  Faults = {0, 1, 2, 3}
  AsCoded = FALSE
INVARIANTS Ordered Capacities Replies NoLeak PlanAgrees
CHECK_DEADLOCK TRUE
