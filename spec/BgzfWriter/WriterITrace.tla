------------------------------- MODULE WriterITrace -------------------------------
(* Conformance of the implementation-shaped specification WriterI with the real writer:   *)
(* a trace of API calls/returns and of the writer's hook points (build tag verif:          *)
(* w.queue, w.take, f.queue, c.queue, c.take, c.joined in the caller; comp.done in a       *)
(* compressor goroutine; e.recvq, e.copied, e.done in the emitter) must be a behaviour of  *)
(* WriterI.  Every logged event is one WriterI action with the logged compressor and       *)
(* fill level; the actions without a hook (the Write loop's bookkeeping, the receive of a  *)
(* compressor's flush token, the hand-back of a compressor, the emitter's exit) are taken  *)
(* silently between events, so TLC searches (depth first) for an interleaving that         *)
(* consumes the whole scenario.  Hooks sit before channel sends and after channel          *)
(* receives; "e.done" is logged after qwg.Done(), whose effect a caller in Wait may see    *)
(* first, so EDone may be taken ahead of its event (ack).  A scenario that cannot be       *)
(* explained is MODEL-DRIFT - WriterI no longer describes the code - never a violation.    *)
(* Fault-free scenarios with NC = wc + 1 compressors; others are skipped.                  *)
EXTENDS WriterI, Json, IOUtils, TLC
Trace == ndJsonDeserialize(IOEnv.TRACE)
VARIABLES l, cmap, nret, ack
tvars == <<vars, l, cmap, nret, ack>>
Ev == Trace[l]
RECURSIVE NextHdr(_)
NextHdr(i) == IF i > Len(Trace) THEN i ELSE IF Trace[i].ev = "T" THEN i ELSE NextHdr(i + 1)
ScriptOf(s) == [i \in 1..Len(s) |-> IF s[i][1] = "W" THEN <<"W", s[i][2]>> ELSE <<s[i][1]>>]

Fresh(sc) == /\ script' = sc /\ ip' = 1 /\ faultAt' = 0
             /\ pc' = "next" /\ rem' = 0 /\ acc' = 0 /\ cur' = 1 /\ errSeen' = FALSE /\ ret' = "none"
             /\ next' = [c \in Comp |-> 0] /\ from' = [c \in Comp |-> 0] /\ cstate' = [c \in Comp |-> "idle"]
             /\ active' = 1 /\ waiting' = [i \in 1..(NC - 1) |-> i + 1]
             /\ queue' = <<>> /\ qclosed' = FALSE /\ flush' = [c \in Comp |-> FALSE] /\ qwg' = 0
             /\ err' = FALSE /\ closed' = FALSE
             /\ epc' = "recvQ" /\ eq' = 0 /\ ec' = 0
             /\ sink' = <<>> /\ failed' = FALSE /\ uw' = 0 /\ eof' = FALSE
             /\ written' = 0 /\ issued' = 0 /\ flushMark' = 0 /\ rets' = <<>>
TInit == /\ l = 1 /\ cmap = <<>> /\ nret = 0 /\ ack = 0
         /\ script = <<>> /\ ip = 1 /\ faultAt = 0
         /\ pc = "next" /\ rem = 0 /\ acc = 0 /\ cur = 1 /\ errSeen = FALSE /\ ret = "none"
         /\ next = [c \in Comp |-> 0] /\ from = [c \in Comp |-> 0] /\ cstate = [c \in Comp |-> "idle"]
         /\ active = 1 /\ waiting = [i \in 1..(NC - 1) |-> i + 1]
         /\ queue = <<>> /\ qclosed = FALSE /\ flush = [c \in Comp |-> FALSE] /\ qwg = 0
         /\ err = FALSE /\ closed = FALSE
         /\ epc = "recvQ" /\ eq = 0 /\ ec = 0
         /\ sink = <<>> /\ failed = FALSE /\ uw = 0 /\ eof = FALSE
         /\ written = 0 /\ issued = 0 /\ flushMark = 0 /\ rets = <<>>

IsEv(e) == l <= Len(Trace) /\ Ev.ev = e
Consume == l' = l + 1
\* a scenario header: take it if it is for this number of compressors and fault-free, else skip the scenario
Mine(e) == "iscript" \in DOMAIN e /\ e.nc = NC /\ e.faultAt = 0
Reset == /\ IsEv("T") /\ Mine(Ev) /\ Consume
         /\ Fresh(ScriptOf(Ev.iscript)) /\ cmap' = <<>> /\ nret' = 0 /\ ack' = 0
SkipScenario == /\ IsEv("T") /\ ~Mine(Ev) /\ l' = NextHdr(l + 1)
                /\ Fresh(<<>>) /\ cmap' = <<>> /\ nret' = 0 /\ ack' = 0

\* real compressor id w <-> model compressor c, bound at first sight
Bind(w, c) == IF \E i \in DOMAIN cmap : cmap[i][1] = w
              THEN (\E i \in DOMAIN cmap : cmap[i] = <<w, c>>) /\ cmap' = cmap
              ELSE (\A i \in DOMAIN cmap : cmap[i][2] # c) /\ cmap' = Append(cmap, <<w, c>>)
Hook(p) == IsEv("hook") /\ Ev.p = p /\ Consume

TCall == /\ IsEv("call") /\ Consume /\ pc = "next" /\ ip <= Len(script)
         /\ Op[1] = Ev.op /\ (Ev.op = "W" => Op[2] = Ev.n)
         /\ Dispatch /\ UNCHANGED <<cmap, nret, ack>>
RetMatches(r) == r.op = Ev.op /\ r.err = Ev.err /\ (Ev.op = "W" => r.n = Ev.n)
TRet == /\ IsEv("ret") /\ Consume /\ nret' = nret + 1 /\ UNCHANGED <<cmap, ack>>
        /\ \/ /\ Len(rets) > nret /\ RetMatches(rets[nret + 1]) /\ UNCHANGED vars      \* the call returned at once (in Dispatch)
           \/ /\ Len(rets) = nret /\ (WRet \/ FRet \/ WaitDone \/ CRet) /\ RetMatches(rets'[nret + 1])
HWQueue == Hook("w.queue") /\ WQueue /\ Bind(Ev.w, cur) /\ next[cur] = Ev.a /\ UNCHANGED <<nret, ack>>
HWTake == Hook("w.take") /\ WTake /\ Bind(Ev.w, Head(waiting)) /\ UNCHANGED <<nret, ack>>
HFQueue == Hook("f.queue") /\ FQueue /\ Bind(Ev.w, cur) /\ next[cur] = Ev.a /\ UNCHANGED <<nret, ack>>
HCQueue == Hook("c.queue") /\ CQueue /\ Bind(Ev.w, active) /\ next[active] = Ev.a /\ UNCHANGED <<nret, ack>>
HCTake == Hook("c.take") /\ CTake /\ UNCHANGED <<cmap, nret, ack>>
HCJoin == Hook("c.joined") /\ CJoin /\ UNCHANGED <<cmap, nret, ack>>
HCompDone == /\ Hook("comp.done") /\ UNCHANGED <<nret, ack>>
             /\ \/ \E c \in Comp : CompDone(c) /\ Bind(Ev.w, c)
                \/ CCompress /\ Bind(Ev.w, cur)                 \* Close compresses the last block itself
HERecvQ == Hook("e.recvq") /\ queue # <<>> /\ ERecvQ /\ Bind(Ev.w, Head(queue)) /\ UNCHANGED <<nret, ack>>
HECopied == Hook("e.copied") /\ EWrite /\ Bind(Ev.w, ec) /\ UNCHANGED <<nret, ack>>
HEDone == /\ Hook("e.done") /\ UNCHANGED <<cmap, nret>>
          /\ \/ ack > 0 /\ ack' = ack - 1 /\ UNCHANGED vars     \* already taken (its effect was seen first)
             \/ ack = 0 /\ EDone /\ UNCHANGED ack
\* events that correspond to no WriterI action
Ignored == /\ \/ IsEv("emit") \/ IsEv("end") \/ (IsEv("hook") /\ Ev.p \in {"comp.start", "e.write"})
           /\ Consume /\ UNCHANGED <<vars, cmap, nret, ack>>
\* actions without a hook
Silent == /\ UNCHANGED <<l, cmap, nret>>
          /\ \/ (WLoop \/ WErr \/ FTake \/ ERecvF \/ EReturn) /\ UNCHANGED ack
             \/ (epc = "recvQ" /\ queue = <<>> /\ qclosed /\ ERecvQ) /\ UNCHANGED ack      \* the emitter leaves its loop
             \/ (EDone /\ ack' = ack + 1)                                                  \* ahead of its "e.done" event
Done == /\ l = Len(Trace) + 1
        /\ PrintT("VERIF-DONE " \o ToJson([lines |-> Len(Trace), rej |-> <<>>]))
        /\ l' = l + 1 /\ UNCHANGED <<vars, cmap, nret, ack>>
TNext == Reset \/ SkipScenario \/ TCall \/ TRet \/ HWQueue \/ HWTake \/ HFQueue \/ HCQueue \/ HCTake \/ HCJoin
         \/ HCompDone \/ HERecvQ \/ HECopied \/ HEDone \/ Ignored \/ Silent \/ Done
TSpec == TInit /\ [][TNext]_tvars
\* high-water mark of consumed lines (needs -workers 1)
ASSUME TLCSet(1, 0)
HWM == TLCSet(1, IF l > TLCGet(1) THEN l ELSE TLCGet(1))
PostHWM == PrintT("VERIF-HWM " \o ToString(TLCGet(1)))
=============================================================================
