SPECIFICATION Spec
CONSTANTS
  BlockSize = 65280
  MaxMember = 65536
  CheckI = FALSE
CHECK_DEADLOCK FALSE
