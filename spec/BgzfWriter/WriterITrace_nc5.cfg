SPECIFICATION TSpec
CONSTANTS
  B = 65280
  NC = 5
  Scripts = {}
  Faults = {0}
  AsCoded = FALSE
INVARIANTS Ordered Capacities Replies
CONSTRAINT HWM
POSTCONDITION PostHWM
CHECK_DEADLOCK FALSE
