------------------------------- MODULE WriterI -------------------------------
(* Implementation-shaped specification of bgzf/writer.go.  Processes: the API caller     *)
(* (Write's copy-or-queue loop, Flush, Wait, Close, each split at its channel             *)
(* operations), one writeBlock goroutine per queued compressor, and the emitter           *)
(* goroutine started by NewWriterLevel (`for qw := range bg.queue { writeOK(<-qw.flush) }`).*)
(* Channels `waiting`, `queue` (capacity NC = wc+1) and per-compressor `flush`            *)
(* (capacity 1) are sequences / flags; `qwg` is the WaitGroup counter; `err` the latched  *)
(* error.  Data are positions: a block is the range [from, from+next) of the written      *)
(* stream.  The underlying writer fails at its FaultAt-th call (0 = never).               *)
(*                                                                                        *)
(* AsCoded = TRUE models the error path of the pinned revision (named deviations):        *)
(*   EmitterBreaks   - the emitter leaves its loop at the first failed block, so queued    *)
(*                     compressors are never returned to `waiting` nor counted done        *)
(*   DoneBeforeErr   - writeOK calls qwg.Done() before it latches the error                *)
(* AsCoded = FALSE models the repaired emitter: it keeps draining the queue, latches the   *)
(* error before Done, and writes nothing once an error is latched.                         *)
EXTENDS Integers, Sequences, FiniteSets
CONSTANTS B,          \* block size
          NC,         \* number of compressors (wc + 1, at least 2)
          Scripts,    \* set of scripts: sequences of <<"W", n>>, <<"F">>, <<"Wt">>, <<"C">>
          Faults,     \* set of FaultAt values
          AsCoded

Comp == 1..NC
VARIABLES script, ip, faultAt,
          pc, rem, acc, cur, errSeen, ret,                 \* API caller
          next, from, cstate,                              \* compressors
          active, waiting, queue, qclosed, flush, qwg, err, closed,
          epc, eq, ec,                                     \* emitter
          sink, failed, uw, eof,                           \* underlying writer
          written, issued, flushMark, rets                 \* history (property level)
vars == <<script, ip, faultAt, pc, rem, acc, cur, errSeen, ret, next, from, cstate,
          active, waiting, queue, qclosed, flush, qwg, err, closed, epc, eq, ec,
          sink, failed, uw, eof, written, issued, flushMark, rets>>

Min(a, b) == IF a < b THEN a ELSE b
Op == script[ip]

Init == /\ script \in Scripts /\ ip = 1 /\ faultAt \in Faults
        /\ pc = "next" /\ rem = 0 /\ acc = 0 /\ cur = 1 /\ errSeen = FALSE /\ ret = "none"
        /\ next = [c \in Comp |-> 0] /\ from = [c \in Comp |-> 0] /\ cstate = [c \in Comp |-> "idle"]
        /\ active = 1 /\ waiting = [i \in 1..(NC - 1) |-> i + 1]
        /\ queue = <<>> /\ qclosed = FALSE /\ flush = [c \in Comp |-> FALSE] /\ qwg = 0
        /\ err = FALSE /\ closed = FALSE
        /\ epc = "recvQ" /\ eq = 0 /\ ec = 0
        /\ sink = <<>> /\ failed = FALSE /\ uw = 0 /\ eof = FALSE
        /\ written = 0 /\ issued = 0 /\ flushMark = 0 /\ rets = <<>>

\* ----------------------------------------------------------------- API caller
apiVars == <<pc, rem, acc, cur, errSeen, ret, ip>>
Return(e) == /\ rets' = Append(rets, [op |-> Op[1], err |-> e, n |-> acc, written |-> written, flushMark |-> flushMark,
                                       emitted |-> (IF sink = <<>> THEN 0 ELSE sink[Len(sink)][2]), eof |-> eof, failed |-> failed])
             /\ ip' = ip + 1 /\ pc' = "next"

\* dispatch the next call of the script
Dispatch ==
    /\ pc = "next" /\ ip <= Len(script)
    /\ UNCHANGED <<script, faultAt, next, from, cstate, active, waiting, queue, qclosed, flush, qwg, err, closed,
                   epc, eq, ec, sink, failed, uw, eof, flushMark>>
    /\ CASE Op[1] = "W" ->
              IF closed THEN /\ acc' = 0 /\ Return("ErrClosed") /\ UNCHANGED <<rem, cur, errSeen, ret, written, issued>>
              ELSE IF err THEN /\ acc' = 0 /\ Return("other") /\ UNCHANGED <<rem, cur, errSeen, ret, written, issued>>
              ELSE /\ rem' = Op[2] /\ acc' = 0 /\ cur' = active /\ errSeen' = FALSE /\ pc' = "wloop"
                   /\ issued' = issued + Op[2]
                   /\ UNCHANGED <<ret, ip, rets, written>>
         [] Op[1] = "F" ->
              IF closed THEN /\ acc' = 0 /\ Return("ErrClosed") /\ UNCHANGED <<rem, cur, errSeen, ret, written, issued>>
              ELSE IF err THEN /\ acc' = 0 /\ Return("other") /\ UNCHANGED <<rem, cur, errSeen, ret, written, issued>>
              ELSE IF next[active] = 0 THEN /\ acc' = 0 /\ Return("nil") /\ UNCHANGED <<rem, cur, errSeen, ret, written, issued>>
              ELSE /\ pc' = "ftake" /\ acc' = 0 /\ UNCHANGED <<rem, cur, errSeen, ret, ip, rets, written, issued>>
         [] Op[1] = "Wt" ->
              IF err THEN /\ acc' = 0 /\ Return("other") /\ UNCHANGED <<rem, cur, errSeen, ret, written, issued>>
              ELSE /\ pc' = "wait" /\ acc' = 0 /\ UNCHANGED <<rem, cur, errSeen, ret, ip, rets, written, issued>>
         [] Op[1] = "C" ->
              IF closed THEN /\ acc' = 0 /\ Return(IF err THEN "other" ELSE "nil") /\ UNCHANGED <<rem, cur, errSeen, ret, written, issued>>
              ELSE /\ pc' = "cqueue" /\ acc' = 0 /\ UNCHANGED <<rem, cur, errSeen, ret, ip, rets, written, issued>>

\* Write: `for ; len(b) > 0 && err == nil; err = bg.Error() { copy-or-not; queue-if-full-or-nothing-copied }`
WLoop ==
    /\ pc = "wloop"
    /\ UNCHANGED <<script, faultAt, cstate, active, waiting, queue, qclosed, flush, qwg, err, closed, epc, eq, ec,
                   sink, failed, uw, eof, flushMark, errSeen, ret, cur>>
    /\ IF rem > 0 /\ ~errSeen
       THEN LET fits == next[cur] = 0 \/ next[cur] + rem <= B
                k == IF fits THEN Min(B - next[cur], rem) ELSE 0
            IN /\ next' = [next EXCEPT ![cur] = @ + k]
               /\ from' = IF next[cur] = 0 THEN [from EXCEPT ![cur] = written + acc] ELSE from
               /\ rem' = rem - k /\ acc' = acc + k
               /\ pc' = IF next[cur] + k = B \/ k = 0 THEN "wqueue" ELSE "werr"
               /\ UNCHANGED <<ip, rets, written, issued>>
       ELSE \* `bg.active = c; return n, bg.Error()`
            /\ active' = active /\ pc' = "wret"
            /\ UNCHANGED <<next, from, rem, acc, ip, rets, written, issued>>
WRet == /\ pc = "wret"
        /\ active' = cur
        /\ written' = written + acc /\ issued' = issued - rem
        /\ rets' = Append(rets, [op |-> "W", err |-> (IF err THEN "other" ELSE "nil"), n |-> acc, written |-> written + acc,
                                 flushMark |-> flushMark, emitted |-> (IF sink = <<>> THEN 0 ELSE sink[Len(sink)][2]),
                                 eof |-> eof, failed |-> failed])
        /\ ip' = ip + 1 /\ pc' = "next"
        /\ UNCHANGED <<script, faultAt, rem, acc, cur, errSeen, ret, next, from, cstate, waiting, queue, qclosed, flush,
                       qwg, err, closed, epc, eq, ec, sink, failed, uw, eof, flushMark>>
\* `bg.queue <- c; bg.qwg.Add(1); go c.writeBlock()`
WQueue == /\ pc = "wqueue" /\ Len(queue) < NC
          /\ queue' = Append(queue, cur) /\ qwg' = qwg + 1 /\ cstate' = [cstate EXCEPT ![cur] = "compressing"]
          /\ pc' = "wtake"
          /\ UNCHANGED <<script, ip, faultAt, rem, acc, cur, errSeen, ret, next, from, active, waiting, qclosed, flush, err,
                         closed, epc, eq, ec, sink, failed, uw, eof, written, issued, flushMark, rets>>
\* `c = <-bg.waiting`
WTake == /\ pc = "wtake" /\ waiting # <<>>
         /\ cur' = Head(waiting) /\ waiting' = Tail(waiting) /\ pc' = "werr"
         /\ UNCHANGED <<script, ip, faultAt, rem, acc, errSeen, ret, next, from, cstate, active, queue, qclosed, flush, qwg, err,
                        closed, epc, eq, ec, sink, failed, uw, eof, written, issued, flushMark, rets>>
\* loop post statement `err = bg.Error()`
WErr == /\ pc = "werr" /\ errSeen' = err /\ pc' = "wloop"
        /\ UNCHANGED <<script, ip, faultAt, rem, acc, cur, ret, next, from, cstate, active, waiting, queue, qclosed, flush, qwg, err,
                       closed, epc, eq, ec, sink, failed, uw, eof, written, issued, flushMark, rets>>

\* Flush: `c, bg.active = bg.active, <-bg.waiting; bg.queue <- c; qwg.Add(1); go c.writeBlock(); return bg.Error()`
FTake == /\ pc = "ftake" /\ waiting # <<>>
         /\ cur' = active /\ active' = Head(waiting) /\ waiting' = Tail(waiting) /\ pc' = "fqueue"
         /\ UNCHANGED <<script, ip, faultAt, rem, acc, errSeen, ret, next, from, cstate, queue, qclosed, flush, qwg, err,
                        closed, epc, eq, ec, sink, failed, uw, eof, written, issued, flushMark, rets>>
FQueue == /\ pc = "fqueue" /\ Len(queue) < NC
          /\ queue' = Append(queue, cur) /\ qwg' = qwg + 1 /\ cstate' = [cstate EXCEPT ![cur] = "compressing"]
          /\ pc' = "fret"
          /\ UNCHANGED <<script, ip, faultAt, rem, acc, cur, errSeen, ret, next, from, active, waiting, qclosed, flush, err,
                         closed, epc, eq, ec, sink, failed, uw, eof, written, issued, flushMark, rets>>
FRet == /\ pc = "fret"
        /\ flushMark' = IF err THEN flushMark ELSE written
        /\ rets' = Append(rets, [op |-> "F", err |-> (IF err THEN "other" ELSE "nil"), n |-> 0, written |-> written,
                                 flushMark |-> flushMark', emitted |-> (IF sink = <<>> THEN 0 ELSE sink[Len(sink)][2]),
                                 eof |-> eof, failed |-> failed])
        /\ ip' = ip + 1 /\ pc' = "next"
        /\ UNCHANGED <<script, faultAt, rem, acc, cur, errSeen, ret, next, from, cstate, active, waiting, queue, qclosed, flush,
                       qwg, err, closed, epc, eq, ec, sink, failed, uw, eof, written, issued>>
\* Wait: `bg.qwg.Wait(); return bg.Error()`
WaitDone == /\ pc = "wait" /\ qwg = 0
            /\ rets' = Append(rets, [op |-> "Wt", err |-> (IF err THEN "other" ELSE "nil"), n |-> 0, written |-> written,
                                     flushMark |-> flushMark, emitted |-> (IF sink = <<>> THEN 0 ELSE sink[Len(sink)][2]),
                                     eof |-> eof, failed |-> failed])
            /\ ip' = ip + 1 /\ pc' = "next"
            /\ UNCHANGED <<script, faultAt, rem, acc, cur, errSeen, ret, next, from, cstate, active, waiting, queue, qclosed,
                           flush, qwg, err, closed, epc, eq, ec, sink, failed, uw, eof, written, issued, flushMark>>
\* Close: `bg.queue <- c; qwg.Add(1); <-bg.waiting; c.writeBlock(); closed = true; close(queue); wg.Wait(); if err == nil { write magic }`
CQueue == /\ pc = "cqueue" /\ Len(queue) < NC
          /\ cur' = active /\ queue' = Append(queue, active) /\ qwg' = qwg + 1
          /\ cstate' = [cstate EXCEPT ![active] = "closing"] /\ pc' = "ctake"
          /\ from' = IF next[active] = 0 THEN [from EXCEPT ![active] = written] ELSE from   \* an empty final block
          /\ UNCHANGED <<script, ip, faultAt, rem, acc, errSeen, ret, next, active, waiting, qclosed, flush, err,
                         closed, epc, eq, ec, sink, failed, uw, eof, written, issued, flushMark, rets>>
CTake == /\ pc = "ctake" /\ waiting # <<>>
         /\ waiting' = Tail(waiting) /\ pc' = "ccompress"
         /\ UNCHANGED <<script, ip, faultAt, rem, acc, cur, errSeen, ret, next, from, cstate, active, queue, qclosed, flush, qwg, err,
                        closed, epc, eq, ec, sink, failed, uw, eof, written, issued, flushMark, rets>>
CCompress == /\ pc = "ccompress"
             /\ flush' = [flush EXCEPT ![cur] = TRUE] /\ cstate' = [cstate EXCEPT ![cur] = "flushed"]
             /\ closed' = TRUE /\ qclosed' = TRUE /\ pc' = "cjoin"
             /\ UNCHANGED <<script, ip, faultAt, rem, acc, cur, errSeen, ret, next, from, active, waiting, queue, qwg, err,
                            epc, eq, ec, sink, failed, uw, eof, written, issued, flushMark, rets>>
CJoin == /\ pc = "cjoin" /\ epc = "exited"
         /\ IF err THEN /\ pc' = "cret" /\ UNCHANGED <<uw, eof, failed, err>>
            ELSE /\ uw' = uw + 1
                 /\ IF uw + 1 = faultAt THEN failed' = TRUE /\ err' = TRUE /\ UNCHANGED eof
                    ELSE eof' = TRUE /\ UNCHANGED <<failed, err>>
                 /\ pc' = "cret"
         /\ UNCHANGED <<script, ip, faultAt, rem, acc, cur, errSeen, ret, next, from, cstate, active, waiting, queue, qclosed, flush,
                        qwg, closed, epc, eq, ec, sink, written, issued, flushMark, rets>>
CRet == /\ pc = "cret"
        /\ rets' = Append(rets, [op |-> "C", err |-> (IF err THEN "other" ELSE "nil"), n |-> 0, written |-> written,
                                 flushMark |-> flushMark, emitted |-> (IF sink = <<>> THEN 0 ELSE sink[Len(sink)][2]),
                                 eof |-> eof, failed |-> failed])
        /\ ip' = ip + 1 /\ pc' = "next"
        /\ UNCHANGED <<script, faultAt, rem, acc, cur, errSeen, ret, next, from, cstate, active, waiting, queue, qclosed, flush,
                       qwg, err, closed, epc, eq, ec, sink, failed, uw, eof, written, issued, flushMark>>

\* ----------------------------------------------------------------- compressor goroutines
CompDone(c) == /\ cstate[c] = "compressing"
               /\ cstate' = [cstate EXCEPT ![c] = "flushed"] /\ flush' = [flush EXCEPT ![c] = TRUE]
               /\ UNCHANGED <<script, ip, faultAt, pc, rem, acc, cur, errSeen, ret, next, from, active, waiting, queue, qclosed,
                              qwg, err, closed, epc, eq, ec, sink, failed, uw, eof, written, issued, flushMark, rets>>

\* ----------------------------------------------------------------- emitter goroutine
ERecvQ == /\ epc = "recvQ"
          /\ IF queue # <<>> THEN /\ eq' = Head(queue) /\ queue' = Tail(queue) /\ epc' = "recvF"
             ELSE /\ qclosed /\ epc' = "exited" /\ UNCHANGED <<eq, queue>>
          /\ UNCHANGED <<script, ip, faultAt, pc, rem, acc, cur, errSeen, ret, next, from, cstate, active, waiting, qclosed, flush,
                         qwg, err, closed, ec, sink, failed, uw, eof, written, issued, flushMark, rets>>
ERecvF == /\ epc = "recvF" /\ flush[eq]
          /\ flush' = [flush EXCEPT ![eq] = FALSE] /\ ec' = eq /\ epc' = "write"
          /\ UNCHANGED <<script, ip, faultAt, pc, rem, acc, cur, errSeen, ret, next, from, cstate, active, waiting, queue, qclosed,
                         qwg, err, closed, eq, sink, failed, uw, eof, written, issued, flushMark, rets>>
\* writeOK: the underlying write of one whole member
EWrite ==
    /\ epc = "write"
    /\ UNCHANGED <<script, ip, faultAt, pc, rem, acc, cur, errSeen, ret, from, cstate, active, waiting, queue, qclosed, flush,
                   closed, eq, ec, eof, written, issued, flushMark, rets>>
    /\ IF ~AsCoded /\ err
       THEN \* repaired: nothing is written once an error is latched
            /\ epc' = "done" /\ next' = [next EXCEPT ![ec] = 0]
            /\ UNCHANGED <<sink, failed, uw, err, qwg>>
       ELSE /\ uw' = uw + 1
            /\ IF uw + 1 = faultAt
               THEN /\ failed' = TRUE /\ UNCHANGED <<sink, next>>
                    /\ IF AsCoded THEN /\ qwg' = qwg - 1 /\ epc' = "seterr" /\ UNCHANGED err      \* DoneBeforeErr
                       ELSE /\ err' = TRUE /\ epc' = "done" /\ UNCHANGED qwg
               ELSE /\ sink' = Append(sink, <<from[ec], from[ec] + next[ec]>>)
                    /\ next' = [next EXCEPT ![ec] = 0]
                    /\ UNCHANGED <<failed, err>>
                    /\ IF AsCoded THEN qwg' = qwg - 1 /\ epc' = "return" ELSE epc' = "done" /\ UNCHANGED qwg
ESetErr == /\ epc = "seterr" /\ err' = TRUE /\ epc' = "returnbreak"
           /\ UNCHANGED <<script, ip, faultAt, pc, rem, acc, cur, errSeen, ret, next, from, cstate, active, waiting, queue, qclosed,
                          flush, qwg, closed, eq, ec, sink, failed, uw, eof, written, issued, flushMark, rets>>
\* repaired: `defer qwg.Done()` runs after the error is latched
EDone == /\ epc = "done" /\ qwg' = qwg - 1 /\ epc' = "return"
         /\ UNCHANGED <<script, ip, faultAt, pc, rem, acc, cur, errSeen, ret, next, from, cstate, active, waiting, queue, qclosed,
                        flush, err, closed, eq, ec, sink, failed, uw, eof, written, issued, flushMark, rets>>
\* `defer func() { bg.waiting <- c }()`
EReturn == /\ epc \in {"return", "returnbreak"}
           /\ waiting' = Append(waiting, ec) /\ cstate' = [cstate EXCEPT ![ec] = "idle"]
           /\ epc' = IF epc = "returnbreak" THEN "exited" ELSE "recvQ"           \* EmitterBreaks
           /\ UNCHANGED <<script, ip, faultAt, pc, rem, acc, cur, errSeen, ret, next, from, active, queue, qclosed, flush, qwg, err,
                          closed, eq, ec, sink, failed, uw, eof, written, issued, flushMark, rets>>

ApiDone == pc = "next" /\ ip > Len(script)
Terminated == ApiDone /\ UNCHANGED vars
Next == Dispatch \/ WLoop \/ WRet \/ WQueue \/ WTake \/ WErr \/ FTake \/ FQueue \/ FRet \/ WaitDone
        \/ CQueue \/ CTake \/ CCompress \/ CJoin \/ CRet
        \/ (\E c \in Comp : CompDone(c))
        \/ ERecvQ \/ ERecvF \/ EWrite \/ ESetErr \/ EDone \/ EReturn
        \/ Terminated
Spec == Init /\ [][Next]_vars

\* ----------------------------------------------------------------- properties (WriterP clauses over the history)
Emitted == IF sink = <<>> THEN 0 ELSE sink[Len(sink)][2]
\* delivered blocks are whole, in write order, and a prefix of what was written so far
Ordered == /\ \A i \in DOMAIN sink : sink[i][1] = (IF i = 1 THEN 0 ELSE sink[i - 1][2]) /\ sink[i][2] - sink[i][1] <= B
           /\ Emitted <= issued
\* channel capacities the code relies on (sends that must never block)
Capacities == Len(queue) <= NC /\ Len(waiting) <= NC /\ qwg >= 0
\* every reply obeys the property-level rules
RetOK(i) ==
    LET r == rets[i]
        earlier == {j \in 1..(i - 1) : rets[j].err = "other"}
    IN /\ (r.op = "Wt" /\ r.err = "nil") => r.emitted >= r.flushMark                  \* Flush+Wait durable
       /\ (r.op = "C" /\ r.err = "nil") => r.emitted = r.written /\ r.eof /\ ~r.failed   \* Close complete, EOF marker
       /\ (r.op = "C" /\ r.failed) => r.err # "nil"                                  \* failures are reported
       /\ (r.op = "C" /\ r.err # "nil") => ~r.eof                                    \* EOF iff clean close
       /\ (earlier # {} /\ r.err # "ErrClosed") => r.err # "nil"                     \* errors are sticky
       /\ (r.op = "W" /\ r.err = "nil") => r.n = script[i][2]
Replies == \A i \in DOMAIN rets : RetOK(i)
\* after Close has returned nothing of the library is still running
NoLeak == (ApiDone /\ \E i \in DOMAIN rets : rets[i].op = "C") =>
             /\ epc = "exited"
             /\ \A c \in Comp : cstate[c] # "compressing"
\* every call returns: no reachable state where the caller waits and nothing can move
\* (checked by TLC's deadlock detection; Terminated is the only allowed end)
=============================================================================
