SPECIFICATION Spec
CONSTANTS
  B = 3
  NC = 2
  Scripts <- ScriptsQuick
  Faults = {0, 1, 2, 3}
  AsCoded = TRUE
INVARIANTS Ordered Capacities Replies NoLeak PlanAgrees
CHECK_DEADLOCK TRUE
