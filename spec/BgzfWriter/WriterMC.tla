---- MODULE WriterMC ----
EXTENDS WriterI, WriterPlan, SequencesExt, TLC
\* scripts: up to K calls from {Write(n), Flush, Wait} followed by Close (and optionally one more call)
Calls(ns) == {<<"W", n>> : n \in ns} \cup {<<"F">>, <<"Wt">>}
RECURSIVE SeqsUpTo(_, _)
SeqsUpTo(S, k) == IF k = 0 THEN {<<>>} ELSE LET R == SeqsUpTo(S, k - 1) IN R \cup {Append(s, x) : s \in R, x \in S}
ScriptsK(ns, k) == {s \o <<<<"C">>>> : s \in SeqsUpTo(Calls(ns), k)}
                   \cup {s \o <<<<"C">>, t>> : s \in SeqsUpTo(Calls(ns), k - 1), t \in {<<"W", 1>>, <<"C">>, <<"F">>}}
ScriptsQuick == ScriptsK({0, 1, 3, 4, 7}, 3)
ScriptsThorough == ScriptsK({0, 1, 2, 3, 4, 6, 7}, 4)
\* WriterI's emitted partition is a prefix of the pure Plan function (which the trace spec
\* compares with the members the real writer emits)
PlanAgrees == IsPrefix([i \in DOMAIN sink |-> sink[i][2] - sink[i][1]], Plan(B, script))
\* --- liveness (C09w: no call hangs).  Deadlock detection shows that no reachable state is stuck; it cannot see
\* a cycle in which the library keeps moving while the caller never gets its reply.  Under weak fairness of the
\* progress actions (everything but the final stuttering) every behaviour reaches ApiDone and stays there.
Progress == Next /\ ~ApiDone
LiveSpec == Spec /\ WF_vars(Progress)
AllCallsReturn == <>[]ApiDone
ScriptsLive == ScriptsK({0, 1, 4, 7}, 2)
====
