SPECIFICATION LiveSpec
CONSTANTS
  B = 3
  NC = 2
  Scripts <- ScriptsLive
  Faults = {0, 1, 2, 3}
  AsCoded = FALSE
PROPERTIES AllCallsReturn
CHECK_DEADLOCK TRUE
