SPECIFICATION Spec
CONSTANTS
  B = 3
  NC = 3
  Scripts <- ScriptsThorough
  Faults = {0, 1, 2, 3, 4, 5}
  AsCoded = FALSE
INVARIANTS Ordered Capacities Replies NoLeak PlanAgrees
CHECK_DEADLOCK TRUE
