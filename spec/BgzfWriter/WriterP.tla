------------------------------- MODULE WriterP -------------------------------
(* Property-level specification of a BGZF writer (C01 writer half, C08, C09 writer half, *)
(* C12).  It knows nothing of compressors, channels or goroutines: the state is what a    *)
(* user and the underlying io.Writer can observe.                                         *)
(*   written  bytes accepted by Write calls that have returned                            *)
(*   issued   bytes of all Write calls issued so far (a call in progress counts in full)  *)
(*   emitted  payload bytes delivered in complete blocks by successful underlying writes  *)
(*   failed   an underlying write has failed                                              *)
(*   eof      the last successful underlying write was the 28-byte EOF marker             *)
(*   sticky   some call has returned an error other than ErrClosed                        *)
(*   closed   Close has returned; cerr its error class                                     *)
(*   pend     the call in progress ([op |-> "none"] if none)                              *)
(*   fmark    bytes written when Flush last returned nil                                  *)
EXTENDS Integers, Sequences
CONSTANTS BlockSize,     \* 65280
          MaxMember      \* 65536
VARIABLES written, issued, emitted, failed, eof, sticky, closed, cerr, pend, fmark
wvars == <<written, issued, emitted, failed, eof, sticky, closed, cerr, pend, fmark>>
NoCall == [op |-> "none"]

WInit == /\ written = 0 /\ issued = 0 /\ emitted = 0 /\ failed = FALSE /\ eof = FALSE /\ sticky = FALSE
         /\ closed = FALSE /\ cerr = "nil" /\ pend = NoCall /\ fmark = 0

Call(op, n) == /\ pend = NoCall
               /\ pend' = [op |-> op, n |-> n]
               /\ issued' = IF op = "W" /\ ~closed THEN issued + n ELSE issued
               /\ UNCHANGED <<written, emitted, failed, eof, sticky, closed, cerr, fmark>>

\* One underlying Write call delivering one gzip member.  m = the facts an independent
\* parser found in the bytes: [size, whole, hasBC, bsize, extraOK, plen, from, crc, magic, ok].
Emit(m) ==
    /\ ~failed                      \* after a failed write nothing more may reach the file
    /\ ~(closed)                    \* nothing is written after Close has returned
    /\ m.whole /\ m.crc             \* exactly one complete, valid gzip member per write
    /\ m.hasBC /\ m.extraOK /\ m.bsize = m.size - 1      \* BC subfield = member length - 1
    /\ m.size <= MaxMember /\ m.plen <= BlockSize
    /\ m.from = emitted             \* in write order, no gap, no repeat; bytes equal the data written there
    /\ emitted + m.plen <= issued   \* never ahead of what was written
    /\ IF m.ok THEN /\ emitted' = emitted + m.plen
                    /\ eof' = m.magic
                    /\ UNCHANGED failed
       ELSE /\ failed' = TRUE /\ UNCHANGED <<emitted, eof>>
    /\ UNCHANGED <<written, issued, sticky, closed, cerr, pend, fmark>>

\* the reply of the pending call: e in {"nil", "ErrClosed", "other"}
Ret(op, n, e) ==
    /\ pend # NoCall /\ pend.op = op
    /\ pend' = NoCall
    /\ sticky => e # "nil"                                   \* errors are not forgotten
    /\ sticky' = (sticky \/ e = "other")
    /\ IF closed
       THEN \* use after Close
            /\ (op \in {"W", "F"} => e = "ErrClosed" /\ n = 0)
            /\ (op = "C" => e = cerr)
            /\ UNCHANGED <<written, issued, emitted, failed, eof, closed, cerr, fmark>>
       ELSE CASE op = "W" ->
                   /\ n <= pend.n /\ (e = "nil" => n = pend.n) /\ e # "ErrClosed"
                   /\ written' = written + n /\ issued' = issued - (pend.n - n)
                   /\ UNCHANGED <<emitted, failed, eof, closed, cerr, fmark>>
              [] op = "F" ->
                   /\ e # "ErrClosed"
                   /\ fmark' = IF e = "nil" THEN written ELSE fmark
                   /\ UNCHANGED <<written, issued, emitted, failed, eof, closed, cerr>>
              [] op = "Wt" ->
                   /\ e # "ErrClosed"
                   /\ e = "nil" => emitted >= fmark          \* Flush then Wait: durable
                   /\ UNCHANGED <<written, issued, emitted, failed, eof, closed, cerr, fmark>>
              [] op = "C" ->
                   /\ e # "ErrClosed"
                   /\ failed => e # "nil"                    \* a failed write is reported by Close
                   /\ e = "nil" => emitted = written /\ eof  \* everything delivered, then the marker
                   /\ e # "nil" => ~eof                      \* the marker iff a clean close
                   /\ closed' = TRUE /\ cerr' = e
                   /\ UNCHANGED <<written, issued, emitted, failed, eof, fmark>>
=============================================================================
