SPECIFICATION Spec
CONSTANTS
  BlockSize = 65280
  MaxMember = 65536
  CheckI = TRUE
CHECK_DEADLOCK FALSE
