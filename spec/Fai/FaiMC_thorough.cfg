SPECIFICATION Spec
CONSTANTS
  MaxW = 3
  MaxL = 7
  MaxRecs = 2
  BlankLinesCounted = TRUE
INVARIANTS IndexCorrect RangeCorrect
CHECK_DEADLOCK FALSE
