------------------------------- MODULE FaiMC -------------------------------
(* Exhaustive check on small layouts: NewIndex's scanner describes every record          *)
(* correctly (FaiI => FaiP), and Seq.Read over any range with any buffer size returns      *)
(* exactly the requested bases and then io.EOF.                                            *)
EXTENDS Fai, TLC
CONSTANTS MaxW, MaxL, MaxRecs
VARIABLES recs, sel, s, e, buf
vars == <<recs, sel, s, e, buf>>
RecSet == [hdr : {2, 5}, W : 1..MaxW, L : 1..MaxL, term : {1, 2}, blanks : {0, 1}, last : BOOLEAN]
\* interior records are fully terminated; only the final record may lack the last terminator
Init == /\ recs \in UNION {[1..n -> RecSet] : n \in 1..MaxRecs}
        /\ \A i \in 1..(Len(recs) - 1) : recs[i].last
        /\ \A i, j \in DOMAIN recs : recs[i].term = recs[j].term
        /\ sel \in DOMAIN recs /\ s = 0 /\ e = 0 /\ buf = 1
Next == /\ UNCHANGED <<recs, sel>>
        /\ \E s2 \in 0..recs[sel].L : \E e2 \in s2..recs[sel].L : \E b2 \in 1..4 : s' = s2 /\ e' = e2 /\ buf' = b2
Spec == Init /\ [][Next]_vars
Idx == IndexOf(recs)
IndexCorrect == Len(Idx) = Len(recs) /\ \A i \in DOMAIN recs : DescribesRecord(Idx[i], recs, i)
\* reading [s, e) with buffer `buf`: every call returns the next bases, the last one io.EOF
RECURSIVE ReadAll(_, _, _, _)
ReadAll(x, cur, acc, fuel) ==
    IF fuel = 0 THEN <<acc, "stuck">>
    ELSE LET r == ReadLoop(recs, x, cur, e, buf, <<>>, FileSize(recs))
         IN IF r[3] = "EOF" THEN <<acc \o r[1], "EOF">>
            ELSE IF Len(r[1]) = 0 THEN <<acc, "stuck">>
            ELSE ReadAll(x, r[2], acc \o r[1], fuel - 1)
RangeCorrect ==
    Len(Idx) = Len(recs) =>
      LET r == ReadAll(Idx[sel], s, <<>>, 40)
      IN /\ r[2] = "EOF"
         /\ Len(r[1]) = e - s
         /\ \A j \in 1..(e - s) : ByteAt(recs, r[1][j]) = <<"b", sel, s + j - 1>>
=============================================================================
