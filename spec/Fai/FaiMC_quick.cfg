SPECIFICATION Spec
CONSTANTS
  MaxW = 2
  MaxL = 3
  MaxRecs = 2
  BlankLinesCounted = TRUE
INVARIANTS IndexCorrect RangeCorrect
CHECK_DEADLOCK FALSE
