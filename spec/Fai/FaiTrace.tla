------------------------------- MODULE FaiTrace -------------------------------
(* Trace specification for C19: the index NewIndex builds from a FASTA file rendered     *)
(* from a layout must describe every record (length, start, position of every base);      *)
(* WriteTo -> ReadFrom must give the index back; reading any range through File must      *)
(* return exactly the bases of that range, call by call, and then io.EOF.                 *)
EXTENDS Fai, TLC, Json, IOUtils
Trace == ndJsonDeserialize(IOEnv.TRACE)
VARIABLES l, rej, recs
vars == <<l, rej, recs>>
Ev == Trace[l]
IsEv(e) == l <= Len(Trace) /\ Ev.ev = e /\ l' = l + 1 /\ UNCHANGED rej
Init == l = 1 /\ rej = <<>> /\ recs = <<>>
ToRec(a) == [hdr |-> a[1], W |-> a[2], L |-> a[3], term |-> a[4], blanks |-> a[5], last |-> a[6]]
Reset == IsEv("T") /\ recs' = [i \in 1..Len(Ev.recs) |-> ToRec(Ev.recs[i])]
\* Holds(b): evaluated as one boolean under Skip's ~ENABLED Regular instead of being expanded branch by branch
Holds(b) == b = TRUE
\* the letter (0..3) of base p of record i in the rendered file
Letter(i, p) == (i * 7 + p * p + 3 * p) % 4
Index == /\ IsEv("index") /\ Ev.res = "nil"
         /\ Len(Ev.idx) = Len(recs)
         /\ Holds(\A i \in DOMAIN recs :
              LET x == [Length |-> Ev.idx[i][1], Start |-> Ev.idx[i][2], Bases |-> Ev.idx[i][3], Bytes |-> Ev.idx[i][4]]
              IN IF Ev.exact THEN DescribesRecord(x, recs, i)
                 ELSE x.Length = recs[i].L /\ x.Start = TrueStart(recs, i) /\ Ev.posok)     \* large records: positions checked by the harness
         /\ UNCHANGED recs
RoundTrip == IsEv("rt") /\ Ev.res = "nil" /\ Ev.equal /\ UNCHANGED recs
\* one ranged read: calls = <<n, err>> per Read call; bases = all bytes returned (letters), or dok for large reads
RECURSIVE Sum(_, _)
Sum(cs, i) == IF i > Len(cs) THEN 0 ELSE cs[i][1] + Sum(cs, i + 1)
FRead == /\ IsEv("fread") /\ Ev.res = "nil"
         /\ Ev.s >= 0 /\ Ev.s <= Ev.e /\ Ev.e <= recs[Ev.rec].L
         /\ Sum(Ev.calls, 1) = Ev.e - Ev.s
         /\ Holds(\A i \in DOMAIN Ev.calls : /\ Ev.calls[i][1] <= Ev.buf
                                             /\ Ev.calls[i][2] \in {"nil", "EOF"}
                                             /\ (Ev.calls[i][2] = "EOF") = (i = Len(Ev.calls))       \* io.EOF exactly at the end
                                             /\ (i < Len(Ev.calls) => Ev.calls[i][1] > 0))             \* progress
         /\ Holds(IF "bases" \in DOMAIN Ev
                  THEN /\ Len(Ev.bases) = Ev.e - Ev.s
                       /\ \A j \in 1..(Ev.e - Ev.s) : Ev.bases[j] = Letter(Ev.rec, Ev.s + j - 1)
                  ELSE Ev.dok)
         /\ UNCHANGED recs
Regular == Reset \/ Index \/ RoundTrip \/ FRead
RECURSIVE NextHdr(_)
NextHdr(i) == IF i > Len(Trace) THEN i ELSE IF Trace[i].ev = "T" THEN i ELSE NextHdr(i + 1)
Skip == /\ l <= Len(Trace) /\ ~ENABLED Regular
        /\ rej' = Append(rej, [sc |-> Ev.sc, line |-> l])
        /\ l' = (IF Ev.ev \in {"fread", "rt"} THEN l + 1 ELSE NextHdr(l + 1)) /\ UNCHANGED recs
Done == /\ l = Len(Trace) + 1
        /\ PrintT("VERIF-DONE " \o ToJson([lines |-> Len(Trace), rej |-> rej]))
        /\ l' = l + 1 /\ UNCHANGED <<rej, recs>>
Next == Regular \/ Skip \/ Done
Spec == Init /\ [][Next]_vars
=============================================================================
