------------------------------- MODULE Fai -------------------------------
(* FASTA files, their FAI index and ranged reads (C19).                                  *)
(* A file is a sequence of records [hdr, W, L, term, blanks, last]: the header line is    *)
(* hdr bytes long before its terminator, the L bases are laid out W per line, every line  *)
(* ends with term bytes (1 = LF, 2 = CRLF) except that the last line of the file has no    *)
(* terminator when `last` = FALSE (only meaningful for the final record), and `blanks`     *)
(* blank lines follow the record.  FaiP part: the true layout as arithmetic.  FaiI part:   *)
(* the scanner of NewIndex over the lines and the loop of Seq.Read over the bytes,         *)
(* transcribed from the code (BlankLinesCounted = FALSE reproduces the pinned revision,    *)
(* which does not add blank lines to the running offset).                                  *)
EXTENDS Integers, Sequences
CONSTANT BlankLinesCounted

Min(a, b) == IF a < b THEN a ELSE b
NLines(r) == IF r.L = 0 THEN 0 ELSE (r.L + r.W - 1) \div r.W
\* ---- FaiP: the true byte layout -------------------------------------------------------
\* lines of one record: <<kind, bytes incl. terminator, bases>>
RecLines(r, isFinal) ==
    LET n == NLines(r)
        seqLine(i) == LET b == IF i < n THEN r.W ELSE r.L - r.W * (n - 1)
                          t == IF isFinal /\ i = n /\ r.blanks = 0 /\ ~r.last THEN 0 ELSE r.term
                      IN <<"seq", b + t, b>>
        hdrT == IF isFinal /\ n = 0 /\ r.blanks = 0 /\ ~r.last THEN 0 ELSE r.term
    IN << <<"hdr", r.hdr + hdrT, 0>> >> \o [i \in 1..n |-> seqLine(i)] \o
       [i \in 1..r.blanks |-> <<"blank", IF isFinal /\ i = r.blanks /\ ~r.last THEN 0 ELSE r.term, 0>>]
RECURSIVE FileLines(_, _)
FileLines(recs, i) == IF i > Len(recs) THEN <<>>
                      ELSE [j \in 1..Len(RecLines(recs[i], i = Len(recs))) |-> <<RecLines(recs[i], i = Len(recs))[j][1], RecLines(recs[i], i = Len(recs))[j][2], RecLines(recs[i], i = Len(recs))[j][3], i>>]
                           \o FileLines(recs, i + 1)
RECURSIVE BytesBefore(_, _)
BytesBefore(lines, k) == IF k <= 1 THEN 0 ELSE BytesBefore(lines, k - 1) + lines[k - 1][2]
\* true offset of the first base of record i, and of base p of record i
TrueStart(recs, i) == LET ls == FileLines(recs, 1)
                          k == CHOOSE q \in DOMAIN ls : ls[q][4] = i /\ ls[q][1] = "hdr"
                      IN BytesBefore(ls, k + 1)
TrueOffset(recs, i, p) == TrueStart(recs, i) + (p \div recs[i].W) * (recs[i].W + recs[i].term) + (p % recs[i].W)
\* an index record [Length, Start, Bases, Bytes] describes record i correctly
Position(x, p) == x.Start + (p \div x.Bases) * x.Bytes + (p % x.Bases)
DescribesRecord(x, recs, i) ==
    /\ x.Length = recs[i].L /\ x.Start = TrueStart(recs, i)
    /\ \A p \in 0..(recs[i].L - 1) : x.Bases > 0 /\ Position(x, p) = TrueOffset(recs, i, p)
    /\ (recs[i].L > recs[i].W => x.Bases = recs[i].W /\ x.Bytes = recs[i].W + recs[i].term)

\* ---- FaiI: NewIndex's scanner over the lines ------------------------------------------
\* returns a sequence of [Length, Start, Bases, Bytes] per record, or "error"
RECURSIVE Scan(_, _, _, _, _, _)
Scan(ls, k, offset, cur, out, wantDesc) ==
    \* cur = the record being built ([on |-> FALSE] if none)
    IF k > Len(ls) THEN (IF cur.on THEN Append(out, cur.x) ELSE out)
    ELSE LET line == ls[k]
             nb == line[2]
         IN IF line[1] = "blank"
            THEN Scan(ls, k + 1, IF BlankLinesCounted THEN offset + nb ELSE offset, cur, out, wantDesc)
            ELSE IF line[1] = "hdr"
            THEN Scan(ls, k + 1, offset + nb, [on |-> TRUE, x |-> [Length |-> 0, Start |-> offset + nb, Bases |-> 0, Bytes |-> 0]],
                      IF cur.on THEN Append(out, cur.x) ELSE out, FALSE)
            ELSE LET x == cur.x
                     x1 == [x EXCEPT !.Bytes = IF x.Bytes = 0 THEN nb ELSE x.Bytes,
                                     !.Bases = IF x.Bases = 0 THEN line[3] ELSE x.Bases,
                                     !.Length = x.Length + line[3]]
                 IN Scan(ls, k + 1, offset + nb, [on |-> TRUE, x |-> x1], out, wantDesc \/ nb < x1.Bytes \/ line[3] < x1.Bases)
IndexOf(recs) == Scan(FileLines(recs, 1), 1, 0, [on |-> FALSE, x |-> [Length |-> 0, Start |-> 0, Bases |-> 0, Bytes |-> 0]], <<>>, FALSE)

\* ---- FaiI: the bytes, and Seq.Read ------------------------------------------------------
\* what byte sits at file offset o: <<"b", rec, p>> for a base, <<"x">> otherwise; "eof" past the end
RECURSIVE ByteAtR(_, _, _, _)
ByteAtR(recs, ls, k, o) ==
    IF k > Len(ls) THEN <<"eof">>
    ELSE IF o < ls[k][2]
         THEN IF ls[k][1] = "seq" /\ o < ls[k][3]
              THEN LET i == ls[k][4]
                       first == CHOOSE q \in DOMAIN ls : ls[q][4] = i /\ ls[q][1] = "hdr"
                   IN <<"b", i, (k - first - 1) * recs[i].W + o>>
              ELSE <<"x">>
         ELSE ByteAtR(recs, ls, k + 1, o - ls[k][2])
ByteAt(recs, o) == ByteAtR(recs, FileLines(recs, 1), 1, o)
FileSize(recs) == BytesBefore(FileLines(recs, 1), Len(FileLines(recs, 1)) + 1)
EndOfLineOffset(x, p) == IF p \div x.Bases = x.Length \div x.Bases THEN x.Length - p ELSE x.Bases - (p % x.Bases)
\* one Seq.Read(b) with len(b) = n > 0 at cursor cur of the range [.., e): <<bytes read (as offsets), cur', err>>
RECURSIVE ReadLoop(_, _, _, _, _, _, _)
ReadLoop(recs, x, cur, e, n, acc, fsize) ==
    IF cur >= e THEN <<acc, cur, "EOF">>
    ELSE LET endb == Position(x, e)
             co == Position(x, cur)
             eol == Min(EndOfLineOffset(x, cur), endb - co)
             want == Min(eol, n)
             got == Min(want, IF fsize > co THEN fsize - co ELSE 0)          \* ReadAt stops at the end of the file
             acc2 == acc \o [j \in 1..got |-> co + j - 1]
         IN IF got < want THEN <<acc2, cur + got, "EOF">>                     \* ReadAt returned io.EOF
            ELSE IF n - got = 0 THEN <<acc2, cur + got, "nil">>
            ELSE ReadLoop(recs, x, cur + got, e, n - got, acc2, fsize)
=============================================================================
