SPECIFICATION Spec
CONSTANT BlankLinesCounted = TRUE
CHECK_DEADLOCK FALSE
