SPECIFICATION Spec
CONSTANTS
  MaxW = 2
  MaxL = 4
  MaxRecs = 2
  BlankLinesCounted = FALSE
INVARIANTS IndexCorrect RangeCorrect
CHECK_DEADLOCK FALSE
