"""Shared runner for the /verif checks.

Orchestration only: building the Go harness from /repo's working tree, running TLC on
the exhaustive model configs, running drivers that record traces of the real code,
validating those traces with TLC trace specs, computing verdicts against
KNOWN_FINDINGS.txt and writing the evidence file.  All verdict logic lives in the
TLA+ specifications under /verif/spec.
"""
import json, os, re, shutil, subprocess, sys, tempfile, time, hashlib

VERIF = os.path.dirname(os.path.dirname(os.path.abspath(__file__)))
REPO = os.environ.get("VERIF_REPO", "/repo")
SPEC = os.path.join(VERIF, "spec")
BUILD = os.path.join(VERIF, "build")
# (VERIF_EVID / VERIF_REPLAYS / VERIF_REPO redirect a run that evaluates a changed copy of the
# repository, e.g. a seeded mutation in a scratch worktree, away from the registered outputs)
EVID = os.environ.get("VERIF_EVID") or os.path.join(VERIF, "evidence")
REPLAYS = os.environ.get("VERIF_REPLAYS") or os.path.join(VERIF, "replays")
KNOWN = os.path.join(VERIF, "KNOWN_FINDINGS.txt")

GOENV = dict(GOFLAGS="-mod=mod", GOPROXY="off", GOSUMDB="off", GOTOOLCHAIN="local",
             TZ="UTC")


class Infra(Exception):
    """Infrastructure trouble (exit 2): never a verdict."""


def log(*a):
    print("[verif]", *a, file=sys.stderr, flush=True)


def env_with(extra=None):
    e = dict(os.environ)
    e.update(GOENV)
    if extra:
        e.update(extra)
    return e


# ----------------------------------------------------------------------------- build

def build_harness():
    """(Re)build the driver from /repo's current working tree with -tags verif."""
    os.makedirs(BUILD, exist_ok=True)
    h = os.path.join(VERIF, "harness")
    # go.sum must match the repository's (no network to consult sum.golang.org)
    src = os.path.join(REPO, "go.sum")
    dst = os.path.join(h, "go.sum")
    if os.path.exists(src):
        a = open(src, "rb").read()
        b = open(dst, "rb").read() if os.path.exists(dst) else None
        if a != b:
            open(dst, "wb").write(a)
    out = os.path.join(BUILD, "driver")
    extra = []
    if os.path.realpath(REPO) != "/repo":
        # another copy of the repository: same module, alternate go.mod with the replace redirected
        tag = re.sub(r"[^A-Za-z0-9]+", "_", os.path.realpath(REPO)).strip("_")
        alt = os.path.join(h, "go.%s.mod" % tag)
        open(alt, "w").write(open(os.path.join(h, "go.mod")).read().replace("=> /repo", "=> " + os.path.realpath(REPO)))
        shutil.copy(dst, os.path.join(h, "go.%s.sum" % tag))
        out = os.path.join(BUILD, "driver-" + tag)
        extra = ["-modfile=" + alt]
    t0 = time.time()
    p = subprocess.run(["go", "build", "-tags", "verif"] + extra + ["-o", out, "./cmd/driver"],
                       cwd=h, env=env_with(), capture_output=True, text=True)
    if p.returncode != 0:
        raise Infra("harness build failed:\n" + p.stdout + p.stderr)
    log("harness built in %.1fs" % (time.time() - t0))
    return out


# ----------------------------------------------------------------------------- TLC

class TlcResult:
    def __init__(self):
        self.rc = None
        self.out = ""
        self.states = 0
        self.distinct = 0
        self.depth = 0
        self.error = None       # text of first TLC error, if any
        self.printed = []       # strings printed by PrintT with VERIF- prefix (decoded)
        self.coverage = {}
        self.wall = 0.0


def _decode_printt(line):
    # TLC prints a string value as a quoted, backslash-escaped literal
    line = line.strip()
    if line.startswith('"') and line.endswith('"'):
        try:
            return json.loads(line)
        except Exception:
            return line[1:-1].replace('\\"', '"').replace('\\\\', '\\')
    return line


def run_tlc(moddir, module, cfg, env=None, workers="auto", timeout=600, extra=None,
            simulate=None, heap=None, dfs=False, keep_out=None):
    """Run TLC in a scratch copy of the spec directory; returns TlcResult."""
    scratch = tempfile.mkdtemp(prefix="verif-tlc-")
    r = TlcResult()
    try:
        for root in (os.path.join(SPEC, "Common"), os.path.join(SPEC, moddir)):
            if os.path.isdir(root):
                for f in os.listdir(root):
                    if f.endswith((".tla", ".cfg")):
                        shutil.copy(os.path.join(root, f), scratch)
        cmd = ["java"]
        jopts = ["-XX:+UseParallelGC", "-Xss64m"]
        if heap:
            jopts.append("-Xmx" + heap)
        if dfs:
            jopts.append("-Dtlc2.tool.queue.IStateQueue=StateDeque")
        cmd += jopts + ["-cp", "/opt/veriftools/tla/tla2tools.jar:/opt/veriftools/tla/CommunityModules-deps.jar",
                        "tlc2.TLC", "-workers", str(workers), "-metadir", os.path.join(scratch, "md"),
                        "-config", cfg]
        if simulate:
            cmd += ["-simulate", simulate]
        if extra:
            cmd += extra
        cmd += [module + ".tla"]
        e = env_with(env)
        t0 = time.time()
        try:
            p = subprocess.run(cmd, cwd=scratch, env=e, capture_output=True, text=True, timeout=timeout)
        except subprocess.TimeoutExpired:
            raise Infra("TLC timeout after %ss: %s/%s %s" % (timeout, moddir, module, cfg))
        r.wall = time.time() - t0
        r.rc = p.returncode
        r.out = p.stdout + p.stderr
        if keep_out:
            open(keep_out, "w").write(r.out)
        for line in p.stdout.splitlines():
            m = re.match(r"(\d+) states generated, (\d+) distinct states found", line)
            if m:
                r.states, r.distinct = int(m.group(1)), int(m.group(2))
            m = re.match(r"The depth of the complete state graph search is (\d+)", line)
            if m:
                r.depth = int(m.group(1))
            if line.startswith('"VERIF-'):
                r.printed.append(_decode_printt(line))
            if line.startswith("Error:") and r.error is None:
                r.error = line
            m = re.match(r"<(\w+) line \d+, col \d+ to line \d+, col \d+ of module (\w+)>: (\d+):(\d+)", line)
            if m:
                r.coverage[m.group(2) + "!" + m.group(1)] = r.coverage.get(m.group(2) + "!" + m.group(1), 0) + int(m.group(4))
        if r.error is None and "Error:" in r.out:
            for line in r.out.splitlines():
                if "Error:" in line:
                    r.error = line.strip()
                    break
        return r
    finally:
        shutil.rmtree(scratch, ignore_errors=True)


def model_check(moddir, module, cfg, timeout=900, workers="auto", coverage=False, heap=None):
    """Exhaustive TLC run of a model config.  A failure here is a defect of the *model*
    (or a lead to replay), never a verdict on the code: it raises Infra."""
    extra = ["-coverage", "1"] if coverage else None
    r = run_tlc(moddir, module, cfg, timeout=timeout, workers=workers, extra=extra, heap=heap)
    if r.error or "Model checking completed. No error has been found." not in r.out:
        tail = "\n".join(r.out.splitlines()[-60:])
        raise Infra("model check %s/%s %s failed:\n%s" % (moddir, module, cfg, tail))
    log("TLC %s/%s [%s]: %d states generated, %d distinct, depth %d, %.1fs" %
        (moddir, module, cfg, r.states, r.distinct, r.depth, r.wall))
    return r


def model_rejects(moddir, module, cfg, invariant, timeout=900, workers="auto"):
    """The model with a variant switch set to the behaviour of the code *before* a repair must
    violate the named invariant (or deadlock, invariant="deadlock"): the invariants are not
    vacuous with respect to that defect.  Anything else is a defect of the model: Infra."""
    r = run_tlc(moddir, module, cfg, timeout=timeout, workers=workers)
    want = "Deadlock reached" if invariant == "deadlock" else "Invariant %s is violated" % invariant
    if want not in r.out:
        tail = "\n".join(r.out.splitlines()[-40:])
        raise Infra("model variant %s/%s %s was expected to violate %s:\n%s" % (moddir, module, cfg, invariant, tail))
    log("TLC %s/%s [%s]: variant rejected as expected (%s), %.1fs" % (moddir, module, cfg, invariant, r.wall))
    return r


def generate(moddir, module, cfg, timeout=900, workers=1, simulate=None, extra=None):
    """Run a generation config; the spec prints scenarios as "VERIF-GEN <json>" lines."""
    r = run_tlc(moddir, module, cfg, timeout=timeout, workers=workers, simulate=simulate, extra=extra)
    if r.error and "VERIF-GEN" not in r.out:
        raise Infra("generation %s/%s %s failed:\n%s" % (moddir, module, cfg, "\n".join(r.out.splitlines()[-40:])))
    seen, out = set(), []
    for s in r.printed:
        if s.startswith("VERIF-GEN "):
            body = s[len("VERIF-GEN "):]
            if body not in seen:
                seen.add(body)
                out.append(json.loads(body))
    log("TLC generation %s/%s [%s]: %d scenarios (%d states, %.1fs)" % (moddir, module, cfg, len(out), r.distinct, r.wall))
    return out, r


# ----------------------------------------------------------------------------- traces

def read_ndjson_lenient(path):
    out = []
    with open(path) as f:
        for x in f:
            try:
                out.append(json.loads(x))
            except Exception:
                break
    return out


def read_ndjson(path):
    with open(path) as f:
        return [json.loads(x) for x in f if x.strip()]


class Validation:
    def __init__(self):
        self.lines = 0
        self.scenarios = 0
        self.rejected = []     # list of dict(sc=, line=, sig=, header=, event=)
        self.states = 0
        self.wall = 0.0
        self.runs = 0


def validate_trace(moddir, module, cfg, trace_path, timeout=1200, branching=False, heap=None):
    """Validate one (concatenated) ndjson trace with a TLC trace spec.

    Trace specs follow one protocol (see spec/Common/README): every line carries "sc";
    each scenario starts with an {"ev":"T"} header; a scenario whose next line matches no
    action of the spec is skipped with its id recorded; at the end the spec prints
    VERIF-DONE {"lines":N,"rej":[{"sc":..,"line":..},...]}.  An invariant violation stops
    TLC; the offending scenario is recorded and validation continues after it.
    """
    v = Validation()
    events = read_ndjson(trace_path)
    v.lines = len(events)
    hdr = {}
    for i, e in enumerate(events):
        if e.get("ev") == "T":
            hdr[e["sc"]] = (i, e)
    v.scenarios = len(hdr)
    if not events:
        raise Infra("empty trace " + trace_path)
    pending_path = trace_path
    offset = 0          # lines dropped from the front so far
    tmpfiles = []
    try:
        while True:
            r = run_tlc(moddir, module, cfg, env={"TRACE": pending_path}, workers=1, timeout=timeout,
                        dfs=branching, heap=heap)
            v.runs += 1
            v.states += r.distinct
            v.wall += r.wall
            done = [s for s in r.printed if s.startswith("VERIF-DONE ")]
            if done:
                d = json.loads(done[-1][len("VERIF-DONE "):])
                for x in d.get("rej", []):
                    _add_rej(v, events, hdr, x["sc"], x["line"] + offset, "no spec action matches")
                if d["lines"] != len(events) - offset:
                    raise Infra("trace spec consumed %s lines, expected %s" % (d["lines"], len(events) - offset))
                break
            # no DONE: invariant violation or evaluation error at some line
            m = None
            hw = [x for x in r.printed if x.startswith("VERIF-HWM ")]
            if hw and not (r.error and "Invariant" in r.error) and "Model checking completed" in r.out:
                # branching trace spec: no behaviour consumed line hwm
                m = int(hw[-1].split()[1]) + 1
                why = "no behaviour of the specification explains this event (search exhausted)"
            if m is None and r.error and ("Invariant" in r.error or "violated" in r.error):
                ls = re.findall(r"^/?\\?\s*l = (\d+)", r.out, re.M)
                if ls:
                    m = int(ls[-1])
                inv = re.search(r"Invariant (\w+) is violated", r.out)
                why = "invariant %s violated" % (inv.group(1) if inv else "?")
            if m is None:
                raise Infra("trace validation %s/%s failed without verdict:\n%s" %
                            (moddir, module, "\n".join(r.out.splitlines()[-50:])))
            # state with l = m is the state *after* consuming line m-1
            gl = (m - 1) + offset       # 1-based global index of the consumed line
            sc = events[gl - 1]["sc"]
            _add_rej(v, events, hdr, sc, gl, why)
            # continue after this scenario
            nxt = None
            for j in range(gl, len(events)):
                if events[j].get("ev") == "T":
                    nxt = j
                    break
            if nxt is None:
                break
            fd, pending_path = tempfile.mkstemp(prefix="verif-rest-", suffix=".ndjson")
            tmpfiles.append(pending_path)
            with os.fdopen(fd, "w") as f:
                for e in events[nxt:]:
                    f.write(json.dumps(e) + "\n")
            offset = nxt
    finally:
        for t in tmpfiles:
            try:
                os.remove(t)
            except OSError:
                pass
    return v


def _add_rej(v, events, hdr, sc, gline, why):
    hi, h = hdr.get(sc, (None, {}))
    ev = events[gline - 1] if 0 < gline <= len(events) else {}
    # scenario lines
    lines = []
    if hi is not None:
        j = hi
        while j < len(events) and (j == hi or events[j].get("ev") != "T"):
            lines.append(events[j])
            j += 1
    v.rejected.append(dict(sc=sc, line=gline, sig=ev.get("sig") or h.get("sig", ""), header=h, event=ev, why=why,
                           first_unmatched=(gline - hi) if hi is not None else None, lines=lines))


# ----------------------------------------------------------------------------- findings

def load_known():
    findings, fixed = [], []
    if os.path.exists(KNOWN):
        for line in open(KNOWN):
            line = line.strip()
            if not line or line.startswith("#"):
                continue
            m = re.match(r"finding:\s+property=(\S+)\s+sig=(\S+)\s+(.*)", line)
            if m:
                findings.append(dict(prop=m.group(1), sig=m.group(2), text=m.group(3)))
                continue
            m = re.match(r"fixed:\s+property=(\S+)\s+(\S+)\s+(.*)", line)
            if m:
                fixed.append(dict(prop=m.group(1), commit=m.group(2), text=m.group(3)))
    return findings, fixed


# ----------------------------------------------------------------------------- check context

class Ctx:
    def __init__(self, prop, tier, seed, level):
        self.prop = prop
        self.tier = tier
        self.seed = seed
        self.level = level
        self.t0 = time.time()
        self.states = 0
        self.transitions = 0
        self.traces = 0
        self.events = 0
        self.evaluations = 0
        self.distinct = 0
        self.samples = []
        self.mc = []
        self.rejected = []
        self.drift = []
        self.notes = []
        self.assumptions = []
        self.extra = {}
        self.rule = ""
        self.exhaustive = None
        self.work = tempfile.mkdtemp(prefix="verif-%s-" % prop)
        self.driver = None

    # -- steps
    def build(self):
        self.driver = build_harness()

    def mcheck(self, moddir, module, cfg, **kw):
        r = model_check(moddir, module, cfg, **kw)
        self.states += r.distinct
        self.transitions += r.states
        self.mc.append(dict(spec="%s/%s" % (moddir, module), cfg=cfg, states_generated=r.states,
                            distinct_states=r.distinct, depth=r.depth, wall_s=round(r.wall, 1),
                            coverage={k: v for k, v in sorted(r.coverage.items())[:80]} if r.coverage else None))
        return r

    def mrejects(self, moddir, module, cfg, invariant, **kw):
        r = model_rejects(moddir, module, cfg, invariant, **kw)
        self.mc.append(dict(spec="%s/%s" % (moddir, module), cfg=cfg, expected_violation=invariant,
                            states_generated=r.states, distinct_states=r.distinct, wall_s=round(r.wall, 1)))
        return r

    def gen(self, moddir, module, cfg, **kw):
        out, r = generate(moddir, module, cfg, **kw)
        self.mc.append(dict(spec="%s/%s" % (moddir, module), cfg=cfg, generated_scenarios=len(out),
                            distinct_states=r.distinct, wall_s=round(r.wall, 1)))
        self.states += r.distinct
        self.transitions += r.states
        return out

    def drive(self, args, timeout=3600, env=None, stdin=None):
        """Run the Go driver; it writes an ndjson trace to --out and a JSON summary on stdout."""
        if self.driver is None:
            self.build()
        e = env_with(env)
        e["VERIF_SEED"] = str(self.seed)
        e["VERIF_TIER"] = self.tier
        t0 = time.time()
        try:
            p = subprocess.run([self.driver] + args, env=e, capture_output=True, text=True, timeout=timeout,
                               input=stdin)
        except subprocess.TimeoutExpired:
            raise Infra("driver timeout: " + " ".join(args))
        if p.returncode != 0:
            # A panic or fatal error raised inside the library (in one of its goroutines, where the
            # harness cannot recover it) kills the driver.  That is behaviour of the code under
            # test: it is recorded as a "crash" event at the end of the trace being written, for
            # which no specification has an action; the remaining scenarios are not run.
            err = p.stderr
            m = re.search(r"^(panic: .*|fatal error: .*)$", err, re.M)
            lib = re.search(r"^github\.com/biogo/hts/[\w/]+\.\S+\(", err, re.M)
            outs = [args[i + 1] for i, a in enumerate(args[:-1]) if a in ("--out", "--out2") and os.path.exists(args[i + 1])]
            if m and lib and outs:
                target = max(outs, key=os.path.getmtime)
                evs = read_ndjson_lenient(target)
                if evs:
                    sc = evs[-1]["sc"]
                    with open(target, "w") as f:
                        for e in evs:
                            f.write(json.dumps(e) + "\n")
                        f.write(json.dumps({"ev": "crash", "sc": sc, "sig": "crash/" + lib.group(0).rstrip("("),
                                            "detail": m.group(1)[:200], "frame": lib.group(0).rstrip("(")}) + "\n")
                    log("driver died inside the library: %s at %s (recorded as crash event, scenario %s)" % (m.group(1)[:80], lib.group(0), sc))
                    return {"lines": len(evs) + 1, "scenarios": len({e["sc"] for e in evs}), "crashed": True}
            raise Infra("driver failed (%d): %s\n%s" % (p.returncode, " ".join(args), (p.stdout + p.stderr)[-4000:]))
        log("driver %s: %.1fs" % (" ".join(args[:3]), time.time() - t0))
        summ = {}
        for line in p.stdout.splitlines():
            if line.startswith("SUMMARY "):
                summ = json.loads(line[len("SUMMARY "):])
        return summ

    def validate(self, moddir, module, cfg, trace_path, is_p=True, **kw):
        v = validate_trace(moddir, module, cfg, trace_path, **kw)
        log("trace %s/%s: %d lines, %d scenarios, %d rejected, %d TLC run(s), %.1fs" %
            (moddir, module, v.lines, v.scenarios, len(v.rejected), v.runs, v.wall))
        if is_p:
            self.traces += v.scenarios
            self.events += v.lines
        self.extra.setdefault("trace_validation", []).append(
            dict(spec="%s/%s" % (moddir, module), lines=v.lines, scenarios=v.scenarios,
                 rejected=len(v.rejected), tlc_states=v.states, wall_s=round(v.wall, 1)))
        for r in v.rejected:
            r["spec"] = "%s/%s" % (moddir, module)
            (self.rejected if is_p else self.drift).append(r)
        return v

    def add_samples(self, trace_path, n=3, maxlines=12):
        try:
            ev = read_ndjson(trace_path)
        except Exception:
            return
        # first n scenarios, truncated
        cur, got = [], 0
        for e in ev:
            if e.get("ev") == "T":
                if cur:
                    self.samples.append(cur[:maxlines])
                    got += 1
                    if got >= n:
                        cur = []
                        break
                cur = []
            cur.append(e)
        if cur and got < n:
            self.samples.append(cur[:maxlines])

    def selftest(self, moddir, module, cfg, trace_path, mutators, max_scen=40, **kw):
        """Demonstrate the binding: each mutator corrupts one recorded field or drops one
        event of an accepted trace; the trace spec must reject every mutated trace."""
        ev = read_ndjson(trace_path)
        # keep the first max_scen scenarios
        cut, n = len(ev), 0
        for i, e in enumerate(ev):
            if e.get("ev") == "T":
                n += 1
                if n > max_scen:
                    cut = i
                    break
        ev = ev[:cut]
        res = []
        for name, mut in mutators:
            m = mut(json.loads(json.dumps(ev)))
            if m is None:
                res.append(dict(mutation=name, applied=False))
                continue
            fd, p = tempfile.mkstemp(prefix="verif-self-", suffix=".ndjson", dir=self.work)
            with os.fdopen(fd, "w") as f:
                for e in m:
                    f.write(json.dumps(e) + "\n")
            v = validate_trace(moddir, module, cfg, p, **kw)
            res.append(dict(mutation=name, applied=True, rejected=len(v.rejected) > 0))
            if not v.rejected:
                raise Infra("binding self-test: mutated trace (%s) was accepted by %s/%s" % (name, moddir, module))
        self.extra.setdefault("binding_selftest", []).extend(res)
        log("binding self-test %s/%s: %d mutated traces, all rejected" % (moddir, module, len([r for r in res if r["applied"]])))
        return res

    # -- verdict
    def finish(self):
        findings, _fixed = load_known()
        viol = []
        known_hit = {}
        for r in self.rejected:
            k = [f for f in findings if f["prop"] == self.prop and f["sig"] == r["sig"]]
            if k:
                known_hit.setdefault(r["sig"], [k[0], 0])
                known_hit[r["sig"]][1] += 1
            else:
                viol.append(r)
        for sig, (f, n) in known_hit.items():
            print("KNOWN-FINDING: property=%s sig=%s %s (%d scenario(s) in this run)" % (self.prop, sig, f["text"], n))
        for d in self.drift[:5]:
            print("MODEL-DRIFT: property=%s spec=%s sig=%s line=%s %s" % (self.prop, d["spec"], d["sig"], d["line"], d["why"]))
            # keep the scenario for analysis (a drift is a lead about the I-spec or a hook, not a verdict)
            try:
                dd = os.path.join(REPLAYS, "drift")
                os.makedirs(dd, exist_ok=True)
                name = "%s-%s-%s.json" % (self.prop, re.sub(r"[^A-Za-z0-9_.-]+", "_", d["sig"])[:60] or "x",
                                          hashlib.sha1(json.dumps(d.get("lines"), sort_keys=True).encode()).hexdigest()[:8])
                json.dump(dict(property=self.prop, spec=d["spec"], why=d["why"], sig=d["sig"], seed=self.seed, tier=self.tier,
                               first_unmatched_line_in_scenario=d.get("first_unmatched"), unmatched_event=d.get("event"),
                               scenario=d.get("lines")), open(os.path.join(dd, name), "w"), indent=1)
            except Exception as ex:
                log("could not keep the drift scenario: %s" % ex)
        rc = 0
        if viol:
            os.makedirs(REPLAYS, exist_ok=True)
            seen = set()
            for r in viol:
                key = r["sig"]
                if key in seen:
                    continue
                seen.add(key)
                name = "%s-%s-%s.json" % (self.prop, re.sub(r"[^A-Za-z0-9_.-]+", "_", r["sig"])[:60] or "x",
                                          hashlib.sha1(json.dumps(r["lines"], sort_keys=True).encode()).hexdigest()[:8])
                path = os.path.join(REPLAYS, name)
                json.dump(dict(property=self.prop, spec=r["spec"], why=r["why"], sig=r["sig"],
                               first_unmatched_line_in_scenario=r["first_unmatched"], unmatched_event=r["event"],
                               seed=self.seed, tier=self.tier, scenario=r["lines"]), open(path, "w"), indent=1)
                print("VIOLATION property=%s replay=%s" % (self.prop, path))
                print("  sig=%s: %s at scenario line %s: %s" % (r["sig"], r["why"], r["first_unmatched"],
                                                              json.dumps(r["event"])[:400]))
                if len(seen) >= 10:
                    break
            rc = 1
        self.write_evidence(len(viol), known_hit)
        shutil.rmtree(self.work, ignore_errors=True)
        return rc

    def write_evidence(self, nviol, known_hit):
        os.makedirs(EVID, exist_ok=True)
        cov = dict(self.extra)
        cov["states"] = max(self.states, 0)
        cov["transitions"] = max(self.transitions, 0)
        cov["traces_validated_against_impl"] = self.traces
        cov["trace_events_validated"] = self.events
        cov["evaluations"] = max(self.evaluations, self.traces)
        cov["distinct_nontrivial"] = self.distinct
        cov["rule"] = self.rule
        cov["samples"] = self.samples[:4] if self.samples else [{"note": "no sample recorded"}]
        cov["model_checking_runs"] = self.mc
        cov["model_drift"] = [dict(spec=d["spec"], sig=d["sig"], why=d["why"]) for d in self.drift[:10]]
        cov["known_findings_hit"] = {k: v[1] for k, v in known_hit.items()}
        if self.exhaustive is not None:
            cov["exhaustive"] = self.exhaustive
        ev = dict(property_id=self.prop, tier=self.tier, seed=self.seed, level=self.level, coverage=cov,
                  assumptions=self.assumptions, wall_s=round(time.time() - self.t0, 1), violations=nviol)
        json.dump(ev, open(os.path.join(EVID, self.prop + ".json"), "w"), indent=1)
