// Package c19 renders FASTA files from layouts and drives fai.NewIndex, WriteTo/ReadFrom and File reads.
package c19

import (
	"bytes"
	"fmt"
	"io"
	"reflect"

	"github.com/biogo/hts/fai"

	"verif/harness/tr"
)

type layout struct {
	name   string
	desc   string
	W, L   int
	term   int
	blanks int
	last   bool
}

func letter(i, p int) byte { return "ACGT"[(i*7+p*p+3*p)%4] }

func render(recs []layout) []byte {
	var b bytes.Buffer
	for i, r := range recs {
		final := i == len(recs)-1
		nl := "\n"
		if r.term == 2 {
			nl = "\r\n"
		}
		n := 0
		if r.L > 0 {
			n = (r.L + r.W - 1) / r.W
		}
		b.WriteString(">" + r.name + r.desc)
		if !(final && n == 0 && r.blanks == 0 && !r.last) {
			b.WriteString(nl)
		}
		for k := 0; k < n; k++ {
			for p := k * r.W; p < (k+1)*r.W && p < r.L; p++ {
				b.WriteByte(letter(i+1, p))
			}
			if !(final && k == n-1 && r.blanks == 0 && !r.last) {
				b.WriteString(nl)
			}
		}
		for k := 0; k < r.blanks; k++ {
			if !(final && k == r.blanks-1 && !r.last) {
				b.WriteString(nl)
			}
		}
	}
	return b.Bytes()
}

func safely(f func()) (res string) {
	res = "nil"
	defer func() {
		if e := recover(); e != nil {
			res = fmt.Sprint("panic: ", e)
		}
	}()
	f()
	return
}

func runFile(t *tr.Writer, class string, recs []layout, ranges func(i int, L int) [][3]int) {
	var lj [][]interface{}
	for _, r := range recs {
		lj = append(lj, []interface{}{1 + len(r.name) + len(r.desc), r.W, r.L, r.term, r.blanks, r.last})
	}
	t.Begin("fai/"+class, tr.M{"recs": lj})
	data := render(recs)
	var idx fai.Index
	var err error
	res := safely(func() { idx, err = fai.NewIndex(bytes.NewReader(data)) })
	if res == "nil" && err != nil {
		res = "err: " + err.Error()
	}
	exact := true
	posok := true
	var ij [][]int64
	if res == "nil" {
		for i, r := range recs {
			x, ok := idx[r.name]
			if !ok {
				res = "err: missing record " + r.name
				break
			}
			ij = append(ij, []int64{int64(x.Length), x.Start, int64(x.BasesPerLine), int64(x.BytesPerLine)})
			if r.L > 64 {
				exact = false
				// positions of a sample of bases, checked against the rendered bytes
				for _, p := range []int{0, 1, r.W - 1, r.W, r.W + 1, r.L / 2, r.L - 1} {
					if p < 0 || p >= r.L || p >= x.Length {
						continue
					}
					if pr := safely(func() {
						if data[x.Position(p)] != letter(i+1, p) {
							posok = false
						}
					}); pr != "nil" {
						posok = false
					}
				}
			}
		}
	}
	if ij == nil {
		ij = [][]int64{}
	}
	t.Ev("index", tr.M{"res": res, "idx": ij, "exact": exact, "posok": posok, "sig": "fai/" + class + "/index"})
	if res != "nil" {
		return
	}
	// WriteTo -> ReadFrom
	var back fai.Index
	rres := safely(func() {
		var buf bytes.Buffer
		if e := fai.WriteTo(&buf, idx); e != nil {
			panic(e)
		}
		var e error
		back, e = fai.ReadFrom(&buf)
		if e != nil {
			panic(e)
		}
	})
	t.Ev("rt", tr.M{"res": rres, "equal": reflect.DeepEqual(back, idx), "sig": "fai/" + class + "/rt"})
	f := fai.NewFile(bytes.NewReader(data), idx)
	for i, r := range recs {
		for _, q := range ranges(i, r.L) {
			s, e, buf := q[0], q[1], q[2]
			var calls [][]interface{}
			var got []byte
			fres := safely(func() {
				sq, err := f.SeqRange(r.name, s, e)
				if err != nil {
					panic(err)
				}
				for c := 0; c < e-s+3; c++ {
					p := make([]byte, buf)
					n, err := sq.Read(p)
					got = append(got, p[:n]...)
					ec := "nil"
					if err == io.EOF {
						ec = "EOF"
					} else if err != nil {
						ec = "other"
					}
					calls = append(calls, []interface{}{n, ec})
					if err != nil {
						break
					}
				}
			})
			if calls == nil {
				calls = [][]interface{}{}
			}
			m := tr.M{"rec": i + 1, "s": s, "e": e, "buf": buf, "calls": calls, "res": fres, "sig": "fai/" + class + "/read"}
			if e-s <= 64 {
				bs := make([]int, len(got))
				for k, c := range got {
					bs[k] = bytes.IndexByte([]byte("ACGT"), c)
				}
				m["bases"] = bs
			} else {
				ok := len(got) == e-s
				for k := 0; ok && k < len(got); k++ {
					ok = got[k] == letter(i+1, s+k)
				}
				m["dok"] = ok
			}
			t.Ev("fread", m)
		}
	}
}

func Run(out string) {
	t := tr.Create(out)
	defer t.Close()
	r := tr.Rand(19)
	maxW, maxL := 2, 4
	nrand := 40
	if tr.Tier() == "thorough" {
		maxW, maxL = 3, 6
		nrand = 600
	}
	allRanges := func(i, L int) [][3]int {
		var out [][3]int
		for s := 0; s <= L; s++ {
			for e := s; e <= L; e++ {
				out = append(out, [3]int{s, e, 1 + (s+e+i)%4})
			}
		}
		return out
	}
	// model layouts: one and two records over W, L, terminator, blank lines, final newline, description
	for W := 1; W <= maxW; W++ {
		for L := 1; L <= maxL; L++ {
			for _, term := range []int{1, 2} {
				for _, blanks := range []int{0, 1} {
					for _, last := range []bool{true, false} {
						runFile(t, "model1", []layout{{"s1", "", W, L, term, blanks, last}}, allRanges)
						desc := ""
						if (W+L)%2 == 0 {
							desc = " a description"
						}
						runFile(t, "model2", []layout{{"s1", desc, W, L, term, blanks, true}, {"seq2", "", 1 + L%maxW, 1 + (L+W)%maxL, term, 0, last}}, allRanges)
					}
				}
			}
		}
	}
	// edge cases: a record without bases (followed by another record), names with a double quote
	runFile(t, "edge-empty", []layout{{"e1", "", 3, 0, 1, 0, true}, {"s2", "", 3, 5, 1, 0, true}}, allRanges)
	runFile(t, "edge-empty", []layout{{"s1", "", 3, 5, 1, 0, true}, {"e2", " nothing", 3, 0, 1, 0, true}}, allRanges)
	runFile(t, "edge-quote", []layout{{"a\"b", "", 3, 5, 1, 0, true}, {"s2", "", 2, 4, 1, 0, true}}, allRanges)
	runFile(t, "edge-quote", []layout{{"\"q", " d", 3, 5, 1, 0, true}}, allRanges)
	// names made of characters that mean something to the readers of delimited text (comment
	// and separator characters, quotes other than the double quote, non-ASCII)
	for i, nm := range []string{"#2", "a#b", "a,b", ",c", "'q'", "s;t", "x|y", "\\n", "\u00e9\u00df", "=1", "-", "*"} {
		runFile(t, "edge-name", []layout{{"s1", "", 3, 5, 1, 0, true}, {nm, "", 2 + i%2, 4, 1 + i%2, 0, true}, {"s3", " d", 3, 2, 1, 0, i%2 == 0}}, allRanges)
	}
	// real scale
	someRanges := func(i, L int) [][3]int {
		var out [][3]int
		for k := 0; k < 6; k++ {
			s := r.Intn(L + 1)
			e := s + r.Intn(L-s+1)
			if k == 0 {
				s, e = 0, L
			}
			out = append(out, [3]int{s, e, []int{1, 7, 60, 61, 4096}[r.Intn(5)]})
		}
		return out
	}
	for i := 0; i < nrand; i++ {
		var recs []layout
		term := 1 + r.Intn(2)
		n := 1 + r.Intn(4)
		for k := 0; k < n; k++ {
			W := []int{1, 50, 60, 61, 70, 120}[r.Intn(6)]
			L := []int{1, W - 1, W, W + 1, 2 * W, 3*W - 1, r.Intn(5000) + 1}[r.Intn(7)]
			if L < 1 {
				L = 1
			}
			desc := ""
			if r.Intn(2) == 0 {
				desc = []string{" desc", "\tdesc with\ttabs", " x y z"}[r.Intn(3)]
			}
			recs = append(recs, layout{fmt.Sprintf("chr%d_%d", k+1, r.Intn(100)), desc, W, L, term, []int{0, 0, 1, 2}[r.Intn(4)], true})
		}
		recs[n-1].last = r.Intn(2) == 0
		runFile(t, "random", recs, someRanges)
	}
	tr.Summary(tr.M{"scenarios": t.Scen, "lines": t.Lines, "sigs": t.Sigs()})
}
