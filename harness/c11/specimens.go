package c11

import (
	"bytes"
	"compress/flate"
	"compress/gzip"
	"encoding/binary"
	"fmt"
	"hash/crc32"
	"math"
)

// Specimen builders.  The field names and kinds are those of Grammar.tla's Schema.

// ---- BGZF ------------------------------------------------------------------------------

func deflate(p []byte) []byte {
	var body bytes.Buffer
	fw, _ := flate.NewWriter(&body, 1)
	fw.Write(p)
	fw.Close()
	return body.Bytes()
}

func bgzfMember(b *B, payload []byte) {
	m := b.sub()
	m.u8("id1", "magic", 0x1f)
	m.u8("id2", "magic", 0x8b)
	m.u8("cm", "int", 8)
	m.u8("flg", "int", 4)
	m.i32("mtime", "int", 0)
	m.u8("xfl", "int", 0)
	m.u8("os", "int", 0xff)
	m.u16("xlen", "len", 6)
	m.u8("si1", "magic", 'B')
	m.u8("si2", "magic", 'C')
	m.u16("slen", "len", 2)
	cd := b.sub()
	cd.put("cdata", "bytes", deflate(payload))
	m.u16("bsize", "len", 18+len(cd.buf)+8-1)
	m.add(cd)
	m.put("crc", "int", le(uint64(crc32.ChecksumIEEE(payload)), 4))
	m.put("isize", "len", le(uint64(len(payload)), 4))
	b.add(m)
}

func texture(n, salt int) []byte {
	p := make([]byte, n)
	for i := range p {
		p[i] = byte((i*i + 3*i + salt) % 251)
	}
	return p
}

func specBGZF(b *B) {
	bgzfMember(b, texture(300, 1))
	bgzfMember(b, texture(70000-65280, 2))
	bgzfMember(b, nil)
}

// wrap puts a payload in well-formed BGZF members (not recorded as fields)
func wrap(payload []byte) []byte {
	var out []byte
	for len(payload) > 0 {
		n := len(payload)
		if n > 0xff00 {
			n = 0xff00
		}
		nb := newB(nil, nil)
		bgzfMember(nb, payload[:n])
		out = append(out, nb.buf...)
		payload = payload[n:]
	}
	nb := newB(nil, nil)
	bgzfMember(nb, nil)
	return append(out, nb.buf...)
}

// ---- BAM -------------------------------------------------------------------------------

const bamText = "@HD\tVN:1.6\tSO:coordinate\n@SQ\tSN:chr1\tLN:100000\n@SQ\tSN:chr2\tLN:200000\n@RG\tID:g1\tSM:s\n"

func bamHeader(b *B) {
	b.str("bam_magic", "magic", "BAM\x01")
	b.i32("l_text", "len", len(bamText))
	b.str("text", "bytes", bamText)
	b.i32("n_ref", "count", 2)
	for i, n := range []string{"chr1", "chr2"} {
		b.i32("l_name", "len", len(n)+1)
		b.str("name", "nul", n+"\x00")
		b.i32("l_ref", "int", 100000*(i+1))
	}
}

type auxSpec struct {
	tag string
	typ byte
	val []byte // fixed-width value, or string with NUL, or array payload
	sub byte
	cnt int
}

func bamRecord(b *B, name string, ref, pos int, ops []uint32, seqLen int, auxs []auxSpec) {
	body := b.sub()
	body.i32("refID", "int", ref)
	body.i32("pos", "int", pos)
	body.u8("l_read_name", "len", len(name)+1)
	body.u8("mapq", "int", 30)
	body.u16("bin", "int", 4681)
	body.u16("n_cigar_op", "count", len(ops))
	body.u16("flag", "int", 0x63)
	body.i32("l_seq", "len", seqLen)
	body.i32("next_refID", "int", ref)
	body.i32("next_pos", "int", pos+100)
	body.i32("tlen", "int", 150)
	body.str("read_name", "nul", name+"\x00")
	for _, op := range ops {
		body.put("cigar_op", "int", le(uint64(op), 4))
	}
	body.put("seq", "bytes", texture((seqLen+1)/2, 5))
	q := make([]byte, seqLen)
	for i := range q {
		q[i] = byte(20 + i%20)
	}
	body.put("qual", "bytes", q)
	for _, a := range auxs {
		body.str("aux_tag", "tag", a.tag)
		body.put("aux_type", "tag", []byte{a.typ})
		switch a.typ {
		case 'Z', 'H':
			body.put("aux_str", "nul", a.val)
		case 'B':
			body.put("aux_sub", "tag", []byte{a.sub})
			body.i32("aux_cnt", "count", a.cnt)
			body.put("aux_arr", "bytes", a.val)
		default:
			body.put("aux_val", "int", a.val)
		}
	}
	b.i32("block_size", "len", len(body.buf))
	b.add(body)
}

func allAux() []auxSpec {
	f := make([]byte, 4)
	binary.LittleEndian.PutUint32(f, math.Float32bits(1.5))
	return []auxSpec{
		{tag: "XA", typ: 'A', val: []byte{'q'}},
		{tag: "Xc", typ: 'c', val: le(0xfe, 1)},
		{tag: "XC", typ: 'C', val: le(200, 1)},
		{tag: "Xs", typ: 's', val: le(0xfffe, 2)},
		{tag: "XS", typ: 'S', val: le(60000, 2)},
		{tag: "Xi", typ: 'i', val: le(0xfffffffe, 4)},
		{tag: "XI", typ: 'I', val: le(4000000000, 4)},
		{tag: "Xf", typ: 'f', val: f},
		{tag: "XZ", typ: 'Z', val: []byte("some text\x00")},
		{tag: "XH", typ: 'H', val: []byte("1AE301\x00")},
		{tag: "Xb", typ: 'B', sub: 'c', cnt: 3, val: []byte{1, 2, 3}},
		{tag: "XB", typ: 'B', sub: 'S', cnt: 2, val: []byte{1, 0, 2, 0}},
		{tag: "Xg", typ: 'B', sub: 'f', cnt: 1, val: f},
		{tag: "XE", typ: 'B', sub: 'i', cnt: 0, val: nil},
	}
}

func op(n int, t uint32) uint32 { return uint32(n)<<4 | t }

func specBAMPayload(b *B) {
	bamHeader(b)
	bamRecord(b, "read/1", 0, 1000, []uint32{op(2, 4), op(40, 0), op(3, 2), op(8, 0)}, 50, allAux())
	bamRecord(b, "unmapped", -1, -1, nil, 0, nil)
	bamRecord(b, "r3", 1, 70000, []uint32{op(5, 0), op(100, 3), op(5, 7), op(1, 1), op(2, 8), op(3, 5)}, 13, []auxSpec{{tag: "NM", typ: 'C', val: []byte{1}}})
}

func specBAMHeaderOnly(b *B) { bamHeader(b) }

// a header with more references than any fixed-size table a decoder might keep (1003)
func specBAMHeaderMany(b *B) {
	const text = "@HD\tVN:1.6\tSO:unsorted\n"
	b.str("bam_magic", "magic", "BAM\x01")
	b.i32("l_text", "len", len(text))
	b.str("text", "bytes", text)
	b.i32("n_ref", "count", 1003)
	for i := 0; i < 1003; i++ {
		n := fmt.Sprintf("c%04d", i)
		b.i32("l_name", "len", len(n)+1)
		b.str("name", "nul", n+"\x00")
		b.i32("l_ref", "int", 1000+i)
	}
}

// ---- BAI / tabix / CSI -----------------------------------------------------------------

func voff(file, block int) uint64 { return uint64(file)<<16 | uint64(block) }

func binIndex(b *B, nref int) {
	for r := 0; r < nref; r++ {
		b.i32("n_bin", "count", 3)
		for k, bin := range []int{4681 + r, 585, 37450} {
			b.put("bin", "int", le(uint64(bin), 4))
			if bin == 37450 {
				b.i32("n_chunk", "count", 2)
				b.u64("stat_beg", "int", voff(100, 0))
				b.u64("stat_end", "int", voff(900, 10))
				b.u64("stat_mapped", "int", 12)
				b.u64("stat_unmapped", "int", 1)
				continue
			}
			b.i32("n_chunk", "count", 2)
			for c := 0; c < 2; c++ {
				b.u64("chunk_beg", "int", voff(100+200*k+50*c, 7))
				b.u64("chunk_end", "int", voff(100+200*k+50*c+40, 9))
			}
		}
		b.i32("n_intv", "count", 3)
		for t := 0; t < 3; t++ {
			b.u64("ioffset", "int", voff(100+100*t, 3))
		}
	}
	b.u64("n_no_coor", "int", 5)
}

func specBAI(b *B) {
	b.str("bai_magic", "magic", "BAI\x01")
	b.i32("n_ref", "count", 2)
	binIndex(b, 2)
}

func specTabix(b *B) {
	b.str("tbi_magic", "magic", "TBI\x01")
	b.i32("n_ref", "count", 2)
	b.i32("format", "int", 2)
	b.i32("col_seq", "int", 1)
	b.i32("col_beg", "int", 2)
	b.i32("col_end", "int", 0)
	b.i32("meta", "int", '#')
	b.i32("skip", "int", 0)
	names := "chr1\x00chr2\x00"
	b.i32("l_nm", "len", len(names))
	b.str("names", "nul", names)
	binIndex(b, 2)
}

func specCSI(version int) func(*B) {
	return func(b *B) {
		b.str("csi_magic", "magic", "CSI")
		b.u8("csi_version", "int", version)
		b.i32("min_shift", "int", 14)
		b.i32("depth", "int", 5)
		b.i32("l_aux", "len", 4)
		b.str("aux", "bytes", "abcd")
		b.i32("n_ref", "count", 2)
		for r := 0; r < 2; r++ {
			b.i32("n_bin", "count", 3)
			for k, bin := range []int{4681 + r, 585, 37450} {
				b.put("bin", "int", le(uint64(bin), 4))
				b.u64("loffset", "int", voff(100, 0))
				if version == 2 {
					b.u64("n_rec", "int", 3)
				}
				if bin == 37450 {
					b.i32("n_chunk", "count", 2)
					b.u64("stat_beg", "int", voff(100, 0))
					b.u64("stat_end", "int", voff(900, 10))
					b.u64("stat_mapped", "int", 12)
					b.u64("stat_unmapped", "int", 1)
					continue
				}
				b.i32("n_chunk", "count", 2)
				for c := 0; c < 2; c++ {
					b.u64("chunk_beg", "int", voff(100+200*k+50*c, 7))
					b.u64("chunk_end", "int", voff(100+200*k+50*c+40, 9))
				}
			}
		}
		b.u64("n_no_coor", "int", 5)
	}
}

// ---- FAI / FASTA -----------------------------------------------------------------------

func specFAI(b *B) {
	// (the last sequence fills exactly one line: its length equals the line's width in bases)
	for i, r := range [][5]int{{0, 250, 6, 60, 61}, {1, 1000, 270, 70, 72}, {2, 80, 1310, 80, 81}} {
		b.str("fai_name", "col", fmt.Sprintf("seq%d", i+1))
		b.str("tab", "sep", "\t")
		b.str("fai_length", "num", fmt.Sprint(r[1]))
		b.str("tab", "sep", "\t")
		b.str("fai_offset", "num", fmt.Sprint(r[2]))
		b.str("tab", "sep", "\t")
		b.str("fai_linebases", "num", fmt.Sprint(r[3]))
		b.str("tab", "sep", "\t")
		b.str("fai_linewidth", "num", fmt.Sprint(r[4]))
		b.str("nl", "sep", "\n")
	}
}

func specFASTA(b *B) {
	for i := 0; i < 2; i++ {
		b.str("gt", "tag", ">")
		b.str("fa_name", "col", fmt.Sprintf("seq%d", i+1))
		b.str("space", "sep", " ")
		b.str("fa_desc", "col", "a description")
		b.str("nl", "sep", "\n")
		for l := 0; l < 3; l++ {
			n := 8
			if l == 2 {
				n = 5
			}
			b.str("bases", "col", "ACGTACGTAC"[:n])
			b.str("nl", "sep", "\n")
		}
	}
}

// ---- SAM text --------------------------------------------------------------------------

func tagval(b *B, line, tag, kind, val string) {
	b.str("tab", "sep", "\t")
	b.str(line+"_tag", "tag", tag)
	b.str("colon", "sep", ":")
	b.str(line+"_"+tag, kind, val)
}

func specSAMHeader(b *B) {
	b.str("hd_code", "tag", "@HD")
	tagval(b, "hd", "VN", "col", "1.6")
	tagval(b, "hd", "SO", "col", "coordinate")
	tagval(b, "hd", "GO", "col", "none")
	b.str("nl", "sep", "\n")
	for i, n := range []string{"chr1", "chr2"} {
		b.str("sq_code", "tag", "@SQ")
		tagval(b, "sq", "SN", "col", n)
		tagval(b, "sq", "LN", "num", fmt.Sprint(100000*(i+1)))
		tagval(b, "sq", "AS", "col", "GRCh38")
		tagval(b, "sq", "M5", "col", "7ad3a6b8ab9d6d3d1d4d4d1c5c9b6e1f")
		tagval(b, "sq", "SP", "col", "human")
		tagval(b, "sq", "UR", "col", "file:///ref.fa")
		b.str("nl", "sep", "\n")
	}
	b.str("rg_code", "tag", "@RG")
	tagval(b, "rg", "ID", "col", "g1")
	tagval(b, "rg", "CN", "col", "centre")
	tagval(b, "rg", "DS", "col", "description")
	tagval(b, "rg", "DT", "col", "2020-01-02T03:04:05Z")
	tagval(b, "rg", "FO", "col", "ACMG")
	tagval(b, "rg", "KS", "col", "ACGT")
	tagval(b, "rg", "LB", "col", "lib")
	tagval(b, "rg", "PG", "col", "p1")
	tagval(b, "rg", "PI", "num", "300")
	tagval(b, "rg", "PL", "col", "ILLUMINA")
	tagval(b, "rg", "PU", "col", "unit")
	tagval(b, "rg", "SM", "col", "sample")
	b.str("nl", "sep", "\n")
	for i := 0; i < 2; i++ {
		b.str("pg_code", "tag", "@PG")
		tagval(b, "pg", "ID", "col", fmt.Sprintf("p%d", i+1))
		tagval(b, "pg", "PN", "col", "prog")
		tagval(b, "pg", "CL", "col", "prog -x y")
		if i == 1 {
			tagval(b, "pg", "PP", "col", "p1")
		}
		tagval(b, "pg", "VN", "col", "0.1")
		b.str("nl", "sep", "\n")
	}
	b.str("co_code", "tag", "@CO")
	b.str("tab", "sep", "\t")
	b.str("co_text", "col", "a comment")
	b.str("nl", "sep", "\n")
}

type samAux struct{ tag, typ, sub, val string }

func samRecordLine(b *B, name, ref string, pos int, cigar, mref string, seq, qual string, auxs []samAux) {
	b.str("qname", "col", name)
	b.str("tab", "sep", "\t")
	b.str("sflag", "num", "99")
	b.str("tab", "sep", "\t")
	b.str("rname", "col", ref)
	b.str("tab", "sep", "\t")
	b.str("spos", "num", fmt.Sprint(pos))
	b.str("tab", "sep", "\t")
	b.str("smapq", "num", "30")
	b.str("tab", "sep", "\t")
	samCigar(b, cigar)
	b.str("tab", "sep", "\t")
	b.str("rnext", "col", mref)
	b.str("tab", "sep", "\t")
	b.str("pnext", "num", fmt.Sprint(pos+100))
	b.str("tab", "sep", "\t")
	b.str("stlen", "num", "150")
	b.str("tab", "sep", "\t")
	b.str("sseq", "col", seq)
	b.str("tab", "sep", "\t")
	b.str("squal", "col", qual)
	for _, a := range auxs {
		b.str("tab", "sep", "\t")
		samAuxText(b, a)
	}
}

// samCigar emits a CIGAR string as <oplen><op> pairs, or "*"
func samCigar(b *B, c string) {
	if c == "*" {
		b.str("cigar_star", "col", "*")
		return
	}
	i := 0
	for i < len(c) {
		j := i
		for j < len(c) && c[j] >= '0' && c[j] <= '9' {
			j++
		}
		b.str("oplen", "num", c[i:j])
		b.str("op", "tag", c[j:j+1])
		i = j + 1
	}
}

func samAuxText(b *B, a samAux) {
	b.str("aux_tag", "tag", a.tag)
	b.str("colon", "sep", ":")
	b.str("aux_type", "tag", a.typ)
	b.str("colon", "sep", ":")
	if a.typ == "B" {
		b.str("aux_sub", "tag", a.sub)
		for _, e := range bytes.Split([]byte(a.val), []byte(",")) {
			if len(e) == 0 {
				continue
			}
			b.str("comma", "sep", ",")
			b.str("aux_elem", "num", string(e))
		}
		return
	}
	if a.typ == "i" || a.typ == "f" {
		b.str("aux_num", "num", a.val)
		return
	}
	b.str("aux_val", "col", a.val)
}

var samAuxAll = []samAux{
	{"XA", "A", "", "q"}, {"Xi", "i", "", "-12345"}, {"XI", "i", "", "4000000000"}, {"Xf", "f", "", "1.5e3"},
	{"XZ", "Z", "", "some text"}, {"XH", "H", "", "1AE301"}, {"Xb", "B", "c", "1,-2,3"}, {"XB", "B", "S", "1,65535"},
	{"Xg", "B", "f", "1.5,2"}, {"XE", "B", "i", ""},
}

func specSAMRecord(b *B) {
	samRecordLine(b, "read/1", "chr1", 1001, "2S40M3D8M", "=", "ACGTACGTACGTACGTACGTACGTACGTACGTACGTACGTACGTACGTAC", "IIIIIIIIIIIIIIIIIIIIIIIIIIIIIIIIIIIIIIIIIIIIIIIIII", samAuxAll)
}

func specSAMRecord2(b *B) {
	samRecordLine(b, "u", "*", 0, "*", "*", "*", "*", nil)
}

func specSAMFile(b *B) {
	specSAMHeader(b)
	samRecordLine(b, "read/1", "chr1", 1001, "4M", "chr2", "ACGT", "IIII", samAuxAll[:3])
	b.str("nl", "sep", "\n")
	samRecordLine(b, "read/2", "chr2", 5, "2M1I1M", "=", "ACGT", "*", nil)
	b.str("nl", "sep", "\n")
}

func specSAMFileNoHeader(b *B) {
	samRecordLine(b, "read/1", "chr1", 1001, "4M", "chr2", "ACGT", "IIII", samAuxAll[3:6])
	b.str("nl", "sep", "\n")
	samRecordLine(b, "read/2", "chr2", 5, "2M1I1M", "=", "ACGT", "*", nil)
	b.str("nl", "sep", "\n")
}

func specAuxText(i int) func(*B) { return func(b *B) { samAuxText(b, samAuxAll[i]) } }

func specCigarText(b *B) { samCigar(b, "5M100N5=1I2X3H") }

// ---- CRAM ------------------------------------------------------------------------------

func gz(p []byte) []byte {
	var buf bytes.Buffer
	w := gzip.NewWriter(&buf)
	w.Write(p)
	w.Close()
	return buf.Bytes()
}

// cramBlock emits one block; content builds the (uncompressed) data, method 0 (raw) or 1 (gzip)
func cramBlock(b *B, method, typ, contentID int, content func(*B)) {
	blk := b.sub()
	data := b.sub()
	content(data)
	raw := data.buf
	blk.u8("b_method", "int", method)
	blk.u8("b_type", "int", typ)
	blk.put("b_contentid", "itf", encITF(int32(contentID)))
	if method == 1 {
		z := gz(raw)
		blk.put("b_csize", "icount", encITF(int32(len(z))))
		blk.put("b_rsize", "icount", encITF(int32(len(raw))))
		blk.put("b_gzdata", "bytes", z)
	} else {
		blk.put("b_csize", "icount", encITF(int32(len(raw))))
		blk.put("b_rsize", "icount", encITF(int32(len(raw))))
		blk.add(data)
	}
	blk.put("b_crc", "int", le(uint64(crc32.ChecksumIEEE(blk.buf)), 4))
	b.add(blk)
}

func cramContainer(b *B, refID, nrec, nblocks int, landmarks []int, blocks func(*B)) {
	bl := b.sub()
	blocks(bl)
	h := b.sub()
	h.i32("c_len", "len", len(bl.buf))
	h.put("c_refid", "itf", encITF(int32(refID)))
	h.put("c_start", "itf", encITF(100))
	h.put("c_span", "itf", encITF(5000))
	h.put("c_nrec", "itf", encITF(int32(nrec)))
	h.put("c_reccount", "ltf", encLTF(12345))
	h.put("c_bases", "ltf", encLTF(1<<40))
	h.put("c_blocks", "itf", encITF(int32(nblocks)))
	h.put("c_nlandmarks", "icount", encITF(int32(len(landmarks))))
	for _, l := range landmarks {
		h.put("c_landmark", "itf", encITF(int32(l)))
	}
	h.put("c_crc", "int", le(uint64(crc32.ChecksumIEEE(h.buf)), 4))
	b.add(h)
	b.add(bl)
}

func specCRAM(b *B) {
	b.str("cram_magic", "magic", "CRAM")
	b.u8("cram_major", "int", 3)
	b.u8("cram_minor", "int", 0)
	b.put("cram_id", "bytes", texture(20, 9))
	text := "@HD\tVN:1.6\tSO:coordinate\n@SQ\tSN:chr1\tLN:100000\n"
	fileHeader := func(d *B) {
		d.i32("fh_len", "len", len(text))
		d.str("fh_text", "bytes", text)
	}
	cramContainer(b, 0, 0, 1, nil, func(x *B) { cramBlock(x, 0, 0, 0, fileHeader) })
	cramContainer(b, 0, 0, 1, nil, func(x *B) { cramBlock(x, 1, 0, 0, fileHeader) })
	cramContainer(b, 0, 10, 4, []int{20}, func(x *B) {
		cramBlock(x, 0, 1, 0, func(d *B) { d.put("comp_hdr", "bytes", texture(20, 3)) })
		cramBlock(x, 0, 2, 0, func(d *B) {
			d.put("s_refid", "itf", encITF(0))
			d.put("s_start", "itf", encITF(100))
			d.put("s_span", "itf", encITF(5000))
			d.put("s_nrec", "itf", encITF(10))
			d.put("s_reccount", "ltf", encLTF(12345))
			d.put("s_blocks", "itf", encITF(2))
			d.put("s_nblockids", "icount", encITF(2))
			d.put("s_blockid", "itf", encITF(1))
			d.put("s_blockid", "itf", encITF(2))
			d.put("s_embedded", "itf", encITF(-1))
			d.put("s_md5", "bytes", texture(16, 4))
			d.put("s_tags", "bytes", []byte("XXZabc\x00"))
		})
		cramBlock(x, 1, 4, 1, func(d *B) { d.put("ext_data", "bytes", texture(100, 6)) })
		cramBlock(x, 0, 5, 0, func(d *B) { d.put("core_data", "bytes", texture(30, 7)) })
	})
	// the EOF container of CRAM 3.0
	cramContainer(b, -1, 0, 1, nil, func(x *B) {
		cramBlock(x, 0, 1, 0, func(d *B) { d.put("comp_hdr", "bytes", []byte{1, 0, 1, 0, 1, 0}) })
	})
}

// ---- ITF-8 / LTF-8 ---------------------------------------------------------------------

func specITF(v int32) func(*B) { return func(b *B) { b.put("itf", "itf", encITF(v)) } }
func specLTF(v int64) func(*B) { return func(b *B) { b.put("ltf", "ltf", encLTF(v)) } }
func specITFSlice(b *B) {
	b.put("n_itf", "icount", encITF(3))
	for _, v := range []int32{1, 300, -1} {
		b.put("itf_elem", "itf", encITF(v))
	}
}
