package c11

import (
	"bytes"
	"errors"
	"fmt"
	"io"

	"github.com/biogo/hts/bam"
	"github.com/biogo/hts/bgzf"
	"github.com/biogo/hts/bgzf/index"
	"github.com/biogo/hts/cram"
	"github.com/biogo/hts/cram/encoding/itf8"
	"github.com/biogo/hts/cram/encoding/ltf8"
	"github.com/biogo/hts/csi"
	"github.com/biogo/hts/fai"
	"github.com/biogo/hts/sam"
	"github.com/biogo/hts/tabix"
)

// Decoder is one decoder of the library with its specimens and the accessor battery that is
// run over every value it returns without error.
type Decoder struct {
	Name  string
	Specs []func(*B)
	Wrap  bool // the decoder reads the encoding through a BGZF stream
	Run   func(data []byte) error
}

var errNilValue = errors.New("nil value")

const maxItems = 200

func drain(r io.Reader) error {
	buf := make([]byte, 4096)
	for n := 0; n < 1<<14; n++ {
		_, err := r.Read(buf)
		if err == io.EOF {
			return nil
		}
		if err != nil {
			return err
		}
	}
	return nil
}

// ---- accessor batteries -----------------------------------------------------------------

func useHeader(h *sam.Header) {
	if h == nil {
		return
	}
	h.MarshalText()
	h.MarshalBinary()
	c := h.Clone()
	for _, r := range c.Refs() {
		_ = r.String()
		r.Name()
		r.Len()
		r.ID()
		r.MD5()
		r.URI()
		r.AssemblyID()
		r.Species()
		r.Get(sam.NewTag("AS"))
		r.Tags(func(sam.Tag, string) {})
		r.Clone()
	}
	for _, g := range c.RGs() {
		_ = g.String()
		g.Name()
		g.ID()
		g.Clone()
		g.Tags(func(sam.Tag, string) {})
		g.Time()
	}
	for _, p := range c.Progs() {
		_ = p.String()
		p.Name()
		p.ID()
		p.UID()
		p.Clone()
		p.Tags(func(sam.Tag, string) {})
	}
	h.Tags(func(sam.Tag, string) {})
	h.Get(sam.NewTag("SS"))
	var buf bytes.Buffer
	if w, err := bam.NewWriter(&buf, h, 1); err == nil {
		w.Close()
	}
	sam.NewWriter(&buf, h, sam.FlagDecimal)
	sam.MergeHeaders([]*sam.Header{h, c})
}

func useRecord(h *sam.Header, r *sam.Record, bw *bam.Writer, bi *bam.Index) {
	if r == nil {
		return
	}
	_ = r.String()
	r.MarshalSAM(sam.FlagDecimal)
	r.MarshalSAM(sam.FlagHex)
	r.MarshalSAM(sam.FlagString)
	r.MarshalText()
	r.Bin()
	r.Start()
	r.End()
	r.Len()
	r.RefID()
	r.Strand()
	r.LessByName(r)
	r.LessByCoordinate(r)
	r.Tag([]byte("NM"))
	_ = r.Cigar.String()
	r.Cigar.IsValid(r.Seq.Length)
	r.Cigar.Lengths()
	for _, co := range r.Cigar {
		co.Type().Consumes()
		_ = co.Type().String()
		_ = co.String()
		co.Len()
	}
	r.Seq.Expand()
	for _, a := range r.AuxFields {
		_ = a.String()
		a.Value()
		a.Tag()
		a.Type()
		a.Kind()
	}
	if h != nil {
		h.Validate(r)
	}
	if bw != nil {
		bw.Write(r)
	}
	if bi != nil {
		bi.Add(r, bgzf.Chunk{Begin: bgzf.Offset{File: 10, Block: 0}, End: bgzf.Offset{File: 10, Block: 100}})
	}
}

type binIdx interface {
	NumRefs() int
	ReferenceStats(int) (index.ReferenceStats, bool)
	Unmapped() (uint64, bool)
	MergeChunks(index.MergeStrategy)
}

func useIndexCommon(x binIdx) {
	n := x.NumRefs()
	for i := 0; i < n && i < maxItems; i++ {
		x.ReferenceStats(i)
	}
	x.Unmapped()
	x.MergeChunks(index.Adjacent)
	x.MergeChunks(index.Squash)
	x.MergeChunks(index.CompressorStrategy(1 << 16))
}

// ---- decoders ------------------------------------------------------------------------------

func decBGZF(data []byte) error {
	var first error
	for _, rd := range []int{1, 2} {
		r, err := bgzf.NewReader(bytes.NewReader(data), rd)
		if err != nil {
			if first == nil {
				first = err
			}
			continue
		}
		if err := drain(r); err != nil && first == nil {
			first = err
		}
		r.LastChunk()
		r.Seek(bgzf.Offset{})
		r.ReadByte()
		r.Close()
	}
	bgzf.HasEOF(bytes.NewReader(data))
	return first
}

func decBAM(data []byte) error {
	var first error
	for omit := 0; omit < 3; omit++ {
		br, err := bam.NewReader(bytes.NewReader(data), 1)
		if err != nil {
			return err
		}
		br.Omit(omit)
		h := br.Header()
		if omit == 0 {
			useHeader(h)
		}
		var buf bytes.Buffer
		bw, _ := bam.NewWriter(&buf, h.Clone(), 1)
		bi := &bam.Index{}
		for n := 0; n < maxItems; n++ {
			rec, err := br.Read()
			if err != nil {
				if err != io.EOF && first == nil {
					first = err
				}
				break
			}
			useRecord(h, rec, bw, bi)
			br.LastChunk()
		}
		if bw != nil {
			bw.Close()
		}
		var ib bytes.Buffer
		bam.WriteIndex(&ib, bi)
		br.Close()
	}
	return first
}

func decBAMHeader(data []byte) error {
	var h sam.Header
	if err := h.DecodeBinary(bytes.NewReader(data)); err != nil {
		var h2 sam.Header
		h2.UnmarshalBinary(data)
		return err
	}
	useHeader(&h)
	var h2 sam.Header
	if err := h2.UnmarshalBinary(data); err == nil {
		useHeader(&h2)
	}
	return nil
}

func refsFor(n int) []*sam.Reference {
	var refs []*sam.Reference
	for i := 0; i < n && i < 8; i++ {
		r, _ := sam.NewReference(fmt.Sprintf("chr%d", i+1), "", "", 1<<29-1, nil, nil)
		refs = append(refs, r)
	}
	sam.NewHeader(nil, refs)
	return refs
}

func decBAI(data []byte) error {
	idx, err := bam.ReadIndex(bytes.NewReader(data))
	if err != nil {
		return err
	}
	useIndexCommon(idx)
	for _, r := range refsFor(idx.NumRefs() + 1) {
		idx.Chunks(r, 0, 1<<29-1)
		idx.Chunks(r, 1000, 70000)
	}
	var buf bytes.Buffer
	bam.WriteIndex(&buf, idx)
	return nil
}

type tbxRec struct {
	name       string
	start, end int
}

func (r tbxRec) RefName() string { return r.name }
func (r tbxRec) Start() int      { return r.start }
func (r tbxRec) End() int        { return r.end }

func decTabix(data []byte) error {
	idx, err := tabix.ReadFrom(bytes.NewReader(data))
	if err != nil {
		return err
	}
	useIndexCommon(idx)
	names := idx.Names()
	idx.IDs()
	for i, n := range names {
		if i >= maxItems {
			break
		}
		idx.Chunks(n, 0, 1<<29-1)
		idx.Chunks(n, 1000, 70000)
	}
	idx.Chunks("absent", 0, 10)
	var buf bytes.Buffer
	tabix.WriteTo(&buf, idx)
	return nil
}

func decCSI(data []byte) error {
	idx, err := csi.ReadFrom(bytes.NewReader(data))
	if err != nil {
		return err
	}
	useIndexCommon(idx)
	for i := 0; i <= idx.NumRefs() && i < maxItems; i++ {
		// (a query far beyond the range the index's own min_shift/depth can address costs one
		// list entry per smallest bin: kept moderate, the geometry is not visible through the API)
		idx.Chunks(i, 0, 1<<20)
		idx.Chunks(i, 1000, 70000)
	}
	var buf bytes.Buffer
	csi.WriteTo(&buf, idx)
	return nil
}

type zeros int64

func (z zeros) ReadAt(p []byte, off int64) (int, error) {
	if off >= int64(z) {
		return 0, io.EOF
	}
	n := len(p)
	if int64(n) > int64(z)-off {
		n = int(int64(z) - off)
	}
	for i := 0; i < n; i++ {
		p[i] = 'A'
	}
	if n < len(p) {
		return n, io.EOF
	}
	return n, nil
}

func useFai(idx fai.Index, src io.ReaderAt) {
	var buf bytes.Buffer
	fai.WriteTo(&buf, idx)
	f := fai.NewFile(src, idx)
	n := 0
	for name, rec := range idx {
		if n++; n > maxItems {
			break
		}
		if rec.Length > 0 { // Position panics, by contract, outside [0, Length)
			rec.Position(0)
			rec.Position(rec.Length - 1)
		}
		if s, err := f.Seq(name); err == nil {
			io.CopyN(io.Discard, s, 1<<16)
			s.Reset()
		}
		if s, err := f.SeqRange(name, 1, 9); err == nil {
			io.CopyN(io.Discard, s, 1<<16)
		}
		f.SeqRange(name, -1, 1<<40)
	}
	f.Seq("absent")
}

func decFAI(data []byte) error {
	idx, err := fai.ReadFrom(bytes.NewReader(data))
	if err != nil {
		return err
	}
	useFai(idx, zeros(1<<16))
	return nil
}

func decFASTA(data []byte) error {
	idx, err := fai.NewIndex(bytes.NewReader(data))
	if err != nil {
		return err
	}
	useFai(idx, bytes.NewReader(data))
	return nil
}

func decSAMHeader(data []byte) error {
	var h sam.Header
	if err := h.UnmarshalText(data); err != nil {
		return err
	}
	useHeader(&h)
	h2, err := sam.NewHeader(data, nil)
	if err == nil {
		useHeader(h2)
	}
	return nil
}

func samHeaderFor() *sam.Header {
	refs := refsFor(2)
	h, _ := sam.NewHeader(nil, nil)
	for _, r := range refs {
		r2 := r.Clone()
		h.AddReference(r2)
	}
	return h
}

func decSAMRecord(data []byte) error {
	h := samHeaderFor()
	var r sam.Record
	err := r.UnmarshalSAM(h, data)
	if err == nil {
		var buf bytes.Buffer
		bw, _ := bam.NewWriter(&buf, h, 1)
		useRecord(h, &r, bw, &bam.Index{})
		bw.Close()
	}
	var r2 sam.Record
	if err2 := r2.UnmarshalSAM(nil, data); err2 == nil {
		useRecord(nil, &r2, nil, nil)
	}
	var r3 sam.Record
	if err3 := r3.UnmarshalText(data); err3 == nil {
		useRecord(nil, &r3, nil, nil)
	}
	return err
}

func decSAMFile(data []byte) error {
	sr, err := sam.NewReader(bytes.NewReader(data))
	if err != nil {
		return err
	}
	h := sr.Header()
	useHeader(h)
	var first error
	var buf bytes.Buffer
	bw, _ := bam.NewWriter(&buf, h.Clone(), 1)
	for n := 0; n < maxItems; n++ {
		rec, err := sr.Read()
		if err != nil {
			if err != io.EOF {
				first = err
			}
			break
		}
		useRecord(h, rec, bw, &bam.Index{})
	}
	if bw != nil {
		bw.Close()
	}
	it := sam.NewIterator(mustSAM(data))
	for n := 0; it != nil && n < maxItems && it.Next(); n++ {
		it.Record()
	}
	if it != nil {
		it.Error()
	}
	return first
}

func mustSAM(data []byte) *sam.Reader {
	sr, err := sam.NewReader(bytes.NewReader(data))
	if err != nil {
		return nil
	}
	return sr
}

func decAuxText(data []byte) error {
	a, err := sam.ParseAux(data)
	if err != nil {
		return err
	}
	_ = a.String()
	a.Value()
	a.Tag()
	a.Type()
	a.Kind()
	r := &sam.Record{Name: "r", AuxFields: []sam.Aux{a}}
	r.MarshalSAM(sam.FlagDecimal)
	var buf bytes.Buffer
	h, _ := sam.NewHeader(nil, nil)
	if bw, err := bam.NewWriter(&buf, h, 1); err == nil {
		bw.Write(r)
		bw.Close()
	}
	return nil
}

func decCigarText(data []byte) error {
	c, err := sam.ParseCigar(data)
	if err != nil {
		return err
	}
	_ = c.String()
	c.IsValid(10)
	c.Lengths()
	for _, co := range c {
		co.Type().Consumes()
		_ = co.String()
	}
	r := &sam.Record{Name: "r", Cigar: c, Pos: 5}
	r.End()
	r.Bin()
	r.Len()
	return nil
}

func decCRAM(data []byte) error {
	cram.HasEOF(bytes.NewReader(data))
	r, err := cram.NewReader(bytes.NewReader(data))
	if err != nil {
		return err
	}
	var first error
	for n := 0; n < maxItems && r.Next(); n++ {
		c := r.Container()
		for m := 0; m < maxItems && c.Next(); m++ {
			b := c.Block()
			v, err := b.Value()
			if err != nil {
				if first == nil {
					first = err
				}
				continue
			}
			switch v := v.(type) {
			case *sam.Header:
				useHeader(v)
			default:
				_ = fmt.Sprint(v)
			}
		}
		if err := c.Err(); err != nil && first == nil {
			first = err
		}
	}
	if err := r.Err(); err != nil && first == nil {
		first = err
	}
	return first
}

func decITF(data []byte) error {
	v, n, ok := itf8.Decode(data)
	if ok {
		buf := make([]byte, 8)
		itf8.Encode(buf, v)
		itf8.Len(v)
		_ = n
	}
	_, err := cram.VerifITF8(bytes.NewReader(data))
	if !ok && err == nil {
		return errNilValue
	}
	return err
}

func decLTF(data []byte) error {
	v, _, ok := ltf8.Decode(data)
	if ok {
		buf := make([]byte, 16)
		ltf8.Encode(buf, v)
		ltf8.Len(v)
	}
	_, err := cram.VerifLTF8(bytes.NewReader(data))
	if !ok && err == nil {
		return errNilValue
	}
	return err
}

func decITFSlice(data []byte) error {
	_, err := cram.VerifITF8Slice(bytes.NewReader(data))
	return err
}

// Decoders lists every decoder; the names are those of Grammar.tla.
func Decoders() []Decoder {
	auxs := []func(*B){}
	for i := range samAuxAll {
		auxs = append(auxs, specAuxText(i))
	}
	return []Decoder{
		{"bgzf", []func(*B){specBGZF}, false, decBGZF},
		{"bam", []func(*B){specBAMPayload}, true, decBAM},
		{"bamhdr", []func(*B){specBAMHeaderOnly, specBAMHeaderMany}, false, decBAMHeader},
		{"bai", []func(*B){specBAI}, false, decBAI},
		{"tabix", []func(*B){specTabix}, false, decTabix},
		{"csi", []func(*B){specCSI(1), specCSI(2)}, false, decCSI},
		{"fai", []func(*B){specFAI}, false, decFAI},
		{"fasta", []func(*B){specFASTA}, false, decFASTA},
		{"samhdr", []func(*B){specSAMHeader}, false, decSAMHeader},
		{"samrec", []func(*B){specSAMRecord, specSAMRecord2}, false, decSAMRecord},
		{"samfile", []func(*B){specSAMFile, specSAMFileNoHeader}, false, decSAMFile},
		{"auxtext", auxs, false, decAuxText},
		{"cigartext", []func(*B){specCigarText}, false, decCigarText},
		{"cram", []func(*B){specCRAM}, false, decCRAM},
		{"itf8", []func(*B){specITF(0), specITF(300), specITF(70000), specITF(1 << 27), specITF(-1)}, false, decITF},
		{"ltf8", []func(*B){specLTF(0), specLTF(300), specLTF(1 << 20), specLTF(1 << 30), specLTF(1 << 40), specLTF(1 << 50), specLTF(-1)}, false, decLTF},
		{"itf8slice", []func(*B){specITFSlice}, false, decITFSlice},
	}
}
