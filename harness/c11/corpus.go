package c11

import (
	"go/ast"
	"go/parser"
	"go/token"
	"os"
	"strconv"
)

// corpus extracts the string literals of the repository's fuzzCrashers variables
// (bam/bam_test.go, bgzf/bgzf_test.go): the historical crashers the property names.
func corpus(path string) [][]byte {
	fset := token.NewFileSet()
	f, err := parser.ParseFile(fset, path, nil, 0)
	if err != nil {
		return nil
	}
	var out [][]byte
	ast.Inspect(f, func(n ast.Node) bool {
		vs, ok := n.(*ast.ValueSpec)
		if !ok || len(vs.Names) != 1 || vs.Names[0].Name != "fuzzCrashers" || len(vs.Values) != 1 {
			return true
		}
		cl, ok := vs.Values[0].(*ast.CompositeLit)
		if !ok {
			return true
		}
		for _, e := range cl.Elts {
			var lits []*ast.BasicLit
			ast.Inspect(e, func(m ast.Node) bool {
				if bl, ok := m.(*ast.BasicLit); ok && bl.Kind == token.STRING {
					lits = append(lits, bl)
				}
				return true
			})
			var s []byte
			for _, bl := range lits {
				if v, err := strconv.Unquote(bl.Value); err == nil {
					s = append(s, v...)
				}
			}
			out = append(out, s)
		}
		return false
	})
	return out
}

// Corpora lists the crasher corpora by decoder.
func Corpora() map[string][][]byte {
	repo := os.Getenv("VERIF_REPO")
	if repo == "" {
		repo = "/repo"
	}
	return map[string][][]byte{
		"bam":  corpus(repo + "/bam/bam_test.go"),
		"bgzf": corpus(repo + "/bgzf/bgzf_test.go"),
	}
}
