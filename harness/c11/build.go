// Package c11 drives the library's decoders with structure-aware mutations of valid encodings
// (C11).  A specimen of every format is produced by a builder that emits the encoding field by
// field; a mutation (chosen by the TLA+ Grammar specification: decoder, field, instance, kind)
// replaces the bytes of one field instance, or truncates the encoding at it, and everything that
// depends on those bytes (lengths of enclosing structures, checksums) is computed from what was
// actually emitted, so that the mutated field reaches the code that decodes it.
package c11

import (
	"bytes"
	"encoding/binary"
	"strconv"
	"strings"
)

// Field is one emitted field instance.
type Field struct {
	Name, Kind string
	Off, Len   int
}

// Mut selects one field instance and what to do to it.
type Mut struct {
	Field, Inst, Kind string
}

// B builds an encoding.
type B struct {
	buf     []byte
	fields  []Field
	st      *state
	prevDef []byte
	cut     bool // the enclosing structure was ended early: emit nothing more into it
}

type state struct {
	count   map[string]int
	totals  map[string]int // from a dry run; nil in the dry run
	muts    []Mut
	applied int
	kinds   map[string]string
}

func newB(muts []Mut, totals map[string]int) *B {
	return &B{st: &state{count: map[string]int{}, totals: totals, muts: muts, kinds: map[string]string{}}}
}

func (b *B) sub() *B { return &B{st: b.st} }

// add appends a sub-encoding built with sub()
func (b *B) add(s *B) {
	for _, f := range s.fields {
		f.Off += len(b.buf)
		b.fields = append(b.fields, f)
	}
	b.buf = append(b.buf, s.buf...)
}

func (b *B) raw(p []byte) { b.buf = append(b.buf, p...) }

// put emits one field; def are its bytes in the valid encoding
func (b *B) put(name, kind string, def []byte) {
	idx := b.st.count[name]
	b.st.count[name]++
	b.st.kinds[name] = kind
	out := def
	if b.cut {
		return
	}
	for _, m := range b.st.muts {
		if m.Field != name || b.st.totals == nil {
			continue
		}
		if (m.Inst == "first" && idx == 0) || (m.Inst == "last" && idx == b.st.totals[name]-1) {
			if m.Kind == "cutBefore" || (m.Kind == "cutInside" && len(def) >= 2) {
				// the enclosing structure ends here (its length fields are computed from what
				// was emitted, so they agree with the shortened content)
				b.cut = true
				b.st.applied++
				if m.Kind == "cutInside" {
					b.buf = append(b.buf, def[:(len(def)+1)/2]...)
				}
				return
			}
			if r, ok := mutate(kind, m.Kind, def, b.prevDef); ok {
				out = r
				b.st.applied++
			}
		}
	}
	b.fields = append(b.fields, Field{name, kind, len(b.buf), len(out)})
	b.buf = append(b.buf, out...)
	b.prevDef = def
}

func le(v uint64, n int) []byte {
	var x [8]byte
	binary.LittleEndian.PutUint64(x[:], v)
	return x[:n]
}
func (b *B) u8(name, kind string, v int)     { b.put(name, kind, le(uint64(v), 1)) }
func (b *B) u16(name, kind string, v int)    { b.put(name, kind, le(uint64(v), 2)) }
func (b *B) i32(name, kind string, v int)    { b.put(name, kind, le(uint64(int64(v)), 4)) }
func (b *B) u64(name, kind string, v uint64) { b.put(name, kind, le(v, 8)) }
func (b *B) str(name, kind, s string)        { b.put(name, kind, []byte(s)) }

func encITF(v int32) []byte {
	u := uint32(v)
	switch {
	case u < 0x80:
		return []byte{byte(u)}
	case u < 0x4000:
		return []byte{0x80 | byte(u>>8), byte(u)}
	case u < 0x200000:
		return []byte{0xc0 | byte(u>>16), byte(u >> 8), byte(u)}
	case u < 0x10000000:
		return []byte{0xe0 | byte(u>>24), byte(u >> 16), byte(u >> 8), byte(u)}
	}
	return []byte{0xf0 | byte(u>>28), byte(u >> 20), byte(u >> 12), byte(u >> 4), byte(u & 0xf)}
}

func encLTF(v int64) []byte {
	u := uint64(v)
	for n := 1; n <= 8; n++ {
		if u < 1<<(uint(7*n)) {
			out := make([]byte, n)
			for i := n - 1; i > 0; i-- {
				out[i] = byte(u)
				u >>= 8
			}
			out[0] = byte(u) | byte(0xff<<(uint(9-n)))
			return out
		}
	}
	out := make([]byte, 9)
	out[0] = 0xff
	binary.BigEndian.PutUint64(out[1:], u)
	return out
}

// mutate gives the replacement bytes of a field of the given kind, or false when the mutation
// kind does not act on this field's bytes (truncations are applied to the whole encoding).
func mutate(kind, mut string, def, prev []byte) ([]byte, bool) {
	n := len(def)
	switch mut {
	case "truncBefore", "truncInside", "cutBefore", "cutInside":
		return nil, false
	case "flipBit":
		if n == 0 {
			return nil, false
		}
		out := append([]byte(nil), def...)
		out[0] ^= 0x01
		out[n-1] ^= 0x80
		return out, true
	case "splice":
		return append(append([]byte(nil), prev...), def...), true
	case "nul":
		if n == 0 {
			return nil, false
		}
		out := append([]byte(nil), def...)
		out[0] = 0
		return out, true
	case "asZ":
		return []byte("Z"), true
	case "asB":
		return []byte("B"), true
	case "empty":
		return []byte{}, true
	case "long":
		if n == 0 {
			return nil, false
		}
		return bytes.Repeat(def, 8), true
	case "short1":
		if n < 1 {
			return nil, false
		}
		return def[:1], true
	case "short2":
		if n < 2 {
			return nil, false
		}
		return def[:2], true
	case "noNul":
		return []byte(strings.ReplaceAll(string(def), "\x00", "x")), true
	case "dropSep":
		return []byte{}, true
	case "dupSep":
		return append(append([]byte(nil), def...), def...), true
	case "badDigit":
		out := append([]byte(nil), def...)
		for i, c := range out {
			if c >= '0' && c <= '9' {
				out[i] = 'x'
				return out, true
			}
		}
		return append(out, 'x'), true
	case "hugeNum":
		return []byte("99999999999999999999"), true
	case "negNum":
		return []byte("-1"), true
	case "zeroNum":
		return []byte("0"), true
	case "plus1Num", "minus1Num":
		v, err := strconv.ParseInt(string(def), 10, 64)
		if err != nil {
			return nil, false
		}
		if mut == "plus1Num" {
			v++
		} else {
			v--
		}
		return []byte(strconv.FormatInt(v, 10)), true
	case "unknownLetter":
		out := append([]byte(nil), def...)
		for i, c := range out {
			if (c >= 'A' && c <= 'Z') || (c >= 'a' && c <= 'z') {
				out[i] = '?'
				return out, true
			}
		}
		return append(out, '?'), true
	}
	// integer mutations
	var v int64
	switch mut {
	case "neg":
		v = -1
	case "zero":
		v = 0
	case "one":
		v = 1
	case "eight":
		v = 8
	case "big":
		v = 1 << 20
	case "max":
		v = 1<<31 - 1
		if n == 2 {
			v = 1<<15 - 1
		} else if n == 1 {
			v = 127
		} else if n == 8 {
			v = 1<<63 - 1
		}
	case "umax":
		v = -1
	case "plus1", "minus1":
		var cur int64
		for i := n - 1; i >= 0; i-- {
			cur = cur<<8 | int64(def[i])
		}
		if mut == "plus1" {
			v = cur + 1
		} else {
			v = cur - 1
		}
	default:
		return nil, false
	}
	switch kind {
	case "itf", "icount":
		if mut == "plus1" || mut == "minus1" {
			return nil, false
		}
		return encITF(int32(v)), true
	case "ltf":
		if mut == "plus1" || mut == "minus1" {
			return nil, false
		}
		return encLTF(v), true
	}
	if n == 0 || n > 8 {
		return nil, false
	}
	return le(uint64(v), n), true
}

// Build runs a builder under the given mutations: a dry run counts the instances of every field
// name, the second run applies the mutations, then truncations are applied.
func Build(f func(*B), muts []Mut) (data []byte, fields []Field, applied int, kinds map[string]string) {
	dry := newB(nil, nil)
	f(dry)
	b := newB(muts, dry.st.count)
	f(b)
	data, fields, applied = b.buf, b.fields, b.st.applied
	cut := len(data)
	for _, m := range muts {
		if m.Kind != "truncBefore" && m.Kind != "truncInside" {
			continue
		}
		var inst []Field
		for _, fl := range fields {
			if fl.Name == m.Field {
				inst = append(inst, fl)
			}
		}
		if len(inst) == 0 {
			continue
		}
		fl := inst[0]
		if m.Inst == "last" {
			fl = inst[len(inst)-1]
		}
		at := fl.Off
		if m.Kind == "truncInside" {
			at += (fl.Len + 1) / 2
			if fl.Len < 2 {
				continue
			}
		}
		if at < cut {
			cut = at
			applied++
		}
	}
	return data[:cut], fields, applied, dry.st.kinds
}
