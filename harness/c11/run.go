package c11

import (
	"encoding/json"
	"fmt"
	"os"
	"regexp"
	"runtime"
	"runtime/debug"
	"sort"
	"strings"
	"time"
)

// Case is one element of Grammar.tla's Cases (or a pair of them).
type Case struct {
	Dec    string `json:"dec"`
	Field  string `json:"field"`
	Inst   string `json:"inst"`
	Mut    string `json:"mut"`
	Field2 string `json:"field2,omitempty"`
	Inst2  string `json:"inst2,omitempty"`
	Mut2   string `json:"mut2,omitempty"`
}

// Schema prints, per decoder, the kind of every field its specimens emit.
func Schema() {
	out := map[string]map[string]string{}
	for _, d := range Decoders() {
		m := map[string]string{}
		for _, s := range d.Specs {
			_, _, _, kinds := Build(s, nil)
			for k, v := range kinds {
				if old, ok := m[k]; ok && old != v {
					panic("field " + k + " has two kinds in " + d.Name)
				}
				m[k] = v
			}
		}
		out[d.Name] = m
	}
	b, _ := json.Marshal(out)
	fmt.Println("SCHEMA " + string(b))
}

var frameRe = regexp.MustCompile(`(?m)^(github\.com/biogo/hts/[^\s(]+(?:\([^)\s]*\)[^\s(]*)?)\(`)

// site names the innermost library function on a stack
func site(stack string) string {
	m := frameRe.FindStringSubmatch(stack)
	if m == nil {
		return "outside-library"
	}
	return strings.TrimPrefix(m[1], "github.com/biogo/hts/")
}

type result struct {
	outcome, detail, site string
}

// call runs the decoder and its accessor battery under recover and a watchdog
func call(run func([]byte) error, data []byte, limit time.Duration) result {
	done := make(chan result, 1)
	go func() {
		defer func() {
			if r := recover(); r != nil {
				st := string(debug.Stack())
				// the frames below the panic call
				if i := strings.Index(st, "panic("); i >= 0 {
					st = st[i:]
				}
				done <- result{"panic", fmt.Sprint(r), site(st)}
			}
		}()
		err := run(data)
		if err != nil {
			d := err.Error()
			if len(d) > 120 {
				d = d[:120]
			}
			done <- result{"error", d, ""}
			return
		}
		done <- result{"value", "", ""}
	}()
	select {
	case r := <-done:
		return r
	case <-time.After(limit):
	}
	// still running: give it as long again, then report where it is
	select {
	case r := <-done:
		return r
	case <-time.After(2 * limit):
	}
	buf := make([]byte, 1<<20)
	buf = buf[:runtime.Stack(buf, true)]
	where := "unknown"
	for _, g := range strings.Split(string(buf), "\n\n") {
		if strings.Contains(g, "c11.call.func1") {
			where = site(g)
		}
	}
	return result{"hang", "no return within " + (3 * limit).String(), where}
}

// Run executes cases[start:] and appends to the trace; it returns the exit code (3 = stopped
// after a hang, the caller resumes after that case).
func Run(in, out, progress string, start int) int {
	var cases []Case
	raw, err := os.ReadFile(in)
	if err != nil {
		panic(err)
	}
	if err := json.Unmarshal(raw, &cases); err != nil {
		panic(err)
	}
	decs := map[string]Decoder{}
	for _, d := range Decoders() {
		decs[d.Name] = d
	}
	flag := os.O_CREATE | os.O_WRONLY | os.O_APPEND
	if start == 0 {
		flag |= os.O_TRUNC
	}
	f, err := os.OpenFile(out, flag, 0o644)
	if err != nil {
		panic(err)
	}
	defer f.Close()
	emit := func(m map[string]interface{}) {
		b, _ := json.Marshal(m)
		f.Write(append(b, '\n'))
	}
	counts := map[string]int{}
	if start == 0 {
		// the repository's crasher corpora, as they are (scenario 0)
		emit(map[string]interface{}{"ev": "T", "sc": 0, "sig": "total/corpus"})
		for _, dn := range []string{"bam", "bgzf"} {
			for i, data := range Corpora()[dn] {
				r := call(decs[dn].Run, data, 20*time.Second)
				counts["corpus-"+r.outcome]++
				ev := map[string]interface{}{"ev": "corpus", "sc": 0, "dec": dn, "idx": i, "outcome": r.outcome, "detail": r.detail, "len": len(data)}
				if r.outcome == "panic" || r.outcome == "hang" {
					ev["sig"] = "total/" + dn + "/" + r.outcome + "/" + r.site
				}
				emit(ev)
			}
		}
	}
	for k := start; k < len(cases); k++ {
		c := cases[k]
		d, ok := decs[c.Dec]
		if !ok {
			panic("unknown decoder " + c.Dec)
		}
		os.WriteFile(progress, []byte(fmt.Sprint(k)), 0o644)
		muts := []Mut{{c.Field, c.Inst, c.Mut}}
		if c.Field2 != "" {
			muts = append(muts, Mut{c.Field2, c.Inst2, c.Mut2})
		}
		emit(map[string]interface{}{"ev": "T", "sc": k + 1, "sig": "total/" + c.Dec})
		for si, s := range d.Specs {
			data, _, applied, _ := Build(s, muts)
			if d.Wrap {
				data = wrap(data)
			}
			var r result
			if applied == 0 {
				r = result{outcome: "unapplied"}
			} else {
				r = call(d.Run, data, 20*time.Second)
			}
			counts[r.outcome]++
			ev := map[string]interface{}{"ev": "case", "sc": k + 1, "dec": c.Dec, "field": c.Field, "inst": c.Inst, "mut": c.Mut,
				"field2": c.Field2, "inst2": c.Inst2, "mut2": c.Mut2,
				"spec": si, "applied": applied, "outcome": r.outcome, "detail": r.detail, "len": len(data)}
			if r.outcome == "panic" || r.outcome == "hang" {
				ev["sig"] = "total/" + c.Dec + "/" + r.outcome + "/" + r.site
			}
			emit(ev)
			if r.outcome == "hang" {
				f.Sync()
				return 3
			}
		}
	}
	keys := []string{}
	for k := range counts {
		keys = append(keys, k)
	}
	sort.Strings(keys)
	b, _ := json.Marshal(map[string]interface{}{"cases": len(cases), "outcomes": counts})
	fmt.Println("SUMMARY " + string(b))
	return 0
}
