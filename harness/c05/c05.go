// Package c05 generates abstract records, writes them with bam.Writer / MarshalSAM and
// records the produced bytes / lines and what the readers and parsers give back (C05, C06).
package c05

import (
	"bytes"
	"encoding/binary"
	"encoding/hex"
	"fmt"
	"io"
	"math"
	"math/rand"
	"net/url"
	"strconv"
	"strings"
	"time"

	"github.com/biogo/hts/bam"
	"github.com/biogo/hts/sam"

	"verif/harness/bamx"
	"verif/harness/tr"
)

type aaux struct {
	Tag  [2]int      `json:"tag"`
	Tags string      `json:"tags"`
	Typ  string      `json:"typ"`
	V    interface{} `json:"v"`
	Sub  string      `json:"sub"`
	Txt  string      `json:"txt"`
	Txtb []int       `json:"txtb"`
}

type arec struct {
	Name  []int    `json:"name"`
	Names string   `json:"names"`
	Flag  int      `json:"flag"`
	Ref   int      `json:"ref"`
	Pos   int      `json:"pos"`
	Mapq  int      `json:"mapq"`
	Cigar [][2]int `json:"cigar"`
	Mref  int      `json:"mref"`
	Mpos  int      `json:"mpos"`
	Tlen  int      `json:"tlen"`
	Seq   []int    `json:"seq"`
	Hasq  bool     `json:"hasq"`
	Qual  []int    `json:"qual"`
	Aux   []aaux   `json:"aux"`
	samok bool
}

const baseLetters = "=ACMGRSVTWYHKDBN"

var opTypes = []sam.CigarOpType{sam.CigarMatch, sam.CigarInsertion, sam.CigarDeletion, sam.CigarSkipped, sam.CigarSoftClipped,
	sam.CigarHardClipped, sam.CigarPadded, sam.CigarEqual, sam.CigarMismatch, sam.CigarBack}

func ints(b []byte) []int {
	o := make([]int, len(b))
	for i, x := range b {
		o[i] = int(x)
	}
	return o
}

func fmtFloat(f float32) string { return strconv.FormatFloat(float64(f), 'g', -1, 32) }

// elemOf returns the abstract value and the text of one numeric element of the given type
func elemOf(typ string, r *rand.Rand) (interface{}, string, interface{}) {
	edge := func(vals ...int64) int64 { return vals[r.Intn(len(vals))] }
	switch typ {
	case "c":
		v := edge(-128, -1, 0, 1, 127, int64(r.Intn(256))-128)
		return int(v), fmt.Sprint(v), int8(v)
	case "C":
		v := edge(0, 1, 127, 128, 255, int64(r.Intn(256)))
		return int(v), fmt.Sprint(v), uint8(v)
	case "s":
		v := edge(-32768, -129, -1, 0, 128, 32767, int64(r.Intn(65536))-32768)
		return int(v), fmt.Sprint(v), int16(v)
	case "S":
		v := edge(0, 255, 256, 65535, int64(r.Intn(65536)))
		return int(v), fmt.Sprint(v), uint16(v)
	case "i":
		v := edge(-2147483648, -32769, -1, 0, 65536, 2147483647, int64(r.Int31())-1<<30)
		return int(v), fmt.Sprint(v), int32(v)
	case "I":
		v := uint32(edge(0, 255, 65535, 65536, 2147483648, 4294967295, int64(r.Uint32())))
		return []int{int(v >> 16), int(v & 0xffff)}, fmt.Sprint(v), v
	default: // f
		fs := []float32{0, 1, -1.5, 3.1415927, float32(math.Inf(1)), float32(math.Inf(-1)), 1e-10, 6.02e23, r.Float32() * 100}
		f := fs[r.Intn(len(fs))]
		var b [4]byte
		binary.LittleEndian.PutUint32(b[:], math.Float32bits(f))
		return ints(b[:]), fmtFloat(f), f
	}
}

func genAux(r *rand.Rand, k int) (aaux, sam.Aux) {
	tagb := [2]byte{"XYZQ"[r.Intn(4)], "abc1"[(k+r.Intn(2))%4]}
	tagb[1] = "0123456789abcdefghij"[k%20]
	a := aaux{Tag: [2]int{int(tagb[0]), int(tagb[1])}, Tags: string(tagb[:])}
	tag := sam.NewTag(a.Tags)
	types := []string{"A", "c", "C", "s", "S", "i", "I", "f", "Z", "H", "B"}
	a.Typ = types[r.Intn(len(types))]
	var val interface{}
	switch a.Typ {
	case "A":
		c := byte(33 + r.Intn(94))
		a.V, a.Txt, val = int(c), string(c), sam.ASCII(c)
	case "Z":
		n := []int{0, 1, 5, 40}[r.Intn(4)]
		b := make([]byte, n)
		for i := range b {
			b[i] = byte(32 + r.Intn(95)) // printable incl. space
		}
		a.V, a.Txt, val = ints(b), string(b), string(b)
	case "H":
		n := []int{0, 1, 4}[r.Intn(3)]
		b := make([]byte, n)
		r.Read(b)
		// the value is the raw bytes; BAM and SAM both carry its upper-case hexadecimal digits
		hx := []byte(strings.ToUpper(hex.EncodeToString(b)))
		a.V, a.Txt, val = ints(hx), string(hx), sam.Hex(b)
	case "B":
		a.Sub = []string{"c", "C", "s", "S", "i", "I", "f"}[r.Intn(7)]
		n := []int{0, 1, 3}[r.Intn(3)]
		var vs []interface{}
		var txt strings.Builder
		switch a.Sub {
		case "c":
			x := make([]int8, n)
			for i := range x {
				v, t, g := elemOf("c", r)
				vs, x[i] = append(vs, v), g.(int8)
				txt.WriteString("," + t)
			}
			val = x
		case "C":
			x := make([]uint8, n)
			for i := range x {
				v, t, g := elemOf("C", r)
				vs, x[i] = append(vs, v), g.(uint8)
				txt.WriteString("," + t)
			}
			val = x
		case "s":
			x := make([]int16, n)
			for i := range x {
				v, t, g := elemOf("s", r)
				vs, x[i] = append(vs, v), g.(int16)
				txt.WriteString("," + t)
			}
			val = x
		case "S":
			x := make([]uint16, n)
			for i := range x {
				v, t, g := elemOf("S", r)
				vs, x[i] = append(vs, v), g.(uint16)
				txt.WriteString("," + t)
			}
			val = x
		case "i":
			x := make([]int32, n)
			for i := range x {
				v, t, g := elemOf("i", r)
				vs, x[i] = append(vs, v), g.(int32)
				txt.WriteString("," + t)
			}
			val = x
		case "I":
			x := make([]uint32, n)
			for i := range x {
				v, t, g := elemOf("I", r)
				vs, x[i] = append(vs, v), g.(uint32)
				txt.WriteString("," + t)
			}
			val = x
		case "f":
			x := make([]float32, n)
			for i := range x {
				v, t, g := elemOf("f", r)
				vs, x[i] = append(vs, v), g.(float32)
				txt.WriteString("," + t)
			}
			val = x
		}
		if vs == nil {
			vs = []interface{}{}
		}
		a.V, a.Txt = vs, txt.String()
	default:
		v, t, g := elemOf(a.Typ, r)
		a.V, a.Txt, val = v, t, g
	}
	x, err := sam.NewAux(tag, val)
	if err != nil {
		panic(err)
	}
	a.Txtb = ints([]byte(a.Txt))
	return a, x
}

func genRecord(r *rand.Rand, idx, nref int, sizeClass int) (arec, []sam.Aux) {
	var a arec
	nl := []int{1, 2, 10, 254}[r.Intn(4)]
	if r.Intn(3) > 0 {
		nl = 4 + r.Intn(12)
	}
	nb := make([]byte, nl)
	for i := range nb {
		nb[i] = "abcdefghijklmnopqrstuvwxyzABCDEFGHIJKLMNOPQRSTUVWXYZ0123456789_.:/-"[r.Intn(67)]
	}
	copy(nb, fmt.Sprintf("%d", idx))
	if len(nb) > 1 && nb[0] == '@' {
		nb[0] = 'a'
	}
	a.Name, a.Names = ints(nb), string(nb)
	a.Flag = []int{0, 1, 4, 16, 0x63, 0xffff, r.Intn(1 << 16)}[r.Intn(7)]
	a.Ref, a.Pos = r.Intn(nref+1)-1, -1
	if a.Ref >= 0 {
		a.Pos = []int{0, 1, 16383, 16384, 1 << 20, 1<<28 - 1, r.Intn(1 << 28)}[r.Intn(7)]
	}
	a.Mapq = []int{0, 1, 60, 255, r.Intn(256)}[r.Intn(5)]
	a.Mref, a.Mpos = r.Intn(nref+1)-1, -1
	if a.Mref >= 0 {
		a.Mpos = r.Intn(1 << 28)
	}
	if r.Intn(3) == 0 {
		a.Mref = a.Ref
		if a.Ref >= 0 {
			a.Mpos = r.Intn(1 << 28)
		} else {
			a.Mpos = -1
		}
	}
	a.Tlen = []int{0, 1, -1, 1<<31 - 1, -(1 << 31), r.Intn(10000) - 5000}[r.Intn(6)]
	// sequence length by size class
	L := []int{0, 1, 2, 3, 50, 51, 255, 256, 257, 512}[r.Intn(10)]
	switch sizeClass {
	case 1:
		L = 2600 + r.Intn(200) // just below / above the reader's 4 KiB inline buffer
	case 2:
		L = 2730 + r.Intn(4)
	case 3:
		L = 44000 + r.Intn(3000) // larger than one BGZF block
	}
	uniform := sizeClass == 3
	a.Seq = make([]int, L)
	for i := range a.Seq {
		if uniform {
			a.Seq[i] = 1
		} else {
			a.Seq[i] = r.Intn(16)
		}
	}
	a.Hasq = L > 0 && r.Intn(3) > 0
	a.Qual = []int{}
	if a.Hasq {
		a.Qual = make([]int, L)
		for i := range a.Qual {
			if uniform {
				a.Qual[i] = 30
			} else {
				a.Qual[i] = r.Intn(94)
			}
		}
		if !uniform && L > 1 && r.Intn(8) == 0 {
			a.Qual[0] = 9 // '*' as the first quality character
		}
		if L == 1 && a.Qual[0] == 9 {
			a.Qual[0] = 10 // a lone quality 9 is the text "*", which SAM itself reads as "absent": not expressible
		}
	}
	// cigar: valid for the sequence (so that the record is expressible in SAM), or arbitrary
	a.samok = true
	a.Cigar = [][2]int{}
	switch r.Intn(5) {
	case 0: // none
	case 1: // arbitrary ops
		n := 1 + r.Intn(5)
		for i := 0; i < n; i++ {
			a.Cigar = append(a.Cigar, [2]int{r.Intn(10), []int{0, 1, 5, 1<<28 - 1, r.Intn(1000)}[r.Intn(5)]})
		}
		a.samok = false
	default:
		if L > 0 {
			rem := L
			if rem > 4 && r.Intn(2) == 0 {
				a.Cigar = append(a.Cigar, [2]int{4, 2}) // 2S
				rem -= 2
			}
			if rem > 6 && r.Intn(2) == 0 {
				a.Cigar = append(a.Cigar, [2]int{0, rem - 3}, [2]int{2, 1 + r.Intn(5)}, [2]int{[]int{7, 8, 1}[r.Intn(3)], 3})
			} else {
				a.Cigar = append(a.Cigar, [2]int{0, rem})
			}
			if r.Intn(3) == 0 {
				a.Cigar = append(a.Cigar, [2]int{5, 7}) // hard clip at the end
			}
			switch r.Intn(12) {
			case 0: // an operation of the largest length a BAM CIGAR word holds, consuming no query
				a.Cigar = append([][2]int{a.Cigar[0], {[]int{2, 3, 6}[r.Intn(3)], 1<<28 - 1}}, a.Cigar[1:]...)
			case 1: // the same as a leading hard clip
				a.Cigar = append([][2]int{{5, 1<<28 - 1}}, a.Cigar...)
			}
		}
	}
	var auxs []sam.Aux
	a.Aux = []aaux{}
	na := []int{0, 0, 1, 3, 6}[r.Intn(5)]
	for k := 0; k < na; k++ {
		x, g := genAux(r, k)
		a.Aux = append(a.Aux, x)
		auxs = append(auxs, g)
	}
	return a, auxs
}

func build(h *sam.Header, a arec, auxs []sam.Aux) *sam.Record {
	rec := &sam.Record{Name: a.Names, Flags: sam.Flags(a.Flag), Pos: a.Pos, MapQ: byte(a.Mapq), MatePos: a.Mpos, TempLen: a.Tlen}
	if a.Ref >= 0 {
		rec.Ref = h.Refs()[a.Ref]
	}
	if a.Mref >= 0 {
		rec.MateRef = h.Refs()[a.Mref]
	}
	for _, c := range a.Cigar {
		rec.Cigar = append(rec.Cigar, sam.NewCigarOp(opTypes[c[0]], c[1]))
	}
	letters := make([]byte, len(a.Seq))
	for i, c := range a.Seq {
		letters[i] = baseLetters[c]
	}
	rec.Seq = sam.NewSeq(letters)
	if a.Hasq {
		rec.Qual = make([]byte, len(a.Qual))
		for i, q := range a.Qual {
			rec.Qual[i] = byte(q)
		}
	}
	rec.AuxFields = auxs
	return rec
}

// project decodes a sam.Record into the abstract form with the harness's own decoding
func project(h *sam.Header, rec *sam.Record) arec {
	a := arec{Name: ints([]byte(rec.Name)), Names: rec.Name, Flag: int(rec.Flags), Ref: -1, Pos: rec.Pos, Mapq: int(rec.MapQ), Mref: -1, Mpos: rec.MatePos, Tlen: rec.TempLen,
		Cigar: [][2]int{}, Seq: []int{}, Qual: []int{}, Aux: []aaux{}}
	for i, rf := range h.Refs() {
		if rf == rec.Ref {
			a.Ref = i
		}
		if rf == rec.MateRef {
			a.Mref = i
		}
	}
	if rec.Ref != nil && a.Ref < 0 {
		a.Ref = -2
	}
	if rec.MateRef != nil && a.Mref < 0 {
		a.Mref = -2
	}
	for _, c := range rec.Cigar {
		a.Cigar = append(a.Cigar, [2]int{int(uint32(c) & 0xf), int(uint32(c) >> 4)})
	}
	for i := 0; i < rec.Seq.Length; i++ {
		d := byte(rec.Seq.Seq[i/2])
		if i%2 == 0 {
			a.Seq = append(a.Seq, int(d>>4))
		} else {
			a.Seq = append(a.Seq, int(d&0xf))
		}
	}
	for _, q := range rec.Qual {
		if q != 0xff {
			a.Hasq = true
		}
	}
	if a.Hasq {
		a.Qual = ints(rec.Qual)
	}
	for _, x := range rec.AuxFields {
		a.Aux = append(a.Aux, projAux([]byte(x)))
	}
	return a
}

func leInt(b []byte, signed bool) int64 {
	var u uint64
	for i := len(b) - 1; i >= 0; i-- {
		u = u<<8 | uint64(b[i])
	}
	if signed && b[len(b)-1]&0x80 != 0 {
		return int64(u) - 1<<(8*uint(len(b)))
	}
	return int64(u)
}

func projElem(typ string, b []byte) (interface{}, string) {
	switch typ {
	case "c", "s", "i":
		v := leInt(b, true)
		return int(v), fmt.Sprint(v)
	case "C", "S":
		v := leInt(b, false)
		return int(v), fmt.Sprint(v)
	case "I":
		v := uint32(leInt(b, false))
		return []int{int(v >> 16), int(v & 0xffff)}, fmt.Sprint(v)
	default:
		return ints(b), fmtFloat(math.Float32frombits(binary.LittleEndian.Uint32(b)))
	}
}

var width = map[string]int{"A": 1, "c": 1, "C": 1, "s": 2, "S": 2, "i": 4, "I": 4, "f": 4}

func projAux(x []byte) (a aaux) {
	defer func() { a.Txtb = ints([]byte(a.Txt)) }()
	a = aaux{Tag: [2]int{int(x[0]), int(x[1])}, Tags: string(x[:2]), Typ: string(x[2:3])}
	switch a.Typ {
	case "A":
		a.V, a.Txt = int(x[3]), string(x[3:4])
	case "Z":
		a.V, a.Txt = ints(x[3:]), string(x[3:])
	case "H":
		hx := []byte(strings.ToUpper(hex.EncodeToString(x[3:])))
		a.V, a.Txt = ints(hx), string(hx)
	case "B":
		a.Sub = string(x[3:4])
		n := int(binary.LittleEndian.Uint32(x[4:8]))
		w := width[a.Sub]
		vs := []interface{}{}
		var txt strings.Builder
		for i := 0; i < n; i++ {
			v, t := projElem(a.Sub, x[8+i*w:8+(i+1)*w])
			vs = append(vs, v)
			txt.WriteString("," + t)
		}
		a.V, a.Txt = vs, txt.String()
	default:
		a.V, a.Txt = projElem(a.Typ, x[3:3+width[a.Typ]])
	}
	return a
}

// genHeader builds a header with nref references and, by variant, groups, programs and comments
func genHeader(r *rand.Rand, nref, variant int) *sam.Header {
	var refs []*sam.Reference
	for i := 0; i < nref; i++ {
		name := fmt.Sprintf("chr%d", i+1)
		if variant%2 == 1 {
			name = []string{"HLA-A*01:01", "scaffold|7", "chrUn_KI270302v1", "1", "MT"}[i%5] + fmt.Sprint(i)
		}
		ln := []int{1<<28 + i, 1<<31 - 1, 1 << 29}[(i+variant)%3]
		var uri *url.URL
		if (i+variant)%3 == 1 {
			uri, _ = url.Parse("http://example.org/" + name + ".fa")
		}
		rf, err := sam.NewReference(name, []string{"", "GRCh38"}[variant%2], "", ln, nil, uri)
		if err != nil {
			panic(err)
		}
		if (i+variant)%4 == 1 {
			// tags the library keeps as plain tag/value pairs
			rf.Set(sam.NewTag("AN"), "alt"+name)
			rf.Set(sam.NewTag("TP"), "linear")
		}
		refs = append(refs, rf)
	}
	h, err := sam.NewHeader(nil, refs)
	if err != nil {
		panic(err)
	}
	h.Version = "1.6"
	switch variant % 4 {
	case 1:
		h.SortOrder = sam.Coordinate
		h.Comments = append(h.Comments, "a comment", "another\tone")
	case 2:
		rg, err := sam.NewReadGroup("rg1", "center", "", "lib1", "", "ILLUMINA", "", "sample", "", "", time.Time{}, 0)
		if err == nil {
			h.AddReadGroup(rg)
		}
		h.AddProgram(sam.NewProgram("p1", "bwa", "bwa mem -t 4", "", "0.7.17"))
	case 3:
		h.SortOrder = sam.QueryName
		h.GroupOrder = sam.GroupQuery
	}
	return h
}

func safely(f func()) (res string) {
	res = "nil"
	defer func() {
		if e := recover(); e != nil {
			res = fmt.Sprint("panic: ", e)
		}
	}()
	f()
	return
}

func eqJSON(a, b interface{}) bool { return fmt.Sprint(a) == fmt.Sprint(b) }

// Run writes the trace; mode "bam" gives the C05 events, "sam" the C06 events
func Run(out, mode string) {
	bamMode := mode != "sam"
	t := tr.Create(out)
	defer t.Close()
	r := tr.Rand(5)
	nfiles, perFile := 60, 8
	if !bamMode {
		nfiles = 150
	}
	if tr.Tier() == "thorough" {
		nfiles, perFile = 400, 12
		if !bamMode {
			nfiles = 1500
		}
	}
	// sam.Reader: every line of the input is one record
	readerInputs := func() {
		for i := 0; !bamMode && i < 4; i++ {
			t.Begin("codec/samreader", tr.M{"refs": []string{}, "refsb": [][]int{}})
			n := r.Intn(5)
			term := []string{"\n", "\r\n"}[r.Intn(2)]
			finalNL := r.Intn(2) == 0
			withHdr := r.Intn(2) == 0
			var in strings.Builder
			if withHdr {
				in.WriteString("@HD\tVN:1.6\tSO:unsorted" + term + "@SQ\tSN:chr1\tLN:1000" + term)
			}
			want := []string{}
			var lines []string
			same := []bool{}
			for k := 0; k < n; k++ {
				name := fmt.Sprintf("read%d", k)
				want = append(want, name)
				// line lengths below and above the reader's 4 KiB buffer
				reps := []int{1, 1, 520, 1100, 5000}[r.Intn(5)]
				line := name + "\t0\tchr1\t" + fmt.Sprint(10+k) + "\t30\t" + fmt.Sprint(4*reps) + "M\t*\t0\t0\t" + strings.Repeat("ACGT", reps) + "\t" + strings.Repeat("I5?+", reps)
				lines = append(lines, line)
				in.WriteString(line)
				if k < n-1 || finalNL {
					in.WriteString(term)
				}
			}
			got := []string{}
			errc := ""
			res := safely(func() {
				sr, e := sam.NewReader(strings.NewReader(in.String()))
				if e != nil {
					if e == io.EOF && n == 0 && !withHdr {
						errc = "EOF"
						return
					}
					panic(e)
				}
				for k := 0; k < n+3; k++ {
					rec, e := sr.Read()
					if e != nil {
						errc = "other: " + e.Error()
						if e == io.EOF {
							errc = "EOF"
						}
						return
					}
					got = append(got, rec.Name)
					l2, _ := rec.MarshalSAM(sam.FlagDecimal)
					same = append(same, k < len(lines) && string(l2) == lines[k])
				}
			})
			t.Ev("samreader", tr.M{"res": res, "n": n, "crlf": term == "\r\n", "finalnl": finalNL, "header": withHdr, "got": got, "want": want, "same": same, "err": errc, "sig": "codec/samreader"})
		}
	}
	for f := 0; f < nfiles; f++ {
		readerInputs()
		nref := []int{3, 3, 0, 1, 17}[f%5]
		if f%20 == 7 {
			nref = []int{1001, 1000, 2500}[(f/20)%3] // around the binary header reader's pre-allocation bound
		}
		h := genHeader(r, nref, f)
		names := []string{}
		for _, rf := range h.Refs() {
			names = append(names, rf.Name())
		}
		namesb := [][]int{}
		for _, n := range names {
			namesb = append(namesb, ints([]byte(n)))
		}
		t.Begin("codec/file", tr.M{"refs": names, "refsb": namesb})
		var as []arec
		var recs []*sam.Record
		for i := 0; i < perFile; i++ {
			sc := 0
			if i%4 == 1 {
				sc = 1 + (f+i)%3
				if sc == 3 && f%8 != 0 {
					sc = 1 // records above one BGZF block in every eighth file (they dominate the trace size)
				}
			}
			a, auxs := genRecord(r, f*100+i, nref, sc)
			if i == 3 && f%6 == 0 {
				// a CIGAR with very many operations (the count field is 16 bits wide)
				nops := 3000
				if f%12 == 0 {
					nops = []int{16383, 16384, 20000, 32768, 65535}[(f/12)%5] // around the 16-bit byte-count boundaries
				}
				a.Cigar = make([][2]int, nops)
				for k := range a.Cigar {
					a.Cigar[k] = [2]int{[]int{0, 1, 0, 2}[k%4], 1 + k%3}
				}
				a.samok = false
			}
			as = append(as, a)
			recs = append(recs, build(h, a, auxs))
		}
		var bamBytes []byte
		var err error
		res := safely(func() { bamBytes, err = bamx.Build(h, recs, []int{1, 2, 4}[r.Intn(3)], 1) })
		if res != "nil" || err != nil {
			t.Ev("rec", tr.M{"res": res + fmt.Sprint(err), "sig": "codec/write"})
			continue
		}
		lay := bamx.Parse(bamBytes)
		if !lay.OK || len(lay.Recs) != len(recs) {
			t.Ev("rec", tr.M{"res": "layout", "sig": "codec/layout"})
			continue
		}
		// the header as framed in the stream against the header text and references given
		htext, _ := h.MarshalText()
		hrefs := []tr.M{}
		for _, rf := range h.Refs() {
			hrefs = append(hrefs, tr.M{"name": ints([]byte(rf.Name())), "len": rf.Len()})
		}
		if bamMode {
			t.Ev("hdrenc", tr.M{"text": ints(htext), "hrefs": hrefs, "enc": ints(lay.Flat[:lay.HdrLen]), "sig": "codec/bam/header-bytes"})
		}
		// read back under the three Omit modes
		backs := make([][]*sam.Record, 3)
		hdrEqual := true
		eofs := make([]string, 3)
		for mode := 0; mode < 3; mode++ {
			res := safely(func() {
				br, e := bam.NewReader(bytes.NewReader(bamBytes), []int{1, 2, 4}[r.Intn(3)])
				if e != nil {
					panic(e)
				}
				defer br.Close()
				br.Omit(mode)
				t1, _ := h.MarshalText()
				t2, _ := br.Header().MarshalText()
				if !bytes.Equal(t1, t2) {
					hdrEqual = false
				}
				for {
					rec, e := br.Read()
					if e != nil {
						eofs[mode] = "other"
						if e == io.EOF {
							eofs[mode] = "EOF"
						}
						break
					}
					// the record must stay intact after later reads: keep it, project at the end
					backs[mode] = append(backs[mode], rec)
				}
				// project with the reader's header for identity of references
				for i, rec := range backs[mode] {
					_ = i
					_ = rec
				}
				hb := br.Header()
				projected[mode] = nil
				for _, rec := range backs[mode] {
					projected[mode] = append(projected[mode], project(hb, rec))
				}
			})
			if res != "nil" {
				eofs[mode] = res
			}
		}
		for i, a := range as {
			enc := bamBytes[0:0]
			_ = enc
			if !bamMode && (!a.samok || len(a.Seq) > 5000) {
				continue
			}
			if !bamMode {
				t.Ev("cur", tr.M{"r": a})
			} else {
				t.Ev("rec", tr.M{"res": "nil", "r": a, "enc": ints(lay.Flat[lay.Recs[i][0]:lay.Recs[i][1]]), "sig": "codec/bam/encode"})
			}
			for mode := 0; bamMode && mode < 3; mode++ {
				if i < len(projected[mode]) {
					t.Ev("back", tr.M{"res": "nil", "omit": mode, "r": projected[mode][i], "sig": fmt.Sprintf("codec/bam/back-omit%d", mode)})
				} else {
					t.Ev("back", tr.M{"res": "missing", "omit": mode, "sig": fmt.Sprintf("codec/bam/back-omit%d", mode)})
				}
			}
			// SAM text
			if bamMode {
				continue
			}
			for _, fm := range []struct {
				name string
				v    int
			}{{"dec", sam.FlagDecimal}, {"hex", sam.FlagHex}} {
				m := tr.M{"fmt": fm.name, "hex": fmt.Sprintf("0x%x", a.Flag), "sig": "codec/sam/" + fm.name}
				res := safely(func() {
					line, e := recs[i].MarshalSAM(fm.v)
					if e != nil {
						panic(e)
					}
					m["line"], m["lineb"] = string(line), ints(line)
					var p sam.Record
					if e := p.UnmarshalSAM(h, line); e != nil {
						m["reline"], m["fields"], m["ptypes"] = false, false, []string{}
						m["perr"] = e.Error()
					} else {
						l2, _ := p.MarshalSAM(fm.v)
						m["reline"] = bytes.Equal(l2, line)
						pa := project(h, &p)
						pt := []string{}
						same := len(pa.Aux) == len(a.Aux)
						for k, x := range pa.Aux {
							pt = append(pt, x.Typ)
							if same && (x.Txt != a.Aux[k].Txt || x.Tags != a.Aux[k].Tags || x.Sub != a.Aux[k].Sub) {
								same = false
							}
						}
						m["ptypes"] = pt
						pa.Aux, pa.samok = nil, false
						aa := a
						aa.Aux, aa.samok = nil, false
						m["fields"] = same && eqJSON(pa, aa)
					}
					bl := ""
					if i < len(backs[0]) {
						b2, _ := backs[0][i].MarshalSAM(fm.v)
						bl = string(b2)
					}
					m["bamline"] = bl
				})
				m["res"] = res
				t.Ev("sam", m)
			}
		}
		if !bamMode {
			// the whole file through sam.Writer and back through sam.Reader: the text is the header
			// text followed by one line per record, and reading it gives the header and the records
			var keep []int
			for i, a := range as {
				if a.samok && len(a.Seq) <= 5000 {
					keep = append(keep, i)
				}
			}
			htext, _ := h.MarshalText()
			lines := [][]int{}
			var buf bytes.Buffer
			m := tr.M{"hdrtext": ints(htext), "sig": "codec/samfile"}
			m["res"] = safely(func() {
				sw, e := sam.NewWriter(&buf, h, sam.FlagDecimal)
				if e != nil {
					panic(e)
				}
				for _, i := range keep {
					l, _ := recs[i].MarshalSAM(sam.FlagDecimal)
					lines = append(lines, ints(l))
					if e := sw.Write(recs[i]); e != nil {
						panic(e)
					}
				}
				m["out"] = ints(buf.Bytes())
				sr, e := sam.NewReader(bytes.NewReader(buf.Bytes()))
				if e != nil {
					panic(e)
				}
				t2, _ := sr.Header().MarshalText()
				m["hdrback"] = bytes.Equal(t2, htext)
				same := []bool{}
				errc := ""
				for k := 0; k < len(keep)+2; k++ {
					rec, e := sr.Read()
					if e != nil {
						errc = "other: " + e.Error()
						if e == io.EOF {
							errc = "EOF"
						}
						break
					}
					l2, _ := rec.MarshalSAM(sam.FlagDecimal)
					same = append(same, k < len(lines) && eqJSON(ints(l2), lines[k]))
				}
				m["same"], m["err"], m["n"] = same, errc, len(keep)
			})
			m["lines"] = lines
			t.Ev("samfile", m)
			continue
		}
		t.Ev("hdr", tr.M{"equal": hdrEqual, "sig": "codec/bam/header"})
		for mode := 0; mode < 3; mode++ {
			t.Ev("eof", tr.M{"err": eofs[mode], "omit": mode, "sig": "codec/bam/eof"})
		}
	}
	tr.Summary(tr.M{"scenarios": t.Scen, "lines": t.Lines, "sigs": t.Sigs()})
}

var projected = make([][]arec, 3)
