// Package c07 drives sam.Header edit histories and serialisation round trips.
package c07

import (
	"bytes"
	"fmt"
	"math/rand"
	"net/url"
	"time"

	"github.com/biogo/hts/sam"

	"verif/harness/tr"
)

type world struct {
	t     *tr.Writer
	r     *rand.Rand
	hs    []*sam.Header
	refID map[*sam.Reference]int
	rgID  map[*sam.ReadGroup]int
	pgID  map[*sam.Program]int
	refs  []*sam.Reference
	rgs   []*sam.ReadGroup
	pgs   []*sam.Program
	dead  bool
	focus string // the kind most edits of this history are about ("" = the default mix)
}

func (w *world) rid(r *sam.Reference) int {
	if id, ok := w.refID[r]; ok {
		return id
	}
	w.refs = append(w.refs, r)
	w.refID[r] = len(w.refs)
	return len(w.refs)
}
func (w *world) gid(r *sam.ReadGroup) int {
	if id, ok := w.rgID[r]; ok {
		return id
	}
	w.rgs = append(w.rgs, r)
	w.rgID[r] = len(w.rgs)
	return len(w.rgs)
}
func (w *world) pid(r *sam.Program) int {
	if id, ok := w.pgID[r]; ok {
		return id
	}
	w.pgs = append(w.pgs, r)
	w.pgID[r] = len(w.pgs)
	return len(w.pgs)
}

func (w *world) state() []tr.M {
	var out []tr.M
	for _, h := range w.hs {
		refs, rgs, pgs := [][]interface{}{}, [][]interface{}{}, [][]interface{}{}
		for _, r := range h.Refs() {
			refs = append(refs, []interface{}{w.rid(r), r.ID(), r.Name(), r.Len()})
		}
		for _, r := range h.RGs() {
			rgs = append(rgs, []interface{}{w.gid(r), r.ID(), r.Name()})
		}
		for _, p := range h.Progs() {
			pgs = append(pgs, []interface{}{w.pid(p), p.ID(), p.UID()})
		}
		out = append(out, tr.M{"refs": refs, "rgs": rgs, "progs": pgs})
	}
	if out == nil {
		out = []tr.M{}
	}
	return out
}

func shape(h *sam.Header) string {
	var b bytes.Buffer
	fmt.Fprintf(&b, "V=%s SO=%d GO=%d;", h.Version, int(h.SortOrder), int(h.GroupOrder)) // numeric: GroupUnspecified and GroupNone both print "none"
	for _, r := range h.Refs() {
		fmt.Fprintf(&b, "R(%d,%s,%d,%x,%s,%s,%s", r.ID(), r.Name(), r.Len(), r.MD5(), r.AssemblyID(), r.Species(), r.URI())
		r.Tags(func(t sam.Tag, v string) { fmt.Fprintf(&b, ",%s=%s", t, v) })
		b.WriteString(");")
	}
	for _, r := range h.RGs() {
		fmt.Fprintf(&b, "G(%d,%s,%s,%s,%d);", r.ID(), r.Name(), r.Library(), r.PlatformUnit(), r.Time().Unix())
	}
	for _, p := range h.Progs() {
		fmt.Fprintf(&b, "P(%d,%s,%s,%s,%s,%s);", p.ID(), p.UID(), p.Name(), p.Command(), p.Previous(), p.Version())
	}
	for _, c := range h.Comments {
		fmt.Fprintf(&b, "C(%s);", c)
	}
	return b.String()
}

// serial: text -> parse -> text and binary -> parse -> binary are fixpoints and expose equal values
func serial(h *sam.Header) (res string) {
	defer func() {
		if e := recover(); e != nil {
			res = fmt.Sprint("panic: ", e)
		}
	}()
	t1, err := h.MarshalText()
	if err != nil {
		return "marshal text: " + err.Error()
	}
	h2, err := sam.NewHeader(t1, nil)
	if err != nil {
		return "parse text: " + err.Error()
	}
	t2, _ := h2.MarshalText()
	if !bytes.Equal(t1, t2) {
		return "text not a fixpoint"
	}
	if shape(h) != shape(h2) {
		return "text round trip changes values: " + shape(h) + " != " + shape(h2)
	}
	b1, err := h.MarshalBinary()
	if err != nil {
		return "marshal binary: " + err.Error()
	}
	h3, _ := sam.NewHeader(nil, nil)
	if err := h3.UnmarshalBinary(b1); err != nil {
		return "parse binary: " + err.Error()
	}
	b2, _ := h3.MarshalBinary()
	if !bytes.Equal(b1, b2) {
		return "binary not a fixpoint"
	}
	if shape(h) != shape(h3) {
		return "binary round trip changes values"
	}
	return "ok"
}

func (w *world) emit(ev string, m tr.M, touched ...int) {
	ser := "ok"
	for _, h := range touched {
		if h >= 1 && h <= len(w.hs) {
			if s := serial(w.hs[h-1]); s != "ok" {
				ser = s
			}
		}
	}
	m["serial"] = ser
	var st []tr.M
	res := safely(func() { st = w.state() })
	if res != "nil" {
		m["res"] = res
		st = []tr.M{}
	}
	m["state"] = st
	if rs, ok := m["res"].(string); ok && len(rs) > 5 && rs[:5] == "panic" {
		w.dead = true
	}
	m["sig"] = "header/" + ev + "/" + fmt.Sprint(m["kind"])
	w.t.Ev(ev, m)
}

func safely(f func()) (res string) {
	res = "nil"
	defer func() {
		if e := recover(); e != nil {
			res = fmt.Sprint("panic: ", e)
		}
	}()
	f()
	return
}

func errRes(res string, err error) string {
	if res != "nil" {
		return res
	}
	if err != nil {
		return "err"
	}
	return "nil"
}

var names = []string{"chr1", "chr2", "chrM", "x"}
var lens = []int{1000, 2000}

func (w *world) newRef(name string, ln int, detail int) *sam.Reference {
	var md5 []byte
	var uri *url.URL
	assem, species := "", ""
	switch detail {
	case 1:
		assem = "GRCh38"
	case 2:
		md5 = []byte("0123456789abcdef")
		species = "human"
	case 3:
		uri, _ = url.Parse("http://example.org/ref.fa")
		assem = "hg19"
	case 5: // a URI and a user tag together
		uri, _ = url.Parse("file:///data/ref.fa")
	}
	r, err := sam.NewReference(name, assem, species, ln, md5, uri)
	if err != nil {
		panic(err)
	}
	if detail == 4 || detail == 5 || detail == 6 {
		r.Set(sam.NewTag("XY"), "extra")
	}
	if detail == 6 {
		// further standard @SQ tags the library keeps as plain tag/value pairs
		r.Set(sam.NewTag("AH"), "chr1:1-100")
		r.Set(sam.NewTag("TP"), "linear")
	}
	w.rid(r)
	return r
}

func (w *world) newRG(name string) *sam.ReadGroup {
	zones := []*time.Location{time.UTC, time.FixedZone("plus", 3600*5+1800), time.FixedZone("minus", -3600*8)}
	var d time.Time
	if w.r.Intn(2) == 0 {
		d = time.Date(2000+w.r.Intn(20), time.Month(1+w.r.Intn(12)), 1+w.r.Intn(28), w.r.Intn(24), w.r.Intn(60), w.r.Intn(60), 0, zones[w.r.Intn(3)])
	}
	rg, err := sam.NewReadGroup(name, []string{"", "center"}[w.r.Intn(2)], []string{"", "a description", "ends with a blank "}[w.r.Intn(3)], []string{"", "lib1"}[w.r.Intn(2)], "",
		[]string{"", "ILLUMINA"}[w.r.Intn(2)], []string{"", "unit7"}[w.r.Intn(2)], []string{"", "sampleA"}[w.r.Intn(2)], "", "", d, []int{0, 350}[w.r.Intn(2)])
	if err != nil {
		panic(err)
	}
	w.gid(rg)
	return rg
}

func (w *world) newPG(uid string) *sam.Program {
	p := sam.NewProgram(uid, []string{"", "bwa"}[w.r.Intn(2)], []string{"", "bwa mem -t 4", "cmd with trailing blank "}[w.r.Intn(3)], "", []string{"", "0.7.17"}[w.r.Intn(2)])
	w.pid(p)
	return p
}

func (w *world) step() {
	r := w.r
	nh := len(w.hs)
	if nh == 0 || (nh < 3 && r.Intn(12) == 0) {
		var initial []*sam.Reference
		if r.Intn(3) == 0 {
			// references handed to NewHeader rather than added one by one
			used := map[string]bool{}
			for i := 0; i < 1+r.Intn(2); i++ {
				n := names[r.Intn(len(names))]
				if !used[n] {
					used[n] = true
					initial = append(initial, w.newRef(n, lens[r.Intn(2)], r.Intn(7)))
				}
			}
		}
		h, err := sam.NewHeader(nil, initial)
		if err == nil {
			if r.Intn(2) == 0 {
				h.Version = []string{"1.0", "1.6"}[r.Intn(2)]
				h.SortOrder = []sam.SortOrder{sam.UnknownOrder, sam.Unsorted, sam.QueryName, sam.Coordinate}[r.Intn(4)]
				h.GroupOrder = []sam.GroupOrder{sam.GroupUnspecified, sam.GroupNone, sam.GroupQuery, sam.GroupReference}[r.Intn(4)]
				if r.Intn(3) == 0 {
					h.Set(sam.NewTag("SS"), "coordinate:natural")
				}
			}
			if r.Intn(3) == 0 {
				h.Comments = append(h.Comments, [][]string{{"a comment", "another\tone"}, {"ends with a blank "}, {""}, {"x", "", "tab at the end\t"}}[r.Intn(4)]...)
			}
		}
		w.hs = append(w.hs, h)
		init := [][]interface{}{}
		for _, x := range initial {
			init = append(init, []interface{}{w.rid(x), x.Name(), x.Len()})
		}
		w.emit("newheader", tr.M{"res": errRes("nil", err), "kind": "hdr", "init": init}, len(w.hs))
		return
	}
	h := 1 + r.Intn(nh)
	hd := w.hs[h-1]
	kind := []string{"refs", "refs", "refs", "rgs", "progs"}[r.Intn(5)]
	if w.focus != "" && r.Intn(4) != 0 {
		// a history that keeps to one kind builds lists of three and more entries, so that removals
		// from the middle and renames of later entries happen with survivors on both sides
		kind = w.focus
	}
	switch op := r.Intn(20); {
	case op < 8: // add
		name := names[r.Intn(len(names))]
		switch kind {
		case "refs":
			var x *sam.Reference
			switch r.Intn(6) {
			case 0: // an object listed somewhere (or freed earlier)
				if len(w.refs) > 0 {
					x = w.refs[r.Intn(len(w.refs))]
				}
			case 1: // a fresh object duplicating an existing name, same length, more detail
				if rs := hd.Refs(); len(rs) > 0 {
					e := rs[r.Intn(len(rs))]
					x = w.newRef(e.Name(), e.Len(), 1+r.Intn(6))
				}
			case 2: // conflicting length
				if rs := hd.Refs(); len(rs) > 0 {
					e := rs[r.Intn(len(rs))]
					x = w.newRef(e.Name(), e.Len()+1, 0)
				}
			}
			if x == nil {
				x = w.newRef(name, lens[r.Intn(2)], r.Intn(7))
			}
			var err error
			res := safely(func() { err = hd.AddReference(x) })
			w.emit("add", tr.M{"h": h, "kind": kind, "x": tr.M{"o": w.rid(x), "name": x.Name(), "len": x.Len()}, "res": errRes(res, err)}, h)
		case "rgs":
			var x *sam.ReadGroup
			if r.Intn(5) == 0 && len(w.rgs) > 0 {
				x = w.rgs[r.Intn(len(w.rgs))]
			} else {
				x = w.newRG(name)
			}
			var err error
			res := safely(func() { err = hd.AddReadGroup(x) })
			w.emit("add", tr.M{"h": h, "kind": kind, "x": tr.M{"o": w.gid(x), "name": x.Name()}, "res": errRes(res, err)}, h)
		case "progs":
			var x *sam.Program
			if r.Intn(5) == 0 && len(w.pgs) > 0 {
				x = w.pgs[r.Intn(len(w.pgs))]
			} else {
				x = w.newPG(name)
			}
			var err error
			res := safely(func() { err = hd.AddProgram(x) })
			w.emit("add", tr.M{"h": h, "kind": kind, "x": tr.M{"o": w.pid(x), "name": x.UID()}, "res": errRes(res, err)}, h)
		}
	case op < 12: // remove
		var err error
		var o int
		var res string
		switch kind {
		case "refs":
			if len(w.refs) == 0 {
				return
			}
			x := w.refs[r.Intn(len(w.refs))]
			if rs := hd.Refs(); len(rs) > 0 && r.Intn(4) > 0 {
				x = rs[r.Intn(len(rs))]
			}
			o = w.rid(x)
			res = safely(func() { err = hd.RemoveReference(x) })
		case "rgs":
			if len(w.rgs) == 0 {
				return
			}
			x := w.rgs[r.Intn(len(w.rgs))]
			if rs := hd.RGs(); len(rs) > 0 && r.Intn(4) > 0 {
				x = rs[r.Intn(len(rs))]
			}
			o = w.gid(x)
			res = safely(func() { err = hd.RemoveReadGroup(x) })
		case "progs":
			if len(w.pgs) == 0 {
				return
			}
			x := w.pgs[r.Intn(len(w.pgs))]
			if rs := hd.Progs(); len(rs) > 0 && r.Intn(4) > 0 {
				x = rs[r.Intn(len(rs))]
			}
			o = w.pid(x)
			res = safely(func() { err = hd.RemoveProgram(x) })
		}
		w.emit("remove", tr.M{"h": h, "kind": kind, "o": o, "res": errRes(res, err)}, h)
	case op < 15: // rename
		n := names[r.Intn(len(names))]
		var err error
		var o int
		var res string
		switch kind {
		case "refs":
			if len(w.refs) == 0 {
				return
			}
			x := w.refs[r.Intn(len(w.refs))]
			o = w.rid(x)
			if r.Intn(2) == 0 {
				res = safely(func() { err = x.SetName(n) })
			} else {
				// the generic tag setter is the other way to rename
				res = safely(func() { err = x.Set(sam.NewTag("SN"), n) })
			}
		case "rgs":
			if len(w.rgs) == 0 {
				return
			}
			x := w.rgs[r.Intn(len(w.rgs))]
			o = w.gid(x)
			if r.Intn(2) == 0 {
				res = safely(func() { err = x.SetName(n) })
			} else {
				res = safely(func() { err = x.Set(sam.NewTag("ID"), n) })
			}
		case "progs":
			if len(w.pgs) == 0 {
				return
			}
			x := w.pgs[r.Intn(len(w.pgs))]
			o = w.pid(x)
			res = safely(func() { err = x.SetUID(n) })
		}
		var touched []int
		for i := range w.hs {
			touched = append(touched, i+1)
		}
		w.emit("setname", tr.M{"kind": kind, "o": o, "name": n, "res": errRes(res, err)}, touched...)
	case op < 16: // clone
		if nh >= 4 {
			return
		}
		var c *sam.Header
		res := safely(func() { c = hd.Clone() })
		if res == "nil" {
			w.hs = append(w.hs, c)
		}
		w.emit("clone", tr.M{"h": h, "kind": "hdr", "res": res}, len(w.hs))
	case op < 18: // merge
		if nh < 2 || nh >= 4 {
			return
		}
		a, b := 1+r.Intn(nh), 1+r.Intn(nh)
		if a == b {
			return
		}
		w.merge(a, b)
	default: // parse an additional header line
		name := names[r.Intn(len(names))]
		var line string
		dup := false
		switch kind {
		case "refs":
			ln := lens[r.Intn(2)]
			for _, e := range hd.Refs() {
				if e.Name() == name {
					dup = true
					if r.Intn(2) == 0 {
						ln = e.Len()
					}
				}
			}
			line = fmt.Sprintf("@SQ\tSN:%s\tLN:%d", name, ln)
			if r.Intn(2) == 0 {
				line += "\tAS:build1"
			}
		case "rgs":
			for _, e := range hd.RGs() {
				if e.Name() == name {
					dup = true
				}
			}
			line = fmt.Sprintf("@RG\tID:%s\tSM:s1", name)
		case "progs":
			for _, e := range hd.Progs() {
				if e.UID() == name {
					dup = true
				}
			}
			line = fmt.Sprintf("@PG\tID:%s\tPN:tool", name)
		}
		var err error
		res := safely(func() { err = hd.UnmarshalText([]byte(line + "\n")) })
		w.emit("parse", tr.M{"h": h, "kind": kind, "name": name, "line": line, "dupname": dup, "malformed": false, "res": errRes(res, err)}, h)
	}
}

// merge runs MergeHeaders on headers a and b (1-based) and records the outcome with the links
func (w *world) merge(a, b int) {
	var m *sam.Header
	var links [][]*sam.Reference
	var err error
	res := safely(func() { m, links, err = sam.MergeHeaders([]*sam.Header{w.hs[a-1], w.hs[b-1]}) })
	ev := tr.M{"a": a, "b": b, "kind": "hdr", "res": errRes(res, err)}
	// an optional-field conflict between references of the same name and length justifies an error
	oc := false
	for _, x := range w.hs[a-1].Refs() {
		for _, y := range w.hs[b-1].Refs() {
			if x.Name() == y.Name() && x.Len() == y.Len() {
				if (len(x.MD5()) != 0 && len(y.MD5()) != 0 && !bytes.Equal(x.MD5(), y.MD5())) ||
					(x.AssemblyID() != "" && y.AssemblyID() != "" && x.AssemblyID() != y.AssemblyID()) ||
					(x.Species() != "" && y.Species() != "" && x.Species() != y.Species()) ||
					(x.URI() != "" && y.URI() != "" && x.URI() != y.URI()) ||
					x.Get(sam.NewTag("XY")) != y.Get(sam.NewTag("XY")) ||
					x.Get(sam.NewTag("AH")) != y.Get(sam.NewTag("AH")) ||
					x.Get(sam.NewTag("TP")) != y.Get(sam.NewTag("TP")) {
					oc = true
				}
			}
		}
	}
	ev["optconflict"] = oc
	touched := []int{}
	if res == "nil" && err == nil && m != nil {
		w.hs = append(w.hs, m)
		var lj [][]int
		for _, l := range links {
			row := []int{}
			for _, x := range l {
				if x == nil {
					row = append(row, 0)
				} else {
					row = append(row, w.rid(x))
				}
			}
			lj = append(lj, row)
		}
		ev["links"] = lj
		touched = []int{len(w.hs)}
	}
	w.emit("merge", ev, touched...)
}

// newHeaderOf creates a header from the given references and records it
func (w *world) newHeaderOf(initial []*sam.Reference) {
	h, err := sam.NewHeader(nil, initial)
	w.hs = append(w.hs, h)
	init := [][]interface{}{}
	for _, x := range initial {
		init = append(init, []interface{}{w.rid(x), x.Name(), x.Len()})
	}
	w.emit("newheader", tr.M{"res": errRes("nil", err), "kind": "hdr", "init": init}, len(w.hs))
}

func Run(out string) {
	t := tr.Create(out)
	defer t.Close()
	r := tr.Rand(7)
	n, ln := 300, 25
	if tr.Tier() == "thorough" {
		n, ln = 20000, 40
	}
	// directed merges: a later source adds a reference (the merged list grows) before / after it
	// describes a reference of the first source differently (that one is replaced); in both orders,
	// with the replaced reference first, in the middle and last in the first source
	for _, pat := range [][2][]string{
		{{"x+"}, {"chr1", "x"}}, {{"x+"}, {"x", "chr1"}}, {{"x+", "chr2"}, {"chr1", "chr2", "x"}}, {{"chr2", "x+"}, {"chrM", "x", "chr1"}},
		{{"chr2", "x+", "chr1"}, {"chrM", "x"}}, {{"x+", "chr1+"}, {"chr2", "chr1", "chrM", "x"}},
	} {
		for _, d := range []int{4, 5, 3} {
			w := &world{t: t, r: r, refID: map[*sam.Reference]int{}, rgID: map[*sam.ReadGroup]int{}, pgID: map[*sam.Program]int{}}
			t.Begin("header/merge-directed", tr.M{})
			for _, names := range pat {
				var initial []*sam.Reference
				for _, nm := range names {
					det := 0
					if nm[len(nm)-1] == '+' {
						nm, det = nm[:len(nm)-1], d
					}
					initial = append(initial, w.newRef(nm, 1000, det))
				}
				w.newHeaderOf(initial)
			}
			w.merge(1, 2)
			if !w.dead && len(w.hs) >= 3 {
				w.merge(3, 2) // and the merged header with the second source again
			}
		}
	}
	for i := 0; i < n; i++ {
		w := &world{t: t, r: r, refID: map[*sam.Reference]int{}, rgID: map[*sam.ReadGroup]int{}, pgID: map[*sam.Program]int{}}
		t.Begin("header/history", tr.M{})
		w.focus = []string{"", "", "refs", "rgs", "rgs", "progs"}[r.Intn(6)]
		steps := 3 + r.Intn(ln)
		for s := 0; s < steps && !w.dead; s++ {
			w.step()
		}
	}
	tr.Summary(tr.M{"scenarios": t.Scen, "lines": t.Lines, "sigs": t.Sigs()})
}
