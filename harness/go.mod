module verif/harness

go 1.19

require github.com/biogo/hts v0.0.0

require github.com/ulikunitz/xz v0.5.10 // indirect

replace github.com/biogo/hts => /repo
