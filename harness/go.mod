module verif/harness

go 1.19

require github.com/biogo/hts v0.0.0

replace github.com/biogo/hts => /repo
