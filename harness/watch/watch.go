// Package watch runs a call under a watchdog.  A call is reported as hung only if it
// exceeds the threshold AND a goroutine dump shows its goroutine parked in a blocking
// primitive inside the library; slowness alone is reported as "slow" (infrastructure).
package watch

import (
	"fmt"
	"runtime"
	"strings"
	"sync/atomic"
	"time"
)

type Result struct {
	Res    string // "ok", "panic", "hang", "slow"
	Detail string
}

var Threshold = 8 * time.Second

// Hangs counts the calls reported as hung in this process.  Every one of them is a violation on
// its own and costs about two thresholds of waiting, so a driver stops at the next scenario
// boundary once HangBudget of them are recorded (tr.Writer.Begin): a change that hangs in
// hundreds of cases is then reported in minutes instead of running into the check's timeout.
var Hangs int64

const HangBudget = 16

// Call runs f; marker is a substring identifying library frames (e.g. "biogo/hts/bgzf").
func Call(marker string, f func()) Result {
	done := make(chan Result, 1)
	gid := make(chan string, 1)
	go func() {
		gid <- curGoroutine()
		defer func() {
			if r := recover(); r != nil {
				done <- Result{"panic", fmt.Sprint(r)}
			}
		}()
		f()
		done <- Result{"ok", ""}
	}()
	select {
	case r := <-done:
		return r
	case <-time.After(Threshold):
	}
	// inspect: is the goroutine of this call parked in the library?
	me := <-gid
	for i := 0; i < 3; i++ {
		buf := make([]byte, 1<<22)
		buf = buf[:runtime.Stack(buf, true)]
		blocked := ""
		for _, g := range strings.Split(string(buf), "\n\n") {
			if !strings.HasPrefix(g, me+" ") || !strings.Contains(g, marker) {
				continue
			}
			first := g
			if j := strings.Index(g, "\n"); j > 0 {
				first = g[:j]
			}
			if strings.Contains(first, "chan receive") || strings.Contains(first, "chan send") || strings.Contains(first, "select") ||
				strings.Contains(first, "semacquire") || strings.Contains(first, "sync.") || strings.Contains(first, "Mutex") || strings.Contains(first, "WaitGroup") {
				// frame names (first library frame)
				for _, ln := range strings.Split(g, "\n") {
					if strings.Contains(ln, marker) && !strings.HasPrefix(ln, "\t") {
						blocked = first + " " + strings.TrimSpace(ln)
						break
					}
				}
				if blocked != "" {
					break
				}
			}
		}
		select {
		case r := <-done:
			return r
		case <-time.After(Threshold / 4):
		}
		if blocked != "" && i == 2 {
			atomic.AddInt64(&Hangs, 1)
			return Result{"hang", blocked}
		}
	}
	select {
	case r := <-done:
		return r
	default:
	}
	return Result{"slow", "call exceeded threshold without a parked library goroutine"}
}

// curGoroutine returns "goroutine N" for the calling goroutine.
func curGoroutine() string {
	buf := make([]byte, 64)
	buf = buf[:runtime.Stack(buf, false)]
	f := strings.Fields(string(buf))
	if len(f) >= 2 {
		return f[0] + " " + f[1]
	}
	return "goroutine ?"
}
