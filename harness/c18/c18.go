// Package c18 drives bam.Merger over in-memory BAM inputs.
package c18

import (
	"bytes"
	"fmt"
	"io"
	"math/rand"
	"sort"
	"time"

	"github.com/biogo/hts/bam"
	"github.com/biogo/hts/sam"

	"verif/harness/bamx"
	"verif/harness/bgz"
	"verif/harness/tr"
	"verif/harness/watch"
)

type recT struct {
	ref  string // "*" = unplaced
	pos  int
	name string
	mref string // "" = none
}

var pool = []string{"chr2", "chr10", "chr1", "chrM", "alt9"} // name order differs from this order

func subseq(a, b []string) bool { // a is a subsequence of b
	j := 0
	for _, x := range b {
		if j < len(a) && a[j] == x {
			j++
		}
	}
	return j == len(a)
}

func mergedOf(hs [][]string) []string {
	var m []string
	seen := map[string]bool{}
	for _, h := range hs {
		for _, n := range h {
			if !seen[n] {
				seen[n] = true
				m = append(m, n)
			}
		}
	}
	return m
}

func genHeaders(r *rand.Rand, k int, order string) [][]string {
	for {
		var hs [][]string
		mode := r.Intn(5)
		// where the output order does not depend on the reference order (every order but coordinate), the
		// inputs may list the same references in different orders: the merged list is still the first-seen
		// union and every record keeps its names, but an input's ids are then a permutation of the merged ids
		perm := order != "coordinate" && r.Intn(3) == 0
		if perm {
			mode = 5
		}
		for i := 0; i < k; i++ {
			var h []string
			switch mode {
			case 0: // equal
				h = append(h, pool[:3]...)
			case 4: // prefixes that grow and shrink: a later input adds references, a still later one redescribes an early one
				h = append(h, pool[:1+(i%2)*(1+i/2)]...)
			case 5: // a permutation of a subset of the pool (often of the whole pool)
				for _, j := range r.Perm(len(pool)) {
					if r.Intn(4) != 0 {
						h = append(h, pool[j])
					}
				}
				if len(h) == 0 {
					h = []string{pool[r.Intn(len(pool))]}
				}
			case 1: // disjoint-ish
				h = append(h, pool[(i*2)%len(pool)])
				if r.Intn(2) == 0 && (i*2+1) < len(pool) {
					h = append(h, pool[(i*2+1)%len(pool)])
				}
			default: // overlapping subsequences of the pool order
				for _, n := range pool {
					if r.Intn(2) == 0 {
						h = append(h, n)
					}
				}
				if len(h) == 0 {
					h = []string{pool[r.Intn(len(pool))]}
				}
			}
			hs = append(hs, h)
		}
		m := mergedOf(hs)
		ok := true
		for _, h := range hs {
			if !perm && !subseq(h, m) {
				ok = false
			}
		}
		// no duplicate names within a header
		for _, h := range hs {
			seen := map[string]bool{}
			for _, n := range h {
				if seen[n] {
					ok = false
				}
				seen[n] = true
			}
		}
		if ok {
			return hs
		}
	}
}

func buildInput(r *rand.Rand, src int, names []string, order string, n int, big bool) (*sam.Header, []*sam.Record, []recT) {
	var refs []*sam.Reference
	for _, nm := range names {
		// inputs may describe a reference differently (assembly name): a later description
		// then takes the place of the earlier one in the merged header
		assem := ""
		if len(nm)%2 == 0 {
			assem = []string{"", "", "GRCh38", "hg38"}[r.Intn(4)]
		}
		rf, _ := sam.NewReference(nm, assem, "", 1<<28, nil, nil)
		refs = append(refs, rf)
	}
	h, _ := sam.NewHeader(nil, refs)
	h.Version = "1.6"
	switch order {
	case "coordinate":
		h.SortOrder = sam.Coordinate
	case "queryname":
		h.SortOrder = sam.QueryName
	case "unsorted":
		h.SortOrder = sam.Unsorted
	default:
		h.SortOrder = sam.UnknownOrder
	}
	var rs []recT
	for i := 0; i < n; i++ {
		ri := r.Intn(len(names) + 1)
		rc := recT{ref: "*", pos: -1}
		if ri < len(names) {
			rc.ref = names[ri]
			rc.pos = r.Intn(4) * 100
		}
		if r.Intn(3) == 0 {
			rc.mref = names[r.Intn(len(names))]
		}
		rs = append(rs, rc)
	}
	idx := func(n string) int {
		for i, x := range names {
			if x == n {
				return i
			}
		}
		return len(names)
	}
	switch order {
	case "coordinate":
		sort.SliceStable(rs, func(a, b int) bool {
			if idx(rs[a].ref) != idx(rs[b].ref) {
				return idx(rs[a].ref) < idx(rs[b].ref)
			}
			return rs[a].pos < rs[b].pos
		})
	case "less":
		for i := range rs {
			if rs[i].pos < 0 { // custom less compares Pos only: keep it meaningful
				rs[i].ref, rs[i].pos = names[0], r.Intn(4)*100
			}
		}
		sort.SliceStable(rs, func(a, b int) bool { return rs[a].pos < rs[b].pos })
	}
	var recs []*sam.Record
	for i := range rs {
		key := "r"
		if order == "queryname" {
			key = fmt.Sprintf("q%02d", i/2*3+src%2) // sorted within the input, ties across inputs
		}
		rs[i].name = fmt.Sprintf("%s:%d:%d", key, src, i+1)
		size := 80
		if big {
			size = 40000
		}
		ri := -1
		if rs[i].ref != "*" {
			ri = idx(rs[i].ref)
		}
		rec := bamx.Record(h, 0, ri, rs[i].pos, size)
		rec.Name = rs[i].name
		if rs[i].ref == "*" {
			rec.Flags |= sam.Unmapped
			rec.Cigar = nil
		} else if r.Intn(5) == 0 {
			// an unmapped read stored at its mate's position: placed, and ordered by that position
			rec.Flags |= sam.Unmapped
		}
		if rs[i].mref != "" {
			rec.MateRef = h.Refs()[idx(rs[i].mref)]
			rec.MatePos = 5
			rec.Flags |= sam.Paired
		}
		recs = append(recs, rec)
	}
	return h, recs, rs
}

func Run(out string) {
	t := tr.Create(out)
	defer t.Close()
	watch.Threshold = 8 * time.Second
	r := tr.Rand(18)
	n := 800
	maxK := 4
	if tr.Tier() == "thorough" {
		n, maxK = 12000, 8
	}
	for sc := 0; sc < n; sc++ {
		order := []string{"coordinate", "coordinate", "queryname", "unsorted", "less", "none"}[r.Intn(6)]
		k := 1 + r.Intn(maxK)
		hs := genHeaders(r, k, order)
		fail := make([]int, k)
		failing := -1
		if r.Intn(4) == 0 {
			failing = r.Intn(k)
		}
		var readers []*bam.Reader
		var inputs [][][]interface{}
		var hdrNames [][]string
		okBuild := true
		for i := 0; i < k; i++ {
			nrec := r.Intn(5)
			if r.Intn(6) == 0 {
				nrec = 0 // empty input
			}
			if i == failing {
				nrec = 4 + r.Intn(4)
			}
			h, recs, rs := buildInput(r, i+1, hs[i], order, nrec, i == failing)
			b, err := bamx.Build(h, recs, 1, 1)
			if err != nil {
				okBuild = false
				break
			}
			if i == failing {
				// cut inside a member that holds data of record f: with rd=1 the records wholly in
				// earlier members are readable, the first one reaching into the cut member fails
				lay := bamx.Parse(b)
				if !lay.OK || len(lay.File.Members) < 3 {
					okBuild = false
					break
				}
				mi := 1 + r.Intn(len(lay.File.Members)-2) // not the header member, not the EOF marker
				m := lay.File.Members[mi]
				var before int64
				for q := 0; q < mi; q++ {
					before += int64(lay.File.Members[q].Len)
				}
				f := 0
				for q, rr := range lay.Recs {
					if rr[1] > before {
						f = q + 1
						break
					}
				}
				if f == 0 || m.Len == 0 {
					okBuild = false
					break
				}
				fail[i] = f
				b = b[:int(m.Base)+m.Size/2]
			}
			br, err := bam.NewReader(bytes.NewReader(b), 1)
			if err != nil {
				okBuild = false
				break
			}
			readers = append(readers, br)
			row := [][]interface{}{}
			for _, x := range rs {
				row = append(row, []interface{}{x.ref, x.pos, x.name, x.mref})
			}
			inputs = append(inputs, row)
			hdrNames = append(hdrNames, hs[i])
		}
		if !okBuild {
			continue
		}
		t.Begin("merger/"+order, tr.M{"order": order, "inputs": inputs, "failAt": fail, "k": k})
		var less func(a, b *sam.Record) bool
		if order == "less" {
			less = func(a, b *sam.Record) bool { return a.Pos < b.Pos }
		} else if order != "none" && r.Intn(3) == 0 {
			// for every declared order the less parameter is ignored: pass one that would order differently
			less = func(a, b *sam.Record) bool { return a.Pos > b.Pos || (a.Pos == b.Pos && a.Name > b.Name) }
		}
		var m *bam.Merger
		var err error
		res := watch.Call(bgz.Marker, func() { m, err = bam.NewMerger(less, readers...) })
		if res.Res != "ok" || err != nil {
			rs := res.Res
			if rs == "ok" {
				rs = "err: " + err.Error()
			}
			t.Ev("mnew", tr.M{"res": rs, "hdrs": hdrNames, "merged": []string{}, "sig": "merger/" + order + "/new"})
			continue
		}
		var merged []string
		for _, rf := range m.Header().Refs() {
			merged = append(merged, rf.Name())
		}
		if merged == nil {
			merged = []string{}
		}
		t.Ev("mnew", tr.M{"res": "nil", "hdrs": hdrNames, "merged": merged, "sig": "merger/" + order + "/new"})
		prevName := ""
		total := 0
		for _, in := range inputs {
			total += len(in)
		}
		for step := 0; step <= total+2; step++ {
			var rec *sam.Record
			var e error
			res := watch.Call("biogo/hts/bam", func() { rec, e = m.Read() })
			if res.Res != "ok" {
				t.Ev("mread", tr.M{"res": res.Res, "detail": res.Detail, "sig": "merger/" + order + "/read-" + res.Res})
				break
			}
			if e != nil {
				ec := "other"
				if e == io.EOF {
					ec = "EOF"
				}
				t.Ev("mend", tr.M{"res": "nil", "err": ec, "sig": "merger/" + order + "/end"})
				break
			}
			var key string
			var src, idx int
			fmt.Sscanf(rec.Name, "%3s:%d:%d", &key, &src, &idx)
			if rec.Name[0] == 'r' {
				fmt.Sscanf(rec.Name, "r:%d:%d", &src, &idx)
			}
			refOK := true
			if rec.Ref != nil {
				refOK = false
				for _, rf := range m.Header().Refs() {
					if rf == rec.Ref {
						refOK = src >= 1 && src <= len(inputs) && idx >= 1 && idx <= len(inputs[src-1]) && rf.Name() == inputs[src-1][idx-1][0]
					}
				}
			}
			mateOK := true
			if rec.MateRef != nil {
				mateOK = false
				for _, rf := range m.Header().Refs() {
					if rf == rec.MateRef {
						mateOK = src >= 1 && src <= len(inputs) && idx >= 1 && idx <= len(inputs[src-1]) && rf.Name() == inputs[src-1][idx-1][3]
					}
				}
			}
			nk := rec.Name[:3]
			t.Ev("mread", tr.M{"res": "nil", "src": src, "idx": idx, "refOK": refOK, "mateOK": mateOK, "nameGe": nk >= prevName, "sig": "merger/" + order + "/read"})
			prevName = nk
		}
	}
	tr.Summary(tr.M{"scenarios": t.Scen, "lines": t.Lines, "sigs": t.Sigs()})
}
