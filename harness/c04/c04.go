// Package c04 drives the coordinate indexes (bam.Index, csi.Index, tabix.Index): Add,
// Chunks, statistics, write/read round trip, MergeChunks (C04, C15).
package c04

import (
	"bytes"
	"fmt"
	"math/rand"
	"reflect"

	"github.com/biogo/hts/bam"
	"github.com/biogo/hts/bgzf"
	"github.com/biogo/hts/bgzf/index"
	"github.com/biogo/hts/csi"
	"github.com/biogo/hts/sam"
	"github.com/biogo/hts/tabix"

	"verif/harness/bamx"
	"verif/harness/tr"
)

type rec struct {
	ref, beg, end  int
	cb, ce         bgzf.Offset
	placed, mapped bool
}

func off2(o bgzf.Offset) []int64 { return []int64{o.File, int64(o.Block)} }
func chunks2(cs []bgzf.Chunk) [][][]int64 {
	out := [][][]int64{}
	for _, c := range cs {
		out = append(out, [][]int64{off2(c.Begin), off2(c.End)})
	}
	return out
}

type csiRec struct{ id, s, e int }

func (r csiRec) RefID() int { return r.id }
func (r csiRec) Start() int { return r.s }
func (r csiRec) End() int   { return r.e }

type tbxRec struct {
	name string
	s, e int
}

func (r tbxRec) RefName() string { return r.name }
func (r tbxRec) Start() int      { return r.s }
func (r tbxRec) End() int        { return r.e }

// idx abstracts the three index kinds.
type idx struct {
	kind   string
	ms, d  int
	b      *bam.Index
	c      *csi.Index
	t      *tabix.Index
	h      *sam.Header
	names  []string
}

func newIdx(kind string, ms, d, nref int) *idx {
	x := &idx{kind: kind, ms: ms, d: d}
	for i := 0; i < nref; i++ {
		// (names whose order of appearance is not their lexical order)
		pool := []string{"chr2", "chr10", "chr1", "chrX", "chr3", "chr22", "alt_9", "chrM"}
		if i < len(pool) {
			x.names = append(x.names, pool[i])
		} else {
			x.names = append(x.names, fmt.Sprintf("zz%d", 1000-i))
		}
	}
	switch kind {
	case "bai":
		x.b = &bam.Index{}
		x.h, _ = sam.NewHeader(nil, nil)
		for _, n := range x.names {
			r, _ := sam.NewReference(n, "", "", 1<<29-1, nil, nil)
			x.h.AddReference(r)
		}
		x.ms, x.d = 14, 5
	case "csi":
		x.c = csi.New(ms, d)
	case "tabix":
		x.t = tabix.New()
		x.ms, x.d = 14, 5
	}
	return x
}

func safely(f func()) (res string) {
	res = "nil"
	defer func() {
		if e := recover(); e != nil {
			res = fmt.Sprint("panic: ", e)
		}
	}()
	f()
	return
}

func (x *idx) add(r rec) string {
	c := bgzf.Chunk{Begin: r.cb, End: r.ce}
	var err error
	res := safely(func() {
		switch x.kind {
		case "bai":
			sr := &sam.Record{Name: "q", Pos: -1, MatePos: -1}
			if r.placed {
				sr.Ref = x.h.Refs()[r.ref]
				sr.Pos = r.beg
				if r.end > r.beg {
					sr.Cigar = sam.Cigar{sam.NewCigarOp(sam.CigarMatch, r.end-r.beg)}
				} else {
					sr.Cigar = sam.Cigar{sam.NewCigarOp(sam.CigarSoftClipped, 3)}
				}
			}
			if !r.mapped {
				sr.Flags |= sam.Unmapped
				sr.Cigar = nil
			}
			err = x.b.Add(sr, c)
		case "csi":
			err = x.c.Add(csiRec{r.ref, r.beg, r.end}, c, r.mapped, r.placed)
		case "tabix":
			name := "*"
			if r.ref >= 0 && r.ref < len(x.names) {
				name = x.names[r.ref]
			}
			err = x.t.Add(tbxRec{name, r.beg, r.end}, c, r.placed, r.mapped)
		}
	})
	if res == "nil" && err != nil {
		return "err: " + err.Error()
	}
	return res
}

func (x *idx) chunks(ref, beg, end int) ([]bgzf.Chunk, string) {
	var cs []bgzf.Chunk
	var err error
	res := safely(func() {
		switch x.kind {
		case "bai":
			if ref >= len(x.h.Refs()) {
				err = index.ErrNoReference
				return
			}
			cs, err = x.b.Chunks(x.h.Refs()[ref], beg, end)
		case "csi":
			cs = x.c.Chunks(ref, beg, end)
		case "tabix":
			cs, err = x.t.Chunks(x.names[ref], beg, end)
		}
	})
	if res == "nil" && err != nil {
		return nil, "err: " + err.Error()
	}
	return cs, res
}

func (x *idx) stats() tr.M {
	m := tr.M{"res": "nil"}
	res := safely(func() {
		var n int
		var rs [][]interface{}
		get := func(i int) (index.ReferenceStats, bool) {
			switch x.kind {
			case "bai":
				return x.b.ReferenceStats(i)
			case "csi":
				return x.c.ReferenceStats(i)
			}
			return x.t.ReferenceStats(i)
		}
		var un uint64
		var unok bool
		switch x.kind {
		case "bai":
			n = x.b.NumRefs()
			un, unok = x.b.Unmapped()
		case "csi":
			n = x.c.NumRefs()
			un, unok = x.c.Unmapped()
		case "tabix":
			n = x.t.NumRefs()
			un, unok = x.t.Unmapped()
		}
		for i := 0; i < n; i++ {
			s, ok := get(i)
			rs = append(rs, []interface{}{ok, s.Mapped, s.Unmapped, off2(s.Chunk.Begin), off2(s.Chunk.End)})
		}
		if rs == nil {
			rs = [][]interface{}{}
		}
		m["numrefs"], m["refs"], m["unplaced"], m["unplacedok"] = n, rs, un, unok
	})
	m["res"] = res
	return m
}

func (x *idx) write() ([]byte, error) {
	var buf bytes.Buffer
	var err error
	switch x.kind {
	case "bai":
		err = bam.WriteIndex(&buf, x.b)
	case "csi":
		err = csi.WriteTo(&buf, x.c)
	case "tabix":
		err = tabix.WriteTo(&buf, x.t)
	}
	return buf.Bytes(), err
}

// roundtrip replaces the index by write -> read and reports byte identity of a second write
// checkpoint writes the index as it is now and discards the bytes
func (x *idx) checkpoint() {
	defer func() { recover() }()
	x.write()
}

func (x *idx) roundtrip() tr.M {
	m := tr.M{}
	res := safely(func() {
		b1, err := x.write()
		if err != nil {
			m["err"] = "write: " + err.Error()
			return
		}
		switch x.kind {
		case "bai":
			var n *bam.Index
			n, err = bam.ReadIndex(bytes.NewReader(b1))
			if err == nil && n != nil {
				n.MergeStrategy = x.b.MergeStrategy
				x.b = n
			} else if n == nil && err == nil {
				m["empty"] = true
			}
		case "csi":
			var n *csi.Index
			n, err = csi.ReadFrom(bytes.NewReader(b1))
			if err == nil {
				m["fields"] = n.Version == x.c.Version && bytes.Equal(n.Auxilliary, x.c.Auxilliary)
				x.c = n
			}
		case "tabix":
			var n *tabix.Index
			n, err = tabix.ReadFrom(bytes.NewReader(b1))
			if err == nil && n != nil {
				m["fields"] = n.Format == x.t.Format && n.ZeroBased == x.t.ZeroBased && n.NameColumn == x.t.NameColumn && n.BeginColumn == x.t.BeginColumn &&
					n.EndColumn == x.t.EndColumn && n.MetaChar == x.t.MetaChar && n.Skip == x.t.Skip && reflect.DeepEqual(n.Names(), x.t.Names())
				x.t = n
			} else if n == nil && err == nil {
				m["empty"] = true
			}
		}
		if err != nil {
			m["err"] = "read: " + err.Error()
			return
		}
		if m["empty"] == true {
			return
		}
		b2, err := x.write()
		m["bytesEqual"] = err == nil && bytes.Equal(b1, b2)
	})
	m["res"] = res
	return m
}

func (x *idx) merge(s string) string {
	var ms index.MergeStrategy
	switch s {
	case "identity":
		ms = index.Identity
	case "adjacent":
		ms = index.Adjacent
	case "squash":
		ms = index.Squash
	default:
		ms = index.CompressorStrategy(1 << 16)
	}
	return safely(func() {
		switch x.kind {
		case "bai":
			x.b.MergeChunks(ms)
		case "csi":
			x.c.MergeChunks(ms)
		case "tabix":
			x.t.MergeChunks(ms)
		}
	})
}

// genRecords: sorted placed records (several references, gaps in reference ids), with
// placed-unmapped ones and unplaced ones at the end; monotone chunk layout.
func genRecords(r *rand.Rand, n, nref int, max int, tile int) []rec {
	var out []rec
	off := bgzf.Offset{File: int64(r.Intn(1000)), Block: uint16(r.Intn(60000))}
	// chunk layout of the scenario: contiguous (what a reader reports), overlapping windows, or
	// every chunk beginning at the start of the record's block - all monotone in Begin and End
	layout := r.Intn(4)
	blockStart := off
	blockStart.Block = 0
	var prevB bgzf.Offset
	next := func() (bgzf.Offset, bgzf.Offset) {
		b := off
		switch layout {
		case 1: // sliding windows: begin inside the previous chunk
			if prevB.File == off.File && off.Block > prevB.Block+1 {
				b = bgzf.Offset{File: off.File, Block: prevB.Block + uint16(1+r.Intn(int(off.Block-prevB.Block)))}
			}
		case 2: // begin at the start of the block that holds the record
			if blockStart.File != off.File {
				blockStart = bgzf.Offset{File: off.File}
			}
			b = blockStart
		}
		defer func() { prevB = b }()
		e := off // ends never go back: the end of this record lies beyond the previous record's end
		if r.Intn(8) == 0 { // a gap between records
			b = off
			b.File += int64(1 + r.Intn(70000))
			b.Block = uint16(r.Intn(65000))
			e = b
			if layout == 2 {
				b.Block = 0
				blockStart = b
			}
		}
		if r.Intn(4) == 0 {
			e.File += int64(1 + r.Intn(70000))
			e.Block = uint16(r.Intn(65000))
		} else {
			nb := int(e.Block) + 50 + r.Intn(2000)
			if nb > 65279 {
				e.File += int64(1 + r.Intn(30000))
				nb = r.Intn(3000)
			}
			e.Block = uint16(nb)
		}
		off = e
		return b, e
	}
	ref := 0
	if nref > 1 && r.Intn(3) == 0 {
		ref = 1 // first reference without records
	}
	pos := 0
	edges := []int{}
	for s := tile; s < max; s *= 8 {
		for k := 1; k <= 3; k++ {
			if s*k < max {
				edges = append(edges, s*k)
			}
		}
	}
	for i := 0; i < n; i++ {
		if ref < nref-1 && r.Intn(n/nref+1) == 0 {
			ref += 1 + r.Intn(2)
			if ref > nref-1 {
				ref = nref - 1
			}
			pos = 0
		}
		// begin: non-decreasing, biased to tile / level edges
		switch r.Intn(7) {
		case 0:
		case 6: // jump over whole tiles: the tiles in between are touched by no record
			pos += tile * (2 + r.Intn(6))
			if r.Intn(4) == 0 && pos < max/2 {
				// into the upper half of the indexable range
				pos = max/2 + []int{-1, 0, 1, r.Intn(max/2 - 16*tile)}[r.Intn(4)]
			}
		case 1:
			pos += r.Intn(100)
		case 2:
			e := pos
			if len(edges) > 0 {
				e = edges[r.Intn(len(edges))] + r.Intn(3) - 1
			}
			if e > pos {
				pos = e
			}
		case 3:
			pos += r.Intn(tile * 2)
		default:
			pos += r.Intn(tile/4 + 1)
		}
		if pos >= max-2 {
			pos = max - 3
		}
		ln := []int{0, 1, 100, tile - 1, tile, tile + 1, 3 * tile, r.Intn(tile*10 + 1)}[r.Intn(8)]
		if ln < 0 {
			ln = 0
		}
		if r.Intn(4) == 0 {
			// end exactly on an edge, or with the last base / the last two bases on it
			for _, e := range edges {
				if e > pos {
					ln = e - pos + []int{0, 0, 1, 2}[r.Intn(4)]
					break
				}
			}
		}
		if pos+ln > max-2 {
			ln = max - 2 - pos
		}
		if n := len(out); n > 0 && out[n-1].ref == ref && r.Intn(5) == 0 {
			// the same interval as the record before (so the same bin)
			pos, ln = out[n-1].beg, out[n-1].end-out[n-1].beg
		}
		cb, ce := next()
		out = append(out, rec{ref: ref, beg: pos, end: pos + ln, cb: cb, ce: ce, placed: true, mapped: r.Intn(8) != 0})
	}
	for i := 0; i < r.Intn(4); i++ {
		cb, ce := next()
		out = append(out, rec{ref: -1, beg: -1, end: 0, cb: cb, ce: ce, placed: false, mapped: false})
	}
	// the layouts the property quantifies over are monotone: neither begins nor ends go back
	less := func(a, b bgzf.Offset) bool { return a.File < b.File || (a.File == b.File && a.Block < b.Block) }
	for i := 1; i < len(out); i++ {
		if less(out[i].cb, out[i-1].cb) || less(out[i].ce, out[i-1].ce) || less(out[i].ce, out[i].cb) {
			panic(fmt.Sprintf("generator produced a chunk layout that is not monotone at record %d (layout %d)", i, layout))
		}
	}
	return out
}

func runScenario(t *tr.Writer, r *rand.Rand, class, kind string, ms, d int, recs []rec, nref int, nq int) {
	x := newIdx(kind, ms, d, nref)
	max := 1 << uint(x.ms+3*x.d)
	t.Begin("index/"+kind+"/"+class, tr.M{"kind": kind, "ms": x.ms, "d": x.d, "nref": nref})
	if kind == "csi" {
		x.c.Version = []byte{1, 2}[r.Intn(2)]
		if r.Intn(2) == 0 {
			x.c.Auxilliary = []byte{1, 2, 3, 0, 255, 7}[:r.Intn(7)]
		}
	}
	if kind == "tabix" {
		x.t.Format = []byte{0, 1, 2}[r.Intn(3)]
		x.t.ZeroBased = r.Intn(2) == 0
		x.t.NameColumn, x.t.BeginColumn, x.t.EndColumn = 1, int32(2+r.Intn(3)), int32(r.Intn(6))
		x.t.MetaChar = []rune{'#', '@', 0}[r.Intn(3)]
		x.t.Skip = int32(r.Intn(5))
	}
	ok := true
	dense := map[int]int{}
	logRef := func(ref int, assign bool) int {
		if kind != "tabix" || ref < 0 {
			return ref
		}
		if id, okk := dense[ref]; okk {
			return id
		}
		if assign {
			dense[ref] = len(dense)
			return dense[ref]
		}
		return -2 // a name the index has never seen
	}
	// a checkpoint part-way through the build: the half-built index is queried and written out
	// (which sorts it), then the build goes on
	mid := -1
	if len(recs) > 3 && r.Intn(4) > 0 {
		mid = 1 + r.Intn(len(recs)-1)
	}
	for ri, rc := range recs {
		if ri == mid {
			for k := 0; k < 3; k++ {
				pr := recs[r.Intn(ri)]
				if !pr.placed {
					continue
				}
				b, e := pr.beg, pr.beg+1+r.Intn(1<<uint(x.ms))
				if e > max {
					e = max
				}
				cs, res := x.chunks(pr.ref, b, e)
				t.Ev("chunks", tr.M{"ref": logRef(pr.ref, false), "beg": b, "end": e, "res": res, "chunks": chunks2(cs), "phase": "mid", "sig": "index/" + kind + "/chunks-mid"})
			}
			x.checkpoint()
		}
		res := x.add(rc)
		end := rc.end
		if kind == "bai" && !rc.mapped && rc.placed {
			end = rc.beg + 1 // an unmapped placed record occupies its position
		}
		t.Ev("add", tr.M{"ref": logRef(rc.ref, rc.placed), "beg": rc.beg, "end": end, "cb": off2(rc.cb), "ce": off2(rc.ce), "placed": rc.placed, "mapped": rc.mapped,
			"res": res, "sig": "index/" + kind + "/add"})
		if res != "nil" {
			ok = false
			break
		}
	}
	if !ok {
		return
	}
	// queries: around record edges, tile and level edges, random
	type q struct{ ref, b, e int }
	var qs []q
	for i := 0; i < nq; i++ {
		var b, e int
		ref := r.Intn(nref)
		if len(recs) > 0 && r.Intn(3) > 0 {
			rc := recs[r.Intn(len(recs))]
			if rc.placed {
				ref = rc.ref
				b = rc.beg + r.Intn(5) - 2
				e = b + []int{1, 2, rc.end - rc.beg + 1, 1 << uint(x.ms), 100}[r.Intn(5)]
				if r.Intn(4) == 0 {
					e = rc.beg + 1
					b = e - 1 - r.Intn(3)
				}
				if r.Intn(4) == 0 {
					b = rc.end - 1
					e = b + 1 + r.Intn(3)
				}
			}
		}
		if e == 0 {
			b = r.Intn(max)
			e = b + 1 + r.Intn(1<<uint(x.ms+3))
		}
		if b < 0 {
			b = 0
		}
		if e <= b {
			e = b + 1
		}
		if e > max {
			e = max
		}
		if b >= e {
			continue
		}
		qs = append(qs, q{ref, b, e})
	}
	ask := func(phase string, before map[int]string) map[int]string {
		ans := map[int]string{}
		for i, qq := range qs {
			cs, res := x.chunks(qq.ref, qq.b, qq.e)
			key := fmt.Sprint(chunks2(cs), res)
			ans[i] = key
			m := tr.M{"ref": logRef(qq.ref, false), "beg": qq.b, "end": qq.e, "res": res, "chunks": chunks2(cs), "phase": phase, "sig": "index/" + kind + "/chunks-" + phase}
			if before != nil {
				m["same"] = before[i] == key
			}
			t.Ev("chunks", m)
		}
		return ans
	}
	st := func(phase string) {
		m := x.stats()
		m["phase"] = phase
		m["sig"] = "index/" + kind + "/stats-" + phase
		t.Ev("stats", m)
	}
	a0 := ask("mem", nil)
	st("mem")
	rt := x.roundtrip()
	rt["sig"] = "index/" + kind + "/roundtrip"
	t.Ev("roundtrip", rt)
	if rt["res"] != "nil" || rt["err"] != nil || rt["empty"] == true {
		return
	}
	ask("rt", a0)
	st("rt")
	strat := []string{"identity", "adjacent", "squash", "compressor"}[r.Intn(4)]
	t.Ev("merge", tr.M{"strat": strat, "res": x.merge(strat), "sig": "index/" + kind + "/merge"})
	ask("merged", nil)
	rt2 := x.roundtrip()
	rt2["sig"] = "index/" + kind + "/roundtrip"
	t.Ev("roundtrip", rt2)
	if rt2["res"] == "nil" && rt2["err"] == nil {
		ask("merged-rt", nil)
	}
}

func Run(out string) {
	t := tr.Create(out)
	defer t.Close()
	r := tr.Rand(4)
	n, nq := 40, 25
	if tr.Tier() == "thorough" {
		n, nq = 1500, 40
	}
	// the SAM-spec style fixed cases first: records that cross into the tile just past the linear index
	fixed := [][]rec{
		{{ref: 0, beg: 0, end: 10, placed: true, mapped: true}, {ref: 0, beg: 100, end: 16484, placed: true, mapped: true}},
		{{ref: 0, beg: 16000, end: 17000, placed: true, mapped: true}},
		{{ref: 0, beg: 5, end: 5, placed: true, mapped: true}, {ref: 0, beg: 16384, end: 16384, placed: true, mapped: true}},
		{{ref: 0, beg: 10, end: 20, placed: true, mapped: false}, {ref: 2, beg: 0, end: 100000, placed: true, mapped: true}},
		{},
		{{ref: -1, beg: -1, end: 0, placed: false, mapped: false}},
	}
	// references all of whose records share one bin although whole tiles between them are touched by
	// no record: the records straddle child boundaries of one window at level 4, 3 or 2
	for _, w := range []int{8 << 14, 64 << 14, 512 << 14} {
		for _, ks := range [][]int{{1, 4, 7}, {2, 3, 6}, {1, 7}, {5}} {
			for _, other := range []int{-1, 0, 2} { // another reference (before / after) with ordinary records, or none
				var f []rec
				if other == 0 {
					f = append(f, rec{ref: 0, beg: 10, end: 20, placed: true, mapped: true}, rec{ref: 0, beg: 40000, end: 40100, placed: true, mapped: true})
				}
				for _, k := range ks {
					f = append(f, rec{ref: 1, beg: k*(w/8) - 100, end: k*(w/8) + 100, placed: true, mapped: k != 4})
				}
				if other == 2 {
					f = append(f, rec{ref: 2, beg: 0, end: 100000, placed: true, mapped: true})
				}
				fixed = append(fixed, f)
			}
		}
	}
	for _, kind := range []string{"bai", "tabix", "csi"} {
		for _, f := range fixed {
			recs := append([]rec(nil), f...)
			o := bgzf.Offset{File: 100}
			for i := range recs {
				recs[i].cb = o
				o.Block += 100
				recs[i].ce = o
			}
			runScenario(t, r, "fixed", kind, 14, 5, recs, 3, nq)
		}
	}
	for i := 0; i < n; i++ {
		kind := []string{"bai", "tabix", "csi", "csi"}[i%4]
		ms, d := 14, 5
		if kind == "csi" {
			g := [][2]int{{14, 5}, {12, 6}, {0, 3}, {1, 2}, {5, 4}}[r.Intn(5)]
			ms, d = g[0], g[1]
		}
		nref := 1 + r.Intn(4)
		max := 1 << uint(ms+3*d)
		if (kind == "bai" || kind == "tabix") && i%3 == 0 {
			max = 40 << 14 // a small index, for which the trace spec also runs IndexI's Chunks
		}
		nrec := r.Intn(25)
		recs := genRecords(r, nrec, nref, max, 1<<uint(ms))
		runScenario(t, r, "random", kind, ms, d, recs, nref, nq)
	}
	tr.Summary(tr.M{"scenarios": t.Scen, "lines": t.Lines, "sigs": t.Sigs()})
}

// RunBAM: chunk values taken from bam.Reader.LastChunk of a BAM the harness writes; the
// chunks returned by the index are fed to bam.Iterator over the real file and the records
// reached are logged.
func RunBAM(out string) {
	t := tr.Create(out)
	defer t.Close()
	r := tr.Rand(404)
	nfiles := 6
	if tr.Tier() == "thorough" {
		nfiles = 120
	}
	for f := 0; f < nfiles; f++ {
		h := bamx.Header(3)
		var recs []*sam.Record
		n := 5 + r.Intn(40)
		ref, pos := 0, 0
		for i := 0; i < n; i++ {
			if ref < 2 && r.Intn(n/3+1) == 0 {
				ref++
				pos = 0
			}
			pos += []int{0, r.Intn(50), r.Intn(20000), 16384 - pos%16384 - 1}[r.Intn(4)]
			size := []int{60, 200, 3000, 20000, 70000}[r.Intn(5)]
			recs = append(recs, bamx.Record(h, i+1, ref, pos, size))
		}
		b, err := bamx.Build(h, recs, 2, 1)
		if err != nil {
			continue
		}
		br, err := bam.NewReader(bytes.NewReader(b), 2)
		if err != nil {
			continue
		}
		t.Begin("index/bai/realbam", tr.M{"kind": "bai", "ms": 14, "d": 5, "nref": 3})
		ix := &bam.Index{}
		ok := true
		var got []*sam.Record
		for {
			rec, e := br.Read()
			if e != nil {
				break
			}
			c := br.LastChunk()
			var res string
			var aerr error
			res = safely(func() { aerr = ix.Add(rec, c) })
			if res == "nil" && aerr != nil {
				res = "err: " + aerr.Error()
			}
			t.Ev("add", tr.M{"ref": rec.Ref.ID(), "beg": rec.Pos, "end": rec.End(), "cb": off2(c.Begin), "ce": off2(c.End), "placed": true, "mapped": true,
				"res": res, "sig": "index/bai/add"})
			got = append(got, rec)
			if res != "nil" {
				ok = false
				break
			}
		}
		if !ok {
			br.Close()
			continue
		}
		for q := 0; q < 25; q++ {
			rc := got[r.Intn(len(got))]
			beg := rc.Pos + r.Intn(7) - 3
			if r.Intn(3) == 0 {
				beg = rc.End() - 1
			}
			if beg < 0 {
				beg = 0
			}
			end := beg + 1 + []int{0, 1, 100, 16384, 40000}[r.Intn(5)]
			refID := rc.Ref.ID()
			var cs []bgzf.Chunk
			var qerr error
			res := safely(func() { cs, qerr = ix.Chunks(h.Refs()[refID], beg, end) })
			if res == "nil" && qerr != nil {
				res = "err: " + qerr.Error()
			}
			t.Ev("chunks", tr.M{"ref": refID, "beg": beg, "end": end, "res": res, "chunks": chunks2(cs), "phase": "mem", "sig": "index/bai/chunks-mem"})
			if res != "nil" {
				continue
			}
			// iterate the returned chunks over the real file
			reached := []int{}
			ires := safely(func() {
				it, e := bam.NewIterator(br, cs)
				if e != nil {
					panic(e)
				}
				for it.Next() {
					var k int
					fmt.Sscanf(it.Record().Name[1:8], "%d", &k)
					reached = append(reached, k)
					if len(reached) > 10*len(got) {
						panic("runaway")
					}
				}
				if it.Error() != nil {
					panic(it.Error())
				}
			})
			br.SetChunk(nil)
			t.Ev("reach", tr.M{"ref": refID, "beg": beg, "end": end, "got": reached, "res": ires, "sig": "index/bai/reach"})
		}
		br.Close()
	}
	tr.Summary(tr.M{"scenarios": t.Scen, "lines": t.Lines, "sigs": t.Sigs()})
}
