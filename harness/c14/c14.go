// Package c14 drives the block caches of bgzf/cache with manufactured blocks and records
// every call with its reply and the full observable state (Len, Cap, Peek of every base).
package c14

import (
	"fmt"
	"math/rand"
	"os"
	"runtime"
	"sort"
	"sync"
	"sync/atomic"
	"time"

	"github.com/biogo/hts/bgzf"
	"github.com/biogo/hts/bgzf/cache"

	"verif/harness/tr"
	"verif/harness/watch"
)

const marker = "biogo/hts/bgzf/cache"

type blockT struct {
	id   int
	b    bgzf.Block
	base int64
	used bool
	est  string // fresh, handed, in, got
}

// hung[policy/op] counts hangs seen; an operation kind that has hung maxHang times under
// a policy is no longer issued (each hang costs a watchdog period and leaks a goroutine).
var hung = map[string]int{}

const maxHang = 2

type world struct {
	t      *tr.Writer
	policy string
	c      cache.Cache
	sr     *cache.StatsRecorder // optional wrapper for Get/Put/Peek
	blocks []*blockT            // index id-1
	bases  []int64
	dead   bool
}

func newCache(policy string, n int) cache.Cache {
	switch policy {
	case "LRU":
		return cache.NewLRU(n)
	case "FIFO":
		return cache.NewFIFO(n)
	}
	return cache.NewRandom(n)
}

func (w *world) byBlock(b bgzf.Block) int {
	if b == nil {
		return 0
	}
	for _, x := range w.blocks {
		if x.b == b {
			return x.id
		}
	}
	return -1
}

func (w *world) bc() bgzf.Cache {
	if w.sr != nil {
		return w.sr
	}
	return w.c
}

func (w *world) obs() tr.M {
	var peek [][]interface{}
	for _, base := range w.bases {
		ex, next := w.c.Peek(base)
		id, cur := 0, int64(0)
		if ex {
			id = int(next%1000) - 1
			cur = next - next%1000
		}
		peek = append(peek, []interface{}{base, ex, id, cur})
	}
	m := tr.M{"len": w.c.Len(), "cap": w.c.Cap(), "peek": peek}
	if w.sr != nil {
		s := w.sr.Stats()
		m["stats"] = []int{s.Gets, s.Misses, s.Puts, s.Retains, s.Evictions}
	}
	return m
}

func (w *world) finish(ev string, m tr.M, r watch.Result) {
	m["res"] = r.Res
	m["sig"] = w.policy + "/" + ev + "/" + r.Res
	if r.Res != "ok" {
		m["detail"] = r.Detail
		w.dead = true
		hung[w.policy+"/"+ev]++
	} else {
		// the observation itself may hang if a lock was left held
		var o tr.M
		r2 := watch.Call(marker, func() { o = w.obs() })
		if r2.Res != "ok" {
			m["res"] = "obs-" + r2.Res
			m["sig"] = w.policy + "/" + ev + "/obs-" + r2.Res
			w.dead = true
		} else {
			for k, v := range o {
				m[k] = v
			}
		}
	}
	w.t.Ev(ev, m)
}

func (w *world) put(id int) {
	x := w.blocks[id-1]
	var ev bgzf.Block
	var ret bool
	r := watch.Call(marker, func() { ev, ret = w.bc().Put(x.b) })
	evid := 0
	if r.Res == "ok" {
		evid = w.byBlock(ev)
		if ret {
			x.est = "in"
		}
		if evid > 0 {
			w.blocks[evid-1].est = "handed"
		}
	}
	w.finish("put", tr.M{"id": id, "evid": evid, "ret": ret}, r)
}

func (w *world) get(base int64) {
	var b bgzf.Block
	r := watch.Call(marker, func() { b = w.bc().Get(base) })
	rid, rbase := 0, int64(0)
	if r.Res == "ok" && b != nil {
		rid = w.byBlock(b)
		rbase = b.Base()
		if rid > 0 {
			w.blocks[rid-1].est = "got"
		}
	}
	w.finish("get", tr.M{"base": base, "r": rid, "rbase": rbase}, r)
}

func (w *world) resize(n int) {
	r := watch.Call(marker, func() { w.c.Resize(n) })
	w.finish("resize", tr.M{"n": n}, r)
}
func (w *world) drop(n int) {
	r := watch.Call(marker, func() { w.c.Drop(n) })
	w.finish("drop", tr.M{"n": n}, r)
}
func (w *world) free(n int) {
	var ok bool
	r := watch.Call(marker, func() { ok = cache.Free(n, w.c) })
	w.finish("free", tr.M{"n": n, "ok": ok}, r)
}
func (w *world) overwrite(id int, base int64, used bool) {
	x := w.blocks[id-1]
	bgzf.VerifOverwriteBlock(x.b, base, 1+id, used)
	x.base, x.used = base, used
	w.finish("overwrite", tr.M{"id": id, "base": base, "used": used}, watch.Result{Res: "ok"})
}
func (w *world) touch(id int) {
	x := w.blocks[id-1]
	bgzf.VerifOverwriteBlock(x.b, x.base, 1+id, true)
	x.used = true
	w.finish("touch", tr.M{"id": id}, watch.Result{Res: "ok"})
}

type op struct {
	kind string
	a    int
	base int64
	used bool
}

func (w *world) apply(o op) {
	switch o.kind {
	case "put":
		w.put(o.a)
	case "get":
		w.get(o.base)
	case "resize":
		w.resize(o.a)
	case "drop":
		w.drop(o.a)
	case "free":
		w.free(o.a)
	case "overwrite":
		w.overwrite(o.a, o.base, o.used)
	case "touch":
		w.touch(o.a)
	}
}

type blockInit struct {
	base int64
	used bool
}

func newWorld(t *tr.Writer, class, policy string, capN int, stats bool, bases []int64, init []blockInit) *world {
	w := &world{t: t, policy: policy, c: newCache(policy, capN), bases: bases}
	if stats {
		w.sr = &cache.StatsRecorder{Cache: w.c}
	}
	var bl [][]interface{}
	for i, in := range init {
		id := i + 1
		w.blocks = append(w.blocks, &blockT{id: id, b: bgzf.VerifNewBlock(in.base, 1+id, in.used), base: in.base, used: in.used, est: "fresh"})
		bl = append(bl, []interface{}{in.base, in.used})
	}
	t.Begin(policy+"/"+class, tr.M{"policy": policy, "cap": capN, "bases": bases, "blocks": bl, "stats": stats})
	return w
}

// enabled operations in the current driver state (the environment obeys the usage rule)
func (w *world) ops(full bool) []op {
	var os []op
	for _, x := range w.blocks {
		if x.est != "in" {
			os = append(os, op{kind: "put", a: x.id})
		}
	}
	for _, b := range w.bases {
		os = append(os, op{kind: "get", base: b})
	}
	rs, ds, fs := []int{0, 1, 3}, []int{1, 2}, []int{1, 3}
	if full {
		rs, ds, fs = []int{0, 1, 2, 3, 4}, []int{0, 1, 2, 3}, []int{0, 1, 2, 3, 4}
	}
	for _, n := range rs {
		os = append(os, op{kind: "resize", a: n})
	}
	for _, n := range ds {
		os = append(os, op{kind: "drop", a: n})
	}
	for _, n := range fs {
		os = append(os, op{kind: "free", a: n})
	}
	for _, x := range w.blocks {
		if x.est == "fresh" || x.est == "handed" {
			for _, b := range w.bases {
				if b != x.base {
					os = append(os, op{kind: "overwrite", a: x.id, base: b, used: x.used})
					break
				}
			}
			os = append(os, op{kind: "overwrite", a: x.id, base: x.base, used: !x.used})
		}
		if x.est == "got" && !x.used {
			os = append(os, op{kind: "touch", a: x.id})
		}
	}
	var keep []op
	for _, o := range os {
		if hung[w.policy+"/"+o.kind] < maxHang {
			keep = append(keep, o)
		}
	}
	return keep
}

// Run: exhaustive short histories (re-executed from scratch per history) and seeded long ones.
func Run(out string) {
	t := tr.Create(out)
	defer t.Close()
	watch.Threshold = 1200 * time.Millisecond // in-memory operations: a second is an eternity
	depth, nrand, rlen := 3, 150, 30
	if tr.Tier() == "thorough" {
		depth, nrand, rlen = 4, 3000, 40
	}
	hangs := 0
	bases2 := []int64{1000, 2000}
	init3 := []blockInit{{1000, true}, {2000, true}, {1000, false}}
	nex := 0
	for _, policy := range []string{"LRU", "FIFO", "Random"} {
		for _, capN := range []int{1, 2} {
			// enumerate histories by index paths; a history that ends early (dead cache) prunes its subtree
			var rec func(prefix []int)
			rec = func(prefix []int) {
				if len(prefix) == depth {
					return
				}
				// number of options after this prefix: replay silently to know
				for k := 0; ; k++ {
					path := append(append([]int(nil), prefix...), k)
					// replay path on a fresh world, recording only if it is a leaf (len == depth) or dies
					probe := tr.Create(os.DevNull)
					w := newWorld(probe, "x", policy, capN, false, bases2, init3)
					okPath := true
					for _, idx := range path {
						os := w.ops(false)
						if idx >= len(os) {
							okPath = false
							break
						}
						w.apply(os[idx])
						if w.dead {
							break
						}
					}
					probe.Close()
					if !okPath {
						return
					}
					if len(path) == depth || w.dead {
						// record for real
						w2 := newWorld(t, "exhaustive", policy, capN, false, bases2, init3)
						for _, idx := range path {
							w2.apply(w2.ops(false)[idx])
							if w2.dead {
								hangs++
								break
							}
						}
						nex++
					}
					if !w.dead {
						rec(path)
					}
				}
			}
			rec(nil)
		}
	}
	// seeded random long histories: more blocks, bases, capacities, StatsRecorder wrapping
	rnd := tr.Rand(14)
	bases4 := []int64{1000, 2000, 3000, 4000}
	for i := 0; i < nrand; i++ {
		policy := []string{"LRU", "FIFO", "Random"}[i%3]
		capN := 1 + rnd.Intn(4)
		nb := 3 + rnd.Intn(4)
		var init []blockInit
		for j := 0; j < nb; j++ {
			init = append(init, blockInit{bases4[rnd.Intn(4)], rnd.Intn(3) > 0})
		}
		w := newWorld(t, "random", policy, capN, rnd.Intn(3) == 0, bases4, init)
		for s := 0; s < rlen && !w.dead; s++ {
			os := w.ops(true)
			// bias towards put/get
			var pick op
			if rnd.Intn(10) < 6 {
				var pg []op
				for _, o := range os {
					if o.kind == "put" || o.kind == "get" || o.kind == "overwrite" {
						pg = append(pg, o)
					}
				}
				pick = pg[rnd.Intn(len(pg))]
			} else {
				pick = os[rnd.Intn(len(os))]
			}
			if pick.kind == "overwrite" {
				pick.base = bases4[rnd.Intn(4)]
				pick.used = rnd.Intn(3) > 0
			}
			w.apply(pick)
			if w.dead {
				hangs++
			}
		}
	}
	tr.Summary(tr.M{"scenarios": t.Scen, "lines": t.Lines, "exhaustive_histories": nex, "depth": depth, "random_histories": nrand, "hung_kinds": hung, "sigs": t.Sigs()})
}

// ---- concurrent histories for the linearizability check -------------------------------

type cev struct {
	g    int
	kind string // call / ret
	m    tr.M
}

// RunConc: G goroutines each perform a few operations on one shared cache; call and return
// events are logged under one mutex with a global order.
func RunConc(out string) {
	t := tr.Create(out)
	defer t.Close()
	watch.Threshold = 5 * time.Second
	n := 120
	if tr.Tier() == "thorough" {
		n = 4000
	}
	rnd := tr.Rand(1414)
	bases := []int64{1000, 2000, 3000}
	for i := 0; i < n; i++ {
		policy := []string{"LRU", "FIFO", "Random"}[i%3]
		G := 2 + rnd.Intn(3)
		per := 2 + rnd.Intn(3)
		if G == 4 {
			per = 2 + rnd.Intn(2)
		}
		capN := 1 + rnd.Intn(3)
		c := newCache(policy, capN)
		// half the histories reach the cache through a StatsRecorder, whose counters are part of the history
		var bc bgzf.Cache = c
		var sr *cache.StatsRecorder
		if rnd.Intn(2) == 0 {
			sr = &cache.StatsRecorder{Cache: c}
			bc = sr
		}
		// each goroutine owns 2 blocks
		var init []blockInit
		var bl [][]interface{}
		var blocks []bgzf.Block
		for j := 0; j < 2*G; j++ {
			in := blockInit{bases[rnd.Intn(3)], rnd.Intn(4) > 0}
			init = append(init, in)
			bl = append(bl, []interface{}{in.base, in.used})
			blocks = append(blocks, bgzf.VerifNewBlock(in.base, 1+j+1, in.used))
		}
		idOf := func(b bgzf.Block) int {
			if b == nil {
				return 0
			}
			for k, x := range blocks {
				if x == b {
					return k + 1
				}
			}
			return -1
		}
		t.Begin(policy+"/concurrent", tr.M{"policy": policy, "cap": capN, "bases": bases, "blocks": bl, "G": G})
		var mu sync.Mutex
		logEv := func(ev string, m tr.M) {
			mu.Lock()
			t.Ev(ev, m)
			mu.Unlock()
		}
		var wg sync.WaitGroup
		seeds := make([]int64, G)
		for g := range seeds {
			seeds[g] = rnd.Int63()
		}
		start := make(chan struct{})
		res := watch.Call(marker, func() {
			defer wg.Wait()
			defer close(start)
			for g := 0; g < G; g++ {
				wg.Add(1)
				go func(g int) {
					defer wg.Done()
					r := rand.New(rand.NewSource(seeds[g]))
					<-start
					own := []int{2*g + 1, 2*g + 2} // ids this goroutine may put
					for s := 0; s < per; s++ {
						if r.Intn(2) == 0 {
							runtime.Gosched()
						}
						k := r.Intn(10)
						switch {
						case k < 4 && len(own) > 0:
							j := r.Intn(len(own))
							id := own[j]
							logEv("call", tr.M{"g": g + 1, "op": "put", "id": id})
							if r.Intn(2) == 0 {
								runtime.Gosched()
							}
							ev, ret := bc.Put(blocks[id-1])
							evid := idOf(ev)
							logEv("ret", tr.M{"g": g + 1, "op": "put", "evid": evid, "ret": ret})
							if ret {
								own = append(own[:j], own[j+1:]...)
							}
							if evid > 0 && evid != id {
								own = append(own, evid)
							}
						case k < 7:
							base := bases[r.Intn(3)]
							logEv("call", tr.M{"g": g + 1, "op": "get", "base": base})
							b := bc.Get(base)
							rid, rbase := idOf(b), int64(0)
							if b != nil {
								rbase = b.Base()
							}
							logEv("ret", tr.M{"g": g + 1, "op": "get", "r": rid, "rbase": rbase})
							// a block obtained by Get is not put again by this goroutine: FIFO.Get leaves a used
							// block in the cache, from where a Put of another goroutine may receive it as evicted;
							// two goroutines putting one block object is not a use the contract covers (the reader
							// is a single client), and CacheP's environment assumption (Put only of a block the
							// caller holds and the cache does not) excludes it
							_ = rid
						case k < 8:
							base := bases[r.Intn(3)]
							logEv("call", tr.M{"g": g + 1, "op": "peek", "base": base})
							ex, next := c.Peek(base)
							pid := 0
							if ex {
								pid = int(next%1000) - 1
							}
							logEv("ret", tr.M{"g": g + 1, "op": "peek", "exists": ex, "id": pid})
						case k < 9:
							if sr != nil {
								logEv("call", tr.M{"g": g + 1, "op": "stats"})
								st := sr.Stats()
								logEv("ret", tr.M{"g": g + 1, "op": "stats", "stats": []int{st.Gets, st.Misses, st.Puts, st.Retains, st.Evictions}})
								break
							}
							logEv("call", tr.M{"g": g + 1, "op": "len"})
							l := c.Len()
							logEv("ret", tr.M{"g": g + 1, "op": "len", "n": l})
						default:
							nn := r.Intn(3)
							if r.Intn(2) == 0 {
								logEv("call", tr.M{"g": g + 1, "op": "drop", "n": nn})
								c.Drop(nn)
								logEv("ret", tr.M{"g": g + 1, "op": "drop"})
							} else {
								nn = 1 + r.Intn(3)
								logEv("call", tr.M{"g": g + 1, "op": "resize", "n": nn})
								c.Resize(nn)
								logEv("ret", tr.M{"g": g + 1, "op": "resize"})
							}
						}
					}
				}(g)
			}
		})
		if res.Res != "ok" {
			logEv("abort", tr.M{"res": res.Res, "sig": policy + "/concurrent/" + res.Res, "detail": res.Detail})
			continue
		}
		// quiescent observation
		var peek [][]interface{}
		for _, base := range bases {
			ex, next := c.Peek(base)
			id := 0
			if ex {
				id = int(next%1000) - 1
			}
			peek = append(peek, []interface{}{base, ex, id})
		}
		fin := tr.M{"len": c.Len(), "cap": c.Cap(), "peek": peek}
		if sr != nil {
			st := sr.Stats()
			fin["stats"] = []int{st.Gets, st.Misses, st.Puts, st.Retains, st.Evictions}
		}
		t.Ev("final", fin)
	}
	// race family: a shrinking Resize against Puts of used blocks with new bases on a full
	// cache, and Drop against Put/Get - the windows in which a non-atomic operation shows
	nrace := 3000
	if tr.Tier() == "thorough" {
		nrace = 20000
	}
	for i := 0; i < nrace; i++ {
		policy := []string{"LRU", "FIFO", "Random"}[i%3]
		capN := 3 + rnd.Intn(2)
		c := newCache(policy, capN)
		nb := capN + 3
		var bl [][]interface{}
		var blocks []bgzf.Block
		rbases := []int64{1000, 2000, 3000}
		for j := 0; j < nb; j++ {
			base := rbases[j%3] + int64(j/3)*3000 // distinct bases: 1000,2000,3000,4000,...
			bl = append(bl, []interface{}{base, true})
			blocks = append(blocks, bgzf.VerifNewBlock(base, 1+j+1, true))
		}
		var allBases []int64
		for j := 0; j < nb; j++ {
			allBases = append(allBases, blocks[j].Base())
		}
		t.Begin(policy+"/race", tr.M{"policy": policy, "cap": capN, "bases": allBases, "blocks": bl, "G": 3})
		var mu sync.Mutex
		logEv := func(ev string, m tr.M) {
			mu.Lock()
			t.Ev(ev, m)
			mu.Unlock()
		}
		idOf := func(b bgzf.Block) int {
			if b == nil {
				return 0
			}
			for k, x := range blocks {
				if x == b {
					return k + 1
				}
			}
			return -1
		}
		// fill the cache (goroutine 1, sequentially)
		for j := 1; j <= capN; j++ {
			logEv("call", tr.M{"g": 1, "op": "put", "id": j})
			ev, ret := c.Put(blocks[j-1])
			logEv("ret", tr.M{"g": 1, "op": "put", "evid": idOf(ev), "ret": ret})
		}
		// the racing part records its events with a global atomic sequence number and no
		// lock (a logging mutex would serialise exactly the window that is being probed)
		type sev struct {
			seq int64
			ev  string
			m   tr.M
		}
		var seq int64
		evs := make([][]sev, 4)
		rec := func(g int, ev string, m tr.M) {
			evs[g] = append(evs[g], sev{atomic.AddInt64(&seq, 1), ev, m})
		}
		var ready, gate int32
		var wg sync.WaitGroup
		shrink := 1 + rnd.Intn(capN-1)
		spin := func() {
			atomic.AddInt32(&ready, 1)
			for atomic.LoadInt32(&gate) == 0 {
			}
		}
		res := watch.Call(marker, func() {
			wg.Add(3)
			go func() {
				defer wg.Done()
				spin()
				if i%3 != 2 {
					rec(1, "call", tr.M{"g": 1, "op": "resize", "n": shrink})
					c.Resize(shrink)
					rec(1, "ret", tr.M{"g": 1, "op": "resize"})
				} else {
					rec(1, "call", tr.M{"g": 1, "op": "drop", "n": shrink})
					c.Drop(shrink)
					rec(1, "ret", tr.M{"g": 1, "op": "drop"})
				}
			}()
			for g := 2; g <= 3; g++ {
				go func(g int) {
					defer wg.Done()
					id := capN + g - 1
					spin()
					rec(g, "call", tr.M{"g": g, "op": "put", "id": id})
					ev, ret := c.Put(blocks[id-1])
					rec(g, "ret", tr.M{"g": g, "op": "put", "evid": idOf(ev), "ret": ret})
					rec(g, "call", tr.M{"g": g, "op": "len"})
					l := c.Len()
					rec(g, "ret", tr.M{"g": g, "op": "len", "n": l})
				}(g)
			}
			for atomic.LoadInt32(&ready) < 3 {
				runtime.Gosched()
			}
			atomic.StoreInt32(&gate, 1)
			wg.Wait()
		})
		// merge by sequence number
		var all []sev
		for _, e := range evs {
			all = append(all, e...)
		}
		sort.Slice(all, func(a, b int) bool { return all[a].seq < all[b].seq })
		for _, e := range all {
			t.Ev(e.ev, e.m)
		}
		if res.Res != "ok" {
			logEv("abort", tr.M{"res": res.Res, "sig": policy + "/race/" + res.Res, "detail": res.Detail})
			continue
		}
		var peek [][]interface{}
		for _, base := range allBases {
			ex, next := c.Peek(base)
			id := 0
			if ex {
				id = int(next-base) - 1
			}
			peek = append(peek, []interface{}{base, ex, id})
		}
		t.Ev("final", tr.M{"len": c.Len(), "cap": c.Cap(), "peek": peek})
	}
	// gated family: the blocks are wrappers whose exported accessors (Base, NextBase, Used - the only
	// methods a cache calls) act as a rendezvous: the first goroutine to look at a block inside a cache
	// operation waits a moment for the other one to get there too.  If an operation examines blocks
	// outside the cache's write lock, both are then inside at once and whatever is not atomic shows
	// (double removal, a panic under the lock, Len/Peek out of step); if it holds the lock, the other
	// cannot arrive, the wait times out and the history is a sequential one.
	ngated := 1500
	if tr.Tier() == "thorough" {
		ngated = 20000
	}
	for i := 0; i < ngated; i++ {
		policy := []string{"LRU", "FIFO", "Random"}[i%3]
		capN := 2 + rnd.Intn(3)
		c := newCache(policy, capN)
		gt := &gate{}
		nb := capN + 2
		var bl [][]interface{}
		var blocks []bgzf.Block
		gbases := []int64{1000, 2000, 3000, 4000, 5000, 6000, 7000}
		var allBases []int64
		for j := 0; j < nb; j++ {
			base := gbases[j]
			if j == nb-1 && rnd.Intn(2) == 0 {
				base = gbases[rnd.Intn(capN)] // the last block duplicates a cached base
			}
			used := rnd.Intn(3) > 0
			bl = append(bl, []interface{}{base, used})
			blocks = append(blocks, &gblk{Block: bgzf.VerifNewBlock(base, 1+j+1, used), g: gt})
			allBases = append(allBases, base)
		}
		t.Begin(policy+"/gated", tr.M{"policy": policy, "cap": capN, "bases": gbases[:nb], "blocks": bl, "G": 2})
		idOf := func(b bgzf.Block) int {
			if b == nil {
				return 0
			}
			for k, x := range blocks {
				if x == b {
					return k + 1
				}
			}
			return -1
		}
		for j := 1; j <= capN; j++ {
			t.Ev("call", tr.M{"g": 1, "op": "put", "id": j})
			ev, ret := c.Put(blocks[j-1])
			t.Ev("ret", tr.M{"g": 1, "op": "put", "evid": idOf(ev), "ret": ret})
		}
		type sev struct {
			seq int64
			ev  string
			m   tr.M
		}
		var seq int64
		evs := make([][]sev, 3)
		rec := func(g int, ev string, m tr.M) {
			evs[g] = append(evs[g], sev{atomic.AddInt64(&seq, 1), ev, m})
		}
		// both goroutines aim at the same cached block most of the time
		target := gbases[rnd.Intn(capN)]
		pick := func() func(g int) {
			base := target
			if rnd.Intn(4) == 0 {
				base = gbases[rnd.Intn(nb)]
			}
			switch k := rnd.Intn(10); {
			case k < 4:
				return func(g int) {
					rec(g, "call", tr.M{"g": g, "op": "get", "base": base})
					b := c.Get(base)
					rid, rbase := idOf(b), int64(0)
					if b != nil {
						rbase = b.(*gblk).Block.Base()
					}
					rec(g, "ret", tr.M{"g": g, "op": "get", "r": rid, "rbase": rbase})
				}
			case k < 6:
				id := capN + 1 + rnd.Intn(2)
				return func(g int) {
					id := id + 0
					if g == 2 && id == capN+1 {
						id = capN + 2 // the two goroutines never put the same block object
					} else if g == 1 && id == capN+2 {
						id = capN + 1
					}
					rec(g, "call", tr.M{"g": g, "op": "put", "id": id})
					ev, ret := c.Put(blocks[id-1])
					evid := idOf(ev)
					rec(g, "ret", tr.M{"g": g, "op": "put", "evid": evid, "ret": ret})
					if evid > 0 && evid != id {
						// the caller recycles the block it was handed back for another member, as the reader does
						nbase := gbases[(evid+g)%nb]
						rec(g, "overwrite", tr.M{"g": g, "id": evid, "base": nbase, "used": true})
						bgzf.VerifOverwriteBlock(ev.(*gblk).Block, nbase, 1+evid, true)
					}
				}
			case k < 7:
				return func(g int) {
					rec(g, "call", tr.M{"g": g, "op": "peek", "base": base})
					ex, next := c.Peek(base)
					pid := 0
					if ex {
						pid = int(next-base) - 1
					}
					rec(g, "ret", tr.M{"g": g, "op": "peek", "exists": ex, "id": pid})
				}
			case k < 8:
				return func(g int) {
					rec(g, "call", tr.M{"g": g, "op": "len"})
					l := c.Len()
					rec(g, "ret", tr.M{"g": g, "op": "len", "n": l})
				}
			case k < 9:
				nn := 1 + rnd.Intn(2)
				return func(g int) {
					rec(g, "call", tr.M{"g": g, "op": "drop", "n": nn})
					c.Drop(nn)
					rec(g, "ret", tr.M{"g": g, "op": "drop"})
				}
			default:
				nn := 1 + rnd.Intn(capN)
				return func(g int) {
					rec(g, "call", tr.M{"g": g, "op": "resize", "n": nn})
					c.Resize(nn)
					rec(g, "ret", tr.M{"g": g, "op": "resize"})
				}
			}
		}
		opsG := []func(int){pick(), pick()}
		var ready, gateOpen int32
		var wg sync.WaitGroup
		panics := make([]string, 3)
		atomic.StoreInt32(&gt.budget, 4)
		res := watch.Call(marker, func() {
			wg.Add(2)
			for g := 1; g <= 2; g++ {
				go func(g int) {
					defer wg.Done()
					defer func() {
						if x := recover(); x != nil {
							panics[g] = fmt.Sprint(x)
						}
					}()
					atomic.AddInt32(&ready, 1)
					for atomic.LoadInt32(&gateOpen) == 0 {
					}
					opsG[g-1](g)
				}(g)
			}
			for atomic.LoadInt32(&ready) < 2 {
				runtime.Gosched()
			}
			atomic.StoreInt32(&gt.armed, 1)
			atomic.StoreInt32(&gateOpen, 1)
			wg.Wait()
			atomic.StoreInt32(&gt.armed, 0)
		})
		var all []sev
		for _, e := range evs {
			all = append(all, e...)
		}
		sort.Slice(all, func(a, b int) bool { return all[a].seq < all[b].seq })
		for _, e := range all {
			t.Ev(e.ev, e.m)
		}
		bad := false
		for g := 1; g <= 2; g++ {
			if panics[g] != "" {
				t.Ev("panic", tr.M{"g": g, "detail": panics[g], "sig": policy + "/gated/panic"})
				bad = true
			}
		}
		if res.Res != "ok" {
			t.Ev("abort", tr.M{"res": res.Res, "sig": policy + "/gated/" + res.Res, "detail": res.Detail})
			continue
		}
		if bad {
			continue
		}
		var peek [][]interface{}
		var flen, fcap int
		fres := watch.Call(marker, func() {
			for _, base := range gbases[:nb] {
				ex, next := c.Peek(base)
				id := 0
				if ex {
					id = int(next-base) - 1
				}
				peek = append(peek, []interface{}{base, ex, id})
			}
			flen, fcap = c.Len(), c.Cap()
		})
		if fres.Res != "ok" {
			t.Ev("abort", tr.M{"res": fres.Res, "sig": policy + "/gated/final-" + fres.Res, "detail": fres.Detail})
			continue
		}
		t.Ev("final", tr.M{"len": flen, "cap": fcap, "peek": peek})
	}
	// recorder family: a StatsRecorder around a cache (a plain wrapper of LRU/FIFO/Random) whose Put and
	// Get, once they have taken effect, wait a moment for the other goroutine to finish.  The recorder
	// counts under its own lock, so the other goroutine's Get/Put/Stats through the recorder cannot
	// finish before the paused operation has been counted: the wait times out and the history is a
	// sequential one.  If effect and count are not one atomic step, the other goroutine sees a hit on
	// a block that has not been put according to the statistics, and the like.
	nrec := 300
	if tr.Tier() == "thorough" {
		nrec = 6000
	}
	for i := 0; i < nrec; i++ {
		policy := []string{"LRU", "FIFO", "Random"}[i%3]
		capN := 1 + rnd.Intn(3)
		inner := newCache(policy, capN)
		pc := &pauseCache{Cache: inner}
		sr := &cache.StatsRecorder{Cache: pc}
		nb := capN + 3
		sbases := []int64{1000, 2000, 3000, 4000, 5000, 6000}
		var bl [][]interface{}
		var blocks []bgzf.Block
		for j := 0; j < nb; j++ {
			used := rnd.Intn(4) > 0
			bl = append(bl, []interface{}{sbases[j], used})
			blocks = append(blocks, bgzf.VerifNewBlock(sbases[j], 1+j+1, used))
		}
		t.Begin(policy+"/recorder", tr.M{"policy": policy, "cap": capN, "bases": sbases[:nb], "blocks": bl, "G": 2})
		idOf := func(b bgzf.Block) int {
			if b == nil {
				return 0
			}
			for k, x := range blocks {
				if x == b {
					return k + 1
				}
			}
			return -1
		}
		type sev struct {
			seq int64
			ev  string
			m   tr.M
		}
		var seq int64
		evs := make([][]sev, 3)
		rec := func(g int, ev string, m tr.M) {
			evs[g] = append(evs[g], sev{atomic.AddInt64(&seq, 1), ev, m})
		}
		statsOf := func() []int {
			st := sr.Stats()
			return []int{st.Gets, st.Misses, st.Puts, st.Retains, st.Evictions}
		}
		put := func(g, id int) {
			rec(g, "call", tr.M{"g": g, "op": "put", "id": id})
			ev, ret := sr.Put(blocks[id-1])
			rec(g, "ret", tr.M{"g": g, "op": "put", "evid": idOf(ev), "ret": ret})
		}
		get := func(g int, base int64) {
			rec(g, "call", tr.M{"g": g, "op": "get", "base": base})
			b := sr.Get(base)
			rid, rbase := idOf(b), int64(0)
			if b != nil {
				rbase = b.Base()
			}
			rec(g, "ret", tr.M{"g": g, "op": "get", "r": rid, "rbase": rbase})
		}
		stats := func(g int) {
			rec(g, "call", tr.M{"g": g, "op": "stats"})
			st := statsOf()
			rec(g, "ret", tr.M{"g": g, "op": "stats", "stats": st})
		}
		// goroutine 1 fills part of the cache, sequentially (blocks 1..pre)
		pre := rnd.Intn(capN + 1)
		for j := 1; j <= pre; j++ {
			put(1, j)
		}
		// then one paused operation of goroutine 1 against two or three operations of goroutine 2
		g1put := rnd.Intn(3) > 0
		g1id := pre + 1 // a block not yet in the cache
		g1base := sbases[rnd.Intn(pre+1)]
		var g2 []func()
		for k := 0; k < 1+rnd.Intn(2); k++ {
			if rnd.Intn(3) == 0 {
				id := pre + 2 + k // blocks goroutine 1 never puts
				g2 = append(g2, func() { put(2, id) })
			} else {
				base := sbases[rnd.Intn(pre+2)]
				if g1put && rnd.Intn(2) == 0 {
					base = sbases[g1id-1]
				}
				g2 = append(g2, func() { get(2, base) })
			}
		}
		g2 = append(g2, func() { stats(2) })
		done := make(chan struct{})
		started := make(chan struct{})
		pc.arm(done, started)
		var wg sync.WaitGroup
		res := watch.Call(marker, func() {
			wg.Add(2)
			go func() {
				defer wg.Done()
				if g1put {
					put(1, g1id)
				} else {
					get(1, g1base)
				}
			}()
			go func() {
				defer wg.Done()
				defer close(done)
				select {
				case <-started: // goroutine 1's operation has taken effect in the cache
				case <-time.After(50 * time.Millisecond):
				}
				for _, f := range g2 {
					f()
				}
			}()
			wg.Wait()
		})
		var all []sev
		for _, e := range evs {
			all = append(all, e...)
		}
		sort.Slice(all, func(a, b int) bool { return all[a].seq < all[b].seq })
		for _, e := range all {
			t.Ev(e.ev, e.m)
		}
		if res.Res != "ok" {
			t.Ev("abort", tr.M{"res": res.Res, "sig": policy + "/recorder/" + res.Res, "detail": res.Detail})
			continue
		}
		var peek [][]interface{}
		for _, base := range sbases[:nb] {
			ex, next := inner.Peek(base)
			id := 0
			if ex {
				id = int(next-base) - 1
			}
			peek = append(peek, []interface{}{base, ex, id})
		}
		t.Ev("final", tr.M{"len": inner.Len(), "cap": inner.Cap(), "peek": peek, "stats": statsOf()})
	}
	tr.Summary(tr.M{"scenarios": t.Scen, "lines": t.Lines, "sigs": t.Sigs()})
}

// pauseCache passes every call on to the cache it wraps; once armed, its next Put or Get, after it
// has taken effect, signals started and waits until done is closed (2 ms at most).
type pauseCache struct {
	cache.Cache
	mu      sync.Mutex
	done    chan struct{}
	started chan struct{}
}

func (p *pauseCache) arm(done, started chan struct{}) {
	p.mu.Lock()
	p.done, p.started = done, started
	p.mu.Unlock()
}

func (p *pauseCache) pause() {
	p.mu.Lock()
	done, started := p.done, p.started
	p.done, p.started = nil, nil
	p.mu.Unlock()
	if done == nil {
		return
	}
	close(started)
	select {
	case <-done:
	case <-time.After(2 * time.Millisecond):
	}
}

func (p *pauseCache) Put(b bgzf.Block) (bgzf.Block, bool) {
	e, r := p.Cache.Put(b)
	p.pause()
	return e, r
}

func (p *pauseCache) Get(base int64) bgzf.Block {
	b := p.Cache.Get(base)
	p.pause()
	return b
}

var _ = fmt.Sprint


// gate is the rendezvous of the gated family; budget bounds the number of waits per scenario.
type gate struct {
	armed, arrived, budget int32
}

func (g *gate) meet() {
	if atomic.LoadInt32(&g.armed) == 0 || atomic.AddInt32(&g.budget, -1) < 0 {
		return
	}
	// every other arrival pauses for a moment at the accessor: long enough for a whole operation of
	// the other goroutine (and the recycling of a block it is handed) to take place if nothing - the
	// cache's lock - keeps it out
	if atomic.AddInt32(&g.arrived, 1)%2 == 1 {
		time.Sleep(time.Millisecond)
	}
}

// gblk wraps a Block; the exported accessors are the rendezvous points.
type gblk struct {
	bgzf.Block
	g *gate
}

func (b *gblk) Base() int64     { b.g.meet(); return b.Block.Base() }
func (b *gblk) NextBase() int64 { b.g.meet(); return b.Block.NextBase() }
func (b *gblk) Used() bool      { b.g.meet(); return b.Block.Used() }
