// Package tr writes ndjson traces in the protocol the TLA+ trace specs read:
// every scenario starts with a header {"ev":"T","sc":k,"sig":...}; every line carries "sc".
package tr

import (
	"bufio"
	"encoding/json"
	"fmt"
	"math/rand"
	"os"
	"strconv"
	"sync"
	"sync/atomic"

	"verif/harness/watch"
)

type M = map[string]interface{}

type Writer struct {
	mu    sync.Mutex
	f     *os.File
	w     *bufio.Writer
	sc    int
	Lines int
	Scen  int
	sigs  map[string]int
}

func Create(path string) *Writer {
	f, err := os.Create(path)
	if err != nil {
		panic(err)
	}
	return &Writer{f: f, w: bufio.NewWriterSize(f, 1<<20), sigs: map[string]int{}}
}

// Begin starts a scenario; hdr may carry any constants the trace spec needs.
func (t *Writer) Begin(sig string, hdr M) int {
	t.mu.Lock()
	defer t.mu.Unlock()
	if n := atomic.LoadInt64(&watch.Hangs); n >= watch.HangBudget {
		// enough hung calls are on record (each is a violation by itself): stop here, at a scenario
		// boundary, with everything written so far flushed
		t.w.Flush()
		Summary(M{"scenarios": t.Scen, "lines": t.Lines, "sigs": t.sigs, "stopped_after_hangs": n})
		os.Exit(0)
	}
	t.sc++
	t.Scen++
	t.sigs[sig]++
	m := M{"ev": "T", "sc": t.sc, "sig": sig}
	for k, v := range hdr {
		m[k] = v
	}
	t.emit(m)
	return t.sc
}

func (t *Writer) Ev(ev string, m M) {
	t.mu.Lock()
	defer t.mu.Unlock()
	o := M{"ev": ev, "sc": t.sc}
	for k, v := range m {
		o[k] = v
	}
	t.emit(o)
}

func (t *Writer) emit(m M) {
	b, err := json.Marshal(m)
	if err != nil {
		panic(err)
	}
	t.w.Write(b)
	t.w.WriteByte('\n')
	t.w.Flush() // a crash of the process must not lose the lines that lead to it
	t.Lines++
}

func (t *Writer) Close() {
	t.w.Flush()
	t.f.Close()
}

func (t *Writer) Sigs() map[string]int { return t.sigs }

// Summary prints the driver's summary line for the runner.
func Summary(m M) {
	b, _ := json.Marshal(m)
	fmt.Println("SUMMARY " + string(b))
}

func Seed() int64 {
	s, err := strconv.ParseInt(os.Getenv("VERIF_SEED"), 10, 64)
	if err != nil {
		return 1
	}
	return s
}

func Tier() string {
	if os.Getenv("VERIF_TIER") == "thorough" {
		return "thorough"
	}
	return "quick"
}

func Rand(salt int64) *rand.Rand { return rand.New(rand.NewSource(Seed()*1000003 + salt)) }
