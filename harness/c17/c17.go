// Package c17 drives bgzf/index merge strategies and records (in, out, out2) per call.
package c17

import (
	"math"
	"fmt"

	"github.com/biogo/hts/bgzf"
	"github.com/biogo/hts/bgzf/index"

	"verif/harness/tr"
)

type off = [2]int64

func enc(cs []bgzf.Chunk) [][2]off {
	out := make([][2]off, 0, len(cs))
	for _, c := range cs {
		out = append(out, [2]off{{c.Begin.File, int64(c.Begin.Block)}, {c.End.File, int64(c.End.Block)}})
	}
	return out
}

func lessV(a, b bgzf.Offset) bool {
	return a.File < b.File || (a.File == b.File && a.Block < b.Block)
}

type strat struct {
	name string
	near int64
	f    index.MergeStrategy
}

func strategies(nears []int64) []strat {
	s := []strat{{"identity", 0, index.Identity}, {"adjacent", 0, index.Adjacent}, {"squash", 0, index.Squash}}
	for _, n := range nears {
		s = append(s, strat{"compressor", n, index.CompressorStrategy(n)})
	}
	return s
}

func runOne(t *tr.Writer, class string, in []bgzf.Chunk, ss []strat) {
	t.Begin("merge/"+class, tr.M{"n": len(in)})
	for _, s := range ss {
		a := append([]bgzf.Chunk(nil), in...)
		logged := enc(a)
		var out, out2 []bgzf.Chunk
		res := "ok"
		func() {
			defer func() {
				if r := recover(); r != nil {
					res = fmt.Sprint("panic: ", r)
				}
			}()
			out = s.f(a)
			out2 = s.f(append([]bgzf.Chunk(nil), out...))
		}()
		// a threshold beyond every distance that occurs in the lists (file offsets stay below 2^30) is
		// logged as 2^30: the property speaks of distances only, and TLC's integers have 32 bits
		near := s.near
		if near > 1<<30 {
			near = 1 << 30
		}
		t.Ev("merge", tr.M{"sig": "merge/" + s.name + "/" + class, "strat": s.name, "near": near,
			"in": logged, "out": enc(out), "out2": enc(out2), "res": res})
	}
}

// Run enumerates every sorted list of at most maxLen chunks over the model's offset
// alphabet (the constants of MergeMC), then seeded random real-scale lists.
func Run(out string) {
	t := tr.Create(out)
	defer t.Close()
	maxLen, files, blocks, nears, nrand := 3, []int64{0, 1, 2}, []uint16{0, 1}, []int64{0, 1}, 300
	if tr.Tier() == "thorough" {
		maxLen, nears, nrand = 4, []int64{0, 1, 2}, 20000
	}
	var offs []bgzf.Offset
	for _, f := range files {
		for _, b := range blocks {
			offs = append(offs, bgzf.Offset{File: f, Block: b})
		}
	}
	var chunks []bgzf.Chunk
	for _, b := range offs {
		for _, e := range offs {
			if !lessV(e, b) {
				chunks = append(chunks, bgzf.Chunk{Begin: b, End: e})
			}
		}
	}
	ss := strategies(append(nears, 1<<48))
	nmodel := 0
	var rec func(cur []bgzf.Chunk)
	rec = func(cur []bgzf.Chunk) {
		runOne(t, "model", cur, ss)
		nmodel++
		if len(cur) == maxLen {
			return
		}
		for _, c := range chunks {
			if len(cur) > 0 && lessV(c.Begin, cur[len(cur)-1].Begin) {
				continue
			}
			rec(append(append([]bgzf.Chunk(nil), cur...), c))
		}
	}
	rec(nil)

	// real-scale random lists: file offsets up to 2^30, block offsets up to 65535,
	// many touching / nested / duplicate / zero-length neighbours
	rnd := tr.Rand(17)
	rs := strategies([]int64{0, 1, 100, 65536, 1 << 20, -1, 1<<47 - 1, 1 << 47, 1<<48 + 1, 1 << 62, math.MaxInt64})
	for i := 0; i < nrand; i++ {
		n := rnd.Intn(50)
		var cur []bgzf.Chunk
		pos := bgzf.Offset{File: int64(rnd.Intn(1000)), Block: uint16(rnd.Intn(65536))}
		step := []int64{0, 0, 1, 1, 100, 65536, 1 << 16, 1 << 22}[rnd.Intn(8)]
		for j := 0; j < n; j++ {
			// begin: same, touching previous end, or further
			b := pos
			switch rnd.Intn(5) {
			case 0:
			case 1:
				b.Block = uint16(min64(65535, int64(b.Block)+int64(rnd.Intn(3))))
			case 2:
				if len(cur) > 0 && !lessV(cur[len(cur)-1].End, pos) {
					b = cur[len(cur)-1].End
				}
			default:
				b.File += rnd.Int63n(step + 1)
				if b.File != pos.File {
					b.Block = uint16(rnd.Intn(65536))
				}
			}
			if lessV(b, pos) {
				b = pos
			}
			e := b
			switch rnd.Intn(4) {
			case 0: // zero length
			case 1:
				e.Block = uint16(min64(65535, int64(e.Block)+int64(rnd.Intn(100))))
			default:
				e.File += rnd.Int63n(2*step + 2)
				if e.File != b.File {
					e.Block = uint16(rnd.Intn(65536))
				} else if e.Block < b.Block {
					e.Block = b.Block
				}
			}
			cur = append(cur, bgzf.Chunk{Begin: b, End: e})
			pos = b
		}
		runOne(t, "random", cur, rs)
	}
	tr.Summary(tr.M{"scenarios": t.Scen, "lines": t.Lines, "model_lists": nmodel, "random_lists": nrand, "sigs": t.Sigs()})
}

func min64(a, b int64) int64 {
	if a < b {
		return a
	}
	return b
}
