package cr

import (
	"encoding/json"
	"fmt"
	"os"
	"time"

	"verif/harness/bgz"
	"verif/harness/tr"
	"verif/harness/watch"
)

// RunReplay re-executes one recorded reader scenario (a replay file written by a check, or
// any JSON object with a "scenario" list of trace events) on the real reader: the file is
// rebuilt from the layout in the scenario's header, the calls are taken from the events,
// and the new trace - with the comparison against an uncached run of the same calls - is
// written to out.
func RunReplay(in, out string) {
	raw, err := os.ReadFile(in)
	if err != nil {
		fmt.Fprintln(os.Stderr, err)
		os.Exit(2)
	}
	var doc struct {
		Scenario []map[string]interface{} `json:"scenario"`
	}
	if err := json.Unmarshal(raw, &doc); err != nil || len(doc.Scenario) == 0 {
		fmt.Fprintln(os.Stderr, "no scenario in", in)
		os.Exit(2)
	}
	hdr := doc.Scenario[0]
	num := func(v interface{}) int { f, _ := v.(float64); return int(f) }
	var lay [][]int
	for _, m := range hdr["file"].([]interface{}) {
		mm := m.([]interface{})
		lay = append(lay, []int{num(mm[0]), num(mm[1]), num(mm[2])})
	}
	// the member encoder is deterministic: find the build parameters that give this layout
	var f *bgz.File
search:
	for _, eof := range []bool{true, false} {
		for _, level := range []int{-1, 0, 1, 2, 3, 4, 5, 6, 7, 8, 9} {
			for _, marker := range []bool{false, true} {
				var shape []int
				n := len(lay)
				if eof {
					n--
				}
				for i := 0; i < n; i++ {
					shape = append(shape, lay[i][2])
				}
				c := bgz.BuildFile(shape, eof, level, marker)
				if len(c.Members) != len(lay) {
					continue
				}
				same := true
				for i, m := range c.Members {
					same = same && int(m.Base) == lay[i][0] && m.Size == lay[i][1] && m.Len == lay[i][2]
				}
				if same {
					f = c
					break search
				}
			}
		}
	}
	if f == nil {
		fmt.Fprintln(os.Stderr, "the layout of the scenario could not be rebuilt")
		os.Exit(2)
	}
	var ops []bgz.ROp
	for _, e := range doc.Scenario[1:] {
		switch e["ev"] {
		case "read":
			if b, _ := e["byte"].(bool); b {
				ops = append(ops, bgz.ROp{K: "readbyte"})
			} else {
				ops = append(ops, bgz.ROp{K: "read", N: num(e["n"])})
			}
		case "seek":
			off := e["off"].([]interface{})
			for mi, m := range f.Members {
				if int(m.Base) == num(off[0]) {
					ops = append(ops, bgz.ROp{K: "seek", M: mi, Off: num(off[1])})
				}
			}
		case "blocked":
			v, _ := e["v"].(bool)
			ops = append(ops, bgz.ROp{K: "blocked", V: v})
		case "setcache":
			st, _ := e["stats"].(bool)
			pre, _ := e["pre"].(bool)
			kind, _ := e["kind"].(string)
			ops = append(ops, bgz.ROp{K: "setcache", Kind: kind, Cap: num(e["cap"]), Stats: st, Pre: pre})
		case "close":
			ops = append(ops, bgz.ROp{K: "close"})
		case "stuck":
			// the call that did not return: the operation is the one the event names
			switch e["op"] {
			case "read":
				ops = append(ops, bgz.ROp{K: "read", N: 1})
			case "close":
				ops = append(ops, bgz.ROp{K: "close"})
			}
		}
	}
	watch.Threshold = 10 * time.Second
	t := tr.Create(out)
	defer t.Close()
	rd := num(hdr["rd"])
	probe := tr.Create("/dev/null")
	ref := bgz.RunReader(probe, bgz.RScenario{Class: "ref", File: f, CutLen: -1, RD: rd, Ops: stripCache(ops)})
	probe.Close()
	bgz.RunReader(t, bgz.RScenario{Class: "cached", File: f, CutLen: -1, RD: rd, Ops: ops, Ref: ref})
	tr.Summary(tr.M{"scenarios": t.Scen, "lines": t.Lines, "sigs": t.Sigs()})
}
