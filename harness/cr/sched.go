package cr

import (
	"encoding/json"
	"fmt"
	"os"
	"sync"
	"time"

	"github.com/biogo/hts/bgzf"

	"verif/harness/bgz"
	"verif/harness/tr"
	"verif/harness/watch"
)

// A schedule is one behaviour of ReaderI (spec/BgzfReader/ReaderSched.tla): the API history and,
// in order, the gates its steps pass - hook points of bgzf/reader.go with the decompressor involved,
// calls into the block cache, starts of API calls.
type schedule struct {
	N     int             `json:"n"`
	RD    int             `json:"rd"`
	Cap   int             `json:"cap"`
	Ops   [][]interface{} `json:"ops"`
	Steps [][]interface{} `json:"steps"`
}

type gstep struct {
	point string
	dec   int
}

// gate holds every goroutine that arrives at a scheduled gate until it is that gate's turn.  A gate
// that is not (or no longer) in the schedule lets its caller pass.  When the real run and the schedule
// part - a wait exceeds its budget - all gates open and stay open: the schedule is a way to reach an
// interleaving, never a judgement.
type gate struct {
	mu       sync.Mutex
	steps    []gstep
	i        int
	armed    bool
	open     bool
	diverged bool
	bind     map[int]int // real worker id -> model decompressor
	bound    map[int]bool
	budget   time.Duration
}

func (g *gate) match(s gstep, point string, worker int) bool {
	if point == "l.wait" {
		return s.point == "l.idle" || s.point == "l.busy"
	}
	if s.point != point {
		return false
	}
	if s.dec == 0 || worker == 0 {
		return true
	}
	if d, ok := g.bind[worker]; ok {
		return d == s.dec
	}
	return !g.bound[s.dec]
}

func (g *gate) arrive(point string, worker int) {
	// the step that reads a member is decided where the read head is requested ("d.start"); the hooks
	// after the read are not gates
	if point == "d.read" || point == "d.fail" {
		return
	}
	if point == "d.start" {
		point = "d.read"
	}
	// likewise a receive is decided before it happens: the gates are the hooks in front of the receives
	// (they carry no decompressor: which one is received is up to the channel)
	switch point {
	case "a.take", "l.idle", "l.busy", "n.recv":
		return
	case "a.wait":
		point = "a.take"
	case "n.wait":
		point = "n.recv"
	}
	start := time.Now()
	g.mu.Lock()
	for {
		if g.open {
			break
		}
		if !g.armed && point != "a.take" {
			break // the load of the first member inside NewReader
		}
		if !g.armed && time.Since(start) < 2*time.Second {
			// the read-ahead goroutine takes its first step only when the cache is attached
			g.mu.Unlock()
			time.Sleep(50 * time.Microsecond)
			g.mu.Lock()
			start2 := time.Now()
			_ = start2
			continue
		}
		if g.armed {
			j := -1
			for k := g.i; k < len(g.steps); k++ {
				if g.match(g.steps[k], point, worker) {
					j = k
					break
				}
			}
			if j < 0 {
				break // not scheduled (any more)
			}
			if j == g.i {
				if s := g.steps[j]; s.dec != 0 && worker != 0 {
					g.bind[worker] = s.dec
					g.bound[s.dec] = true
				}
				g.i++
				if g.i == len(g.steps) {
					g.open = true
				}
				break
			}
		}
		if time.Since(start) > g.budget {
			g.open, g.diverged = true, true
			if os.Getenv("VERIF_DEBUG") != "" {
				fmt.Fprintf(os.Stderr, "diverged: %s/%d waited at step %d, expected %v\n", point, worker, g.i, g.steps[g.i])
			}
			break
		}
		g.mu.Unlock()
		time.Sleep(50 * time.Microsecond)
		g.mu.Lock()
	}
	g.mu.Unlock()
}

// gateCache makes every call into the cache a gate.
type gateCache struct {
	bgzf.Cache
	g *gate
}

func (c *gateCache) Get(base int64) bgzf.Block { c.g.arrive("c.get", 0); return c.Cache.Get(base) }
func (c *gateCache) Put(b bgzf.Block) (bgzf.Block, bool) {
	c.g.arrive("c.put", 0)
	return c.Cache.Put(b)
}
func (c *gateCache) Peek(base int64) (bool, int64) {
	c.g.arrive("c.peek", 0)
	return c.Cache.Peek(base)
}

// RunSched replays schedules printed by TLC (one JSON object per line in the file `in`) on the real
// reader and records the API traces for ReaderP.
func RunSched(in, out string) {
	raw, err := os.ReadFile(in)
	if err != nil {
		fmt.Fprintln(os.Stderr, err)
		os.Exit(2)
	}
	var scheds []schedule
	if err := json.Unmarshal(raw, &scheds); err != nil {
		fmt.Fprintln(os.Stderr, "schedules:", err)
		os.Exit(2)
	}
	t := tr.Create(out)
	defer t.Close()
	watch.Threshold = 10 * time.Second
	r := tr.Rand(4242)
	followed, total, reachedSum, stepSum := 0, 0, 0, 0
	for si, sc := range scheds {
		var sizes []int
		for k := 0; k < sc.N; k++ {
			sizes = append(sizes, 3+r.Intn(7))
		}
		f := bgz.BuildFile(sizes, false, 1, false)
		g := &gate{bind: map[int]int{}, bound: map[int]bool{}, budget: 300 * time.Millisecond}
		for _, s := range sc.Steps {
			p, _ := s[0].(string)
			d, _ := s[1].(float64)
			g.steps = append(g.steps, gstep{p, int(d)})
		}
		// the model's cache is there from the start: the first operation attaches the real one, and only
		// then do the gates start counting (until then every goroutine of the reader is held at its first gate)
		ops := []bgz.ROp{{K: "setcache", Kind: []string{"LRU", "Random", "FIFO"}[si%3], Cap: sc.Cap}}
		for _, o := range sc.Ops {
			k, _ := o[0].(string)
			m, _ := o[1].(float64)
			switch k {
			case "next":
				// the model's next: the current block is read to its end, the following one is entered unread
				ops = append(ops, bgz.ROp{K: "rest"}, bgz.ROp{K: "read", N: 0})
			case "seek":
				ops = append(ops, bgz.ROp{K: "seek", M: int(m) - 1})
			case "close":
				ops = append(ops, bgz.ROp{K: "close"})
			}
		}
		if n := len(ops); ops[n-1].K != "close" {
			// a directed schedule ends where the model variant it comes from goes wrong: visit every member
			// afterwards, so that whatever the run left behind (a stale cache entry, say) is read
			for k := 0; k < sc.N; k++ {
				ops = append(ops, bgz.ROp{K: "seek", M: k}, bgz.ROp{K: "cross"})
			}
			ops = append(ops, bgz.ROp{K: "close"})
		}
		bgzf.VerifHook = func(point string, worker int, arg int64) { g.arrive(point, worker) }
		failedBefore := false
		_ = failedBefore
		rep := bgz.RunReader(t, bgz.RScenario{Class: "sched", File: f, CutLen: -1, RD: sc.RD, Ops: ops,
			Hdr: tr.M{"steps": len(g.steps)},
			BeforeOp: func(i int, o bgz.ROp) {
				if i == 1 {
					g.mu.Lock()
					g.armed = true
					g.mu.Unlock()
				}
				if i >= 1 && !(o.K == "read" && o.N == 0) {
					g.arrive("api", 0)
				}
			},
			WrapCache: func(c bgzf.Cache) bgzf.Cache { return &gateCache{Cache: c, g: g} }})
		bgzf.VerifHook = nil
		g.mu.Lock()
		g.open = true
		reached, div := g.i, g.diverged
		g.mu.Unlock()
		total++
		if !div {
			followed++
		}
		reachedSum += reached
		stepSum += len(g.steps)
		_ = rep
	}
	tr.Summary(tr.M{"scenarios": t.Scen, "lines": t.Lines, "followed": followed, "schedules": total, "gates_reached": reachedSum, "gates": stepSum, "sigs": t.Sigs()})
}
