// Package cr generates and runs bgzf.Reader scenarios (C02, C03; C01 read-back lives in cw).
package cr

import (
	"math/rand"
	"time"

	"github.com/biogo/hts/bgzf"

	"verif/harness/bgz"
	"verif/harness/tr"
	"verif/harness/watch"
)

const B = bgzf.BlockSize

// file shapes: small members (1..8 bytes, with empty ones) and block-size classes
func shapes(r *rand.Rand, n int) [][]int {
	out := [][]int{{3}, {1, 1}, {3, 0, 2}, {2, 3, 4, 1}, {0, 5}, {4, 0, 0, 3}, {8, 8, 8, 8, 8, 8}, {1, 2, 3, 4, 5, 6, 7},
		{B}, {B - 1, 1, B}, {B, 0, B, 10}, {100, B, 7, B - 1, 1}}
	for i := 0; i < n; i++ {
		m := 1 + r.Intn(7)
		var s []int
		for j := 0; j < m; j++ {
			switch r.Intn(10) {
			case 0:
				s = append(s, 0)
			case 1:
				s = append(s, []int{B, B - 1, 1}[r.Intn(3)])
			case 2:
				s = append(s, 1+r.Intn(3000))
			default:
				s = append(s, 1+r.Intn(8))
			}
		}
		nz := false
		for _, x := range s {
			if x > 0 {
				nz = true
			}
		}
		if !nz {
			s = append(s, 2)
		}
		out = append(out, s)
	}
	return out
}

func readLens(r *rand.Rand, f *bgz.File) int {
	switch r.Intn(8) {
	case 0:
		return 0
	case 1:
		return 1
	case 2:
		return int(f.Total) + 3
	case 3:
		m := f.Members[r.Intn(len(f.Members))]
		return m.Len + []int{-1, 0, 1}[r.Intn(3)]
	case 4:
		return 9 + r.Intn(30)
	default:
		return 1 + r.Intn(8)
	}
}

func history(r *rand.Rand, f *bgz.File, n int, caches bool) []bgz.ROp {
	var ops []bgz.ROp
	for i := 0; i < n; i++ {
		switch k := r.Intn(20); {
		case k < 8:
			l := readLens(r, f)
			if l < 0 {
				l = 0
			}
			ops = append(ops, bgz.ROp{K: "read", N: l})
		case k < 10:
			ops = append(ops, bgz.ROp{K: "readbyte"})
		case k < 15:
			mi := r.Intn(len(f.Members))
			ln := f.Members[mi].Len
			off := []int{0, ln / 2, ln, ln}[r.Intn(4)]
			if ln > 0 && r.Intn(3) == 0 {
				off = r.Intn(ln + 1)
			}
			ops = append(ops, bgz.ROp{K: "seek", M: mi, Off: off})
		case k < 16:
			ops = append(ops, bgz.ROp{K: "seeklast"})
		case k < 17:
			ops = append(ops, bgz.ROp{K: "blocked", V: r.Intn(2) == 0})
		default:
			if caches {
				kind := []string{"LRU", "FIFO", "Random", "LRU", "FIFO", "Random", "none"}[r.Intn(7)]
				ops = append(ops, bgz.ROp{K: "setcache", Kind: kind, Cap: 1 + r.Intn(4), Stats: r.Intn(4) == 0})
			} else {
				ops = append(ops, bgz.ROp{K: "read", N: 1 + r.Intn(8)})
			}
		}
	}
	return ops
}

func stripCache(ops []bgz.ROp) []bgz.ROp {
	var o []bgz.ROp
	for _, x := range ops {
		if x.K != "setcache" {
			o = append(o, x)
		}
	}
	return o
}

// Run: mode "c02" (no cache) or "c03" (each history once without and once with caches).
func Run(out, mode string) {
	t := tr.Create(out)
	defer t.Close()
	watch.Threshold = 6 * time.Second
	r := tr.Rand(23)
	nshapes, nhist, hlen := 25, 6, 14
	rds := []int{1, 2, 4}
	if tr.Tier() == "thorough" {
		nshapes, nhist, hlen = 300, 25, 40
		rds = []int{0, 1, 2, 3, 4, 8}
		watch.Threshold = 20 * time.Second
	}
	stuck := 0
	for _, sh := range shapes(r, nshapes) {
		for _, eof := range []bool{true, false} {
			f := bgz.BuildFile(sh, eof, []int{-1, 0, 1, 9}[r.Intn(4)], r.Intn(2) == 0)
			for h := 0; h < nhist; h++ {
				ops := history(r, f, 3+r.Intn(hlen), mode == "c03")
				if mode == "c03" && r.Intn(2) == 0 {
					// start with a cache from the very beginning
					kind := []string{"LRU", "FIFO", "Random"}[r.Intn(3)]
					ops = append([]bgz.ROp{{K: "setcache", Kind: kind, Cap: 1 + r.Intn(3), Stats: r.Intn(5) == 0}}, ops...)
				}
				for _, rd := range rds {
					if stuck > 30 {
						break
					}
					if mode == "c03" {
						probe := tr.Create("/dev/null")
						ref := bgz.RunReader(probe, bgz.RScenario{Class: "ref", File: f, CutLen: -1, RD: rd, Ops: stripCache(ops)})
						probe.Close()
						rep := bgz.RunReader(t, bgz.RScenario{Class: "cached", File: f, CutLen: -1, RD: rd, Ops: ops, Ref: ref})
						if len(rep) < len(ref) {
							stuck++
						}
					} else {
						bgz.RunReader(t, bgz.RScenario{Class: "plain", File: f, CutLen: -1, RD: rd, Ops: ops})
					}
				}
			}
		}
	}
	tr.Summary(tr.M{"scenarios": t.Scen, "lines": t.Lines, "sigs": t.Sigs()})
}
