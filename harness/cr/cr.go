// Package cr generates and runs bgzf.Reader scenarios (C02, C03; C01 read-back lives in cw).
package cr

import (
	"math/rand"
	"time"

	"github.com/biogo/hts/bgzf"

	"verif/harness/bgz"
	"verif/harness/tr"
	"verif/harness/watch"
)

const B = bgzf.BlockSize

// file shapes: small members (1..8 bytes, with empty ones) and block-size classes
func shapes(r *rand.Rand, n int) [][]int {
	out := [][]int{{3}, {1, 1}, {3, 0, 2}, {2, 3, 4, 1}, {0, 5}, {4, 0, 0, 3}, {8, 8, 8, 8, 8, 8}, {1, 2, 3, 4, 5, 6, 7},
		{B}, {B - 1, 1, B}, {B, 0, B, 10}, {100, B, 7, B - 1, 1},
		{5, 65536, 9}} // 65536: the largest payload a member may hold (more than a Writer ever puts in one)
	for i := 0; i < n; i++ {
		m := 1 + r.Intn(7)
		var s []int
		for j := 0; j < m; j++ {
			switch r.Intn(10) {
			case 0:
				s = append(s, 0)
			case 1:
				s = append(s, []int{B, B - 1, 1}[r.Intn(3)])
			case 2:
				s = append(s, 1+r.Intn(3000))
			default:
				s = append(s, 1+r.Intn(8))
			}
		}
		nz := false
		for _, x := range s {
			if x > 0 {
				nz = true
			}
		}
		if !nz {
			s = append(s, 2)
		}
		out = append(out, s)
	}
	return out
}

func readLens(r *rand.Rand, f *bgz.File) int {
	switch r.Intn(8) {
	case 0:
		return 0
	case 1:
		return 1
	case 2:
		return int(f.Total) + 3
	case 3:
		m := f.Members[r.Intn(len(f.Members))]
		return m.Len + []int{-1, 0, 1}[r.Intn(3)]
	case 4:
		return 9 + r.Intn(30)
	default:
		return 1 + r.Intn(8)
	}
}

func history(r *rand.Rand, f *bgz.File, n int, caches bool) []bgz.ROp {
	var ops []bgz.ROp
	for i := 0; i < n; i++ {
		switch k := r.Intn(20); {
		case k < 8:
			l := readLens(r, f)
			if l < 0 {
				l = 0
			}
			ops = append(ops, bgz.ROp{K: "read", N: l})
		case k < 10:
			ops = append(ops, bgz.ROp{K: "readbyte"})
		case k < 15:
			mi := r.Intn(len(f.Members))
			ln := f.Members[mi].Len
			off := []int{0, ln / 2, ln, ln}[r.Intn(4)]
			if ln > 0 && r.Intn(3) == 0 {
				off = r.Intn(ln + 1)
			}
			ops = append(ops, bgz.ROp{K: "seek", M: mi, Off: off})
		case k < 16:
			ops = append(ops, bgz.ROp{K: "seeklast"})
		case k < 17:
			ops = append(ops, bgz.ROp{K: "blocked", V: r.Intn(2) == 0})
		default:
			if caches {
				kind := []string{"LRU", "FIFO", "Random", "LRU", "FIFO", "Random", "none"}[r.Intn(7)]
				ops = append(ops, bgz.ROp{K: "setcache", Kind: kind, Cap: 1 + r.Intn(4), Stats: r.Intn(4) == 0, Pre: r.Intn(4) == 0})
			} else {
				ops = append(ops, bgz.ROp{K: "read", N: 1 + r.Intn(8)})
			}
		}
	}
	return ops
}

func stripCache(ops []bgz.ROp) []bgz.ROp {
	var o []bgz.ROp
	for _, x := range ops {
		if x.K != "setcache" {
			o = append(o, x)
		}
	}
	return o
}

// Run: mode "c02" (no cache) or "c03" (each history once without and once with caches).
func Run(out, mode string) {
	t := tr.Create(out)
	defer t.Close()
	watch.Threshold = 6 * time.Second
	r := tr.Rand(23)
	nshapes, nhist, hlen := 25, 6, 14
	rds := []int{1, 2, 4}
	if tr.Tier() == "thorough" {
		nshapes, nhist, hlen = 300, 25, 40
		rds = []int{0, 1, 2, 3, 4, 8}
		watch.Threshold = 20 * time.Second
	}
	stuck := 0
	if mode == "c03" {
		// directed: a FIFO cache that another reader of the stream has used; the reader's own block is
		// handed out by the cache (and kept there), the next lookup meets a block of the other reader
		f := bgz.BuildFile([]int{2, 8}, true, 1, false)
		ops := []bgz.ROp{{K: "read", N: 0}, {K: "setcache", Kind: "FIFO", Cap: 3, Pre: true}, {K: "read", N: 13}, {K: "read", N: 1}, {K: "readbyte"},
			{K: "seek", M: 2}, {K: "read", N: 7}, {K: "seek", M: 2}, {K: "readbyte"}, {K: "seek", M: 2}, {K: "seek", M: 1, Off: 8}, {K: "readbyte"}, {K: "close"}}
		for _, rd := range rds {
			probe := tr.Create("/dev/null")
			ref := bgz.RunReader(probe, bgz.RScenario{Class: "ref", File: f, CutLen: -1, RD: rd, Ops: stripCache(ops)})
			probe.Close()
			bgz.RunReader(t, bgz.RScenario{Class: "cached", File: f, CutLen: -1, RD: rd, Ops: ops, Ref: ref})
		}
	}
	if mode == "c03" {
		// settled histories: a slow source and a pause after every operation, so that between two calls
		// the read-ahead runs until its queue is full of what followed the *previous* position; jumps
		// answered from a roomy cache leave that queue stale, and the next sequential step has to
		// drain it (keeping what it finds) before it loads the wanted member itself
		nset := 6
		if tr.Tier() == "thorough" {
			nset = 60
		}
		var shape []int
		for i := 0; i < 12; i++ {
			shape = append(shape, 300)
		}
		f := bgz.BuildFile(shape, true, 1, false)
		for h := 0; h < nset; h++ {
			var ops []bgz.ROp
			ops = append(ops, bgz.ROp{K: "setcache", Kind: []string{"LRU", "FIFO", "Random"}[h%3], Cap: 16, Stats: h%4 == 3})
			for k := 0; k < 3; k++ {
				ops = append(ops, bgz.ROp{K: "seek", M: 1 + r.Intn(10)})
			}
			ops = append(ops, bgz.ROp{K: "read", N: 2*300 + 10})
			for k := 0; k < 2; k++ {
				ops = append(ops, bgz.ROp{K: "seek", M: 1 + r.Intn(10)}, bgz.ROp{K: "read", N: 100})
			}
			if h == 0 {
				ops = []bgz.ROp{ops[0], {K: "seek", M: 8}, {K: "seek", M: 5}, {K: "seek", M: 1}, {K: "read", N: 610}, {K: "seek", M: 6}, {K: "read", N: 100}}
			}
			rd := 2 + h%2
			probe := tr.Create("/dev/null")
			ref := bgz.RunReader(probe, bgz.RScenario{Class: "ref", File: f, CutLen: -1, RD: rd, Ops: stripCache(ops)})
			probe.Close()
			bgz.RunReader(t, bgz.RScenario{Class: "cached", File: f, CutLen: -1, RD: rd, Ops: ops, Ref: ref,
				SrcDelay: 500 * time.Microsecond, Settle: 25 * time.Millisecond})
		}
	}
	for _, sh := range shapes(r, nshapes) {
		for _, eof := range []bool{true, false} {
			f := bgz.BuildFile(sh, eof, []int{-1, 0, 1, 9}[r.Intn(4)], r.Intn(2) == 0)
			for h := 0; h < nhist; h++ {
				ops := history(r, f, 3+r.Intn(hlen), mode == "c03")
				if mode == "c03" && r.Intn(2) == 0 {
					// start with a cache from the very beginning
					kind := []string{"LRU", "FIFO", "Random"}[r.Intn(3)]
					ops = append([]bgz.ROp{{K: "setcache", Kind: kind, Cap: 1 + r.Intn(3), Stats: r.Intn(5) == 0}}, ops...)
				}
				for _, rd := range rds {
					if stuck > 30 {
						break
					}
					if mode == "c03" {
						probe := tr.Create("/dev/null")
						ref := bgz.RunReader(probe, bgz.RScenario{Class: "ref", File: f, CutLen: -1, RD: rd, Ops: stripCache(ops)})
						probe.Close()
						rep := bgz.RunReader(t, bgz.RScenario{Class: "cached", File: f, CutLen: -1, RD: rd, Ops: ops, Ref: ref})
						if len(rep) < len(ref) {
							stuck++
						}
					} else {
						bgz.RunReader(t, bgz.RScenario{Class: "plain", File: f, CutLen: -1, RD: rd, Ops: ops})
					}
				}
			}
		}
	}
	tr.Summary(tr.M{"scenarios": t.Scen, "lines": t.Lines, "sigs": t.Sigs()})
}

// seqOps reads the whole stream sequentially with the given buffer size, then once more.
func seqOps(total int64, buf int) []bgz.ROp {
	var ops []bgz.ROp
	for n := int64(0); n <= total+int64(buf); n += int64(buf) {
		ops = append(ops, bgz.ROp{K: "read", N: buf})
		if len(ops) > 400 {
			break
		}
	}
	return ops
}

// RunFaults: C09 reader half - workloads x every index k of the underlying Read / Seek
// call at which an error (or partial data then an error) is injected.
func RunFaults(out string) {
	t := tr.Create(out)
	defer t.Close()
	watch.Threshold = 6 * time.Second
	r := tr.Rand(909)
	rds := []int{1, 2, 4}
	nrand := 60
	if tr.Tier() == "thorough" {
		rds = []int{1, 2, 3, 4, 8}
		nrand = 1500
		watch.Threshold = 20 * time.Second
	}
	files := []*bgz.File{
		bgz.BuildFile([]int{5, 3, 0, 4, 2, 6}, true, 1, true),
		bgz.BuildFile([]int{B, 100, B - 1, 7}, true, 1, false),
		bgz.BuildFile([]int{3000, 1, 2000, 8, 8, 8, 8, 8}, false, 6, false),
	}
	type wl struct {
		name string
		ops  func(f *bgz.File) []bgz.ROp
	}
	wls := []wl{
		{"seq", func(f *bgz.File) []bgz.ROp { return seqOps(f.Total, 7) }},
		{"seqbig", func(f *bgz.File) []bgz.ROp { return seqOps(f.Total, 50000) }},
		{"seekfwd", func(f *bgz.File) []bgz.ROp {
			var ops []bgz.ROp
			for i := range f.Members {
				ops = append(ops, bgz.ROp{K: "seek", M: i, Off: 0}, bgz.ROp{K: "read", N: 4}, bgz.ROp{K: "readbyte"})
			}
			return ops
		}},
		{"retry", func(f *bgz.File) []bgz.ROp {
			// after an error: seek to the same place again and read on (retry), then elsewhere
			var ops []bgz.ROp
			for rep := 0; rep < 2; rep++ {
				for i := len(f.Members) - 1; i >= 0; i-- {
					ops = append(ops, bgz.ROp{K: "seek", M: i, Off: 1}, bgz.ROp{K: "read", N: 6}, bgz.ROp{K: "seek", M: i, Off: 0}, bgz.ROp{K: "read", N: 3})
				}
			}
			return ops
		}},
	}
	for _, f := range files {
		for _, w := range wls {
			base := w.ops(f)
			for _, rd := range rds {
				for _, withCache := range []bool{false, true} {
					ops := base
					if withCache {
						ops = append([]bgz.ROp{{K: "setcache", Kind: []string{"LRU", "FIFO", "Random"}[r.Intn(3)], Cap: 1 + r.Intn(3)}}, base...)
					}
					// count the underlying calls of the fault-free run
					probe := tr.Create("/dev/null")
					bgz.RunReader(probe, bgz.RScenario{Class: "probe", File: f, CutLen: -1, RD: rd, Ops: ops})
					probe.Close()
					nr, ns := bgz.LastSrcReads, bgz.LastSrcSeeks
					if nr > 40 {
						nr = 40
					}
					for k := 1; k <= nr; k++ {
						if tr.Tier() != "thorough" && k > 12 && k%3 != 0 {
							continue
						}
						bgz.RunReader(t, bgz.RScenario{Class: "fault-" + w.name, File: f, Faultable: true, CutLen: -1, RD: rd, Ops: ops,
							FailRead: k, Partial: k%2 == 0, Sticky: k%3 == 0})
					}
					for k := 1; k <= ns && k <= 12; k++ {
						bgz.RunReader(t, bgz.RScenario{Class: "fault-" + w.name, File: f, Faultable: true, CutLen: -1, RD: rd, Ops: ops, FailSeek: k})
					}
				}
			}
		}
	}
	// random histories with a random fault
	for i := 0; i < nrand; i++ {
		f := files[r.Intn(len(files))]
		ops := history(r, f, 5+r.Intn(25), true)
		sc := bgz.RScenario{Class: "fault-random", File: f, Faultable: true, CutLen: -1, RD: rds[r.Intn(len(rds))], Ops: ops,
			Partial: r.Intn(2) == 0, Sticky: r.Intn(3) == 0}
		if r.Intn(4) == 0 {
			sc.FailSeek = 1 + r.Intn(6)
		} else {
			sc.FailRead = 1 + r.Intn(30)
		}
		bgz.RunReader(t, sc)
	}
	tr.Summary(tr.M{"scenarios": t.Scen, "lines": t.Lines, "sigs": t.Sigs()})
}

// RunCuts: C10 (BGZF part) - every truncation length of small streams (a window around
// every member boundary plus a stride for large ones) and single-byte substitutions.
func RunCuts(out string) {
	t := tr.Create(out)
	defer t.Close()
	watch.Threshold = 6 * time.Second
	r := tr.Rand(1010)
	files := []*bgz.File{
		bgz.BuildFile([]int{5, 3, 0, 4}, true, 1, true),
		bgz.BuildFile([]int{8, 8, 8}, false, 6, false),
		bgz.BuildFile([]int{B, 10, 3000}, true, 1, false),
		bgz.BuildFile([]int{3, 5, 2, 7, 4, 6, 1, 8, 3, 5, 2, 7, 4, 6, 1, 8}, true, 1, false),
		bgz.BuildFile([]int{65536, 10}, true, 1, false), // a member with the largest payload the format allows
	}
	values := []int{1, 0x80}
	if tr.Tier() == "thorough" {
		values = []int{1, 0x80, -1, -2} // +1, xor 0x80, set 0x00, set 0xff
		files = append(files, bgz.BuildFile([]int{1, 2, 3, 4, 5, 6, 7, 8}, true, 9, false), bgz.BuildFile([]int{B - 1, 1, B}, false, 0, false))
		for i := 0; i < 20; i++ {
			files = append(files, bgz.BuildFile(shapes(r, 1)[12], r.Intn(2) == 0, []int{-1, 0, 1, 9}[r.Intn(4)], r.Intn(2) == 0))
		}
		watch.Threshold = 20 * time.Second
	}
	for _, f := range files {
		small := len(f.Bytes) < 2000
		boundary := map[int]int64{} // byte offset of a member boundary -> logical length before it
		var lg int64
		for _, m := range f.Members {
			boundary[int(m.Base)] = lg
			lg += int64(m.Len)
		}
		near := func(c int) bool {
			for b := range boundary {
				if c >= b-40 && c <= b+40 {
					return true
				}
			}
			return false
		}
		for cut := 0; cut < len(f.Bytes); cut++ {
			if !small && !near(cut) && cut%997 != 0 {
				continue
			}
			cl, ok := boundary[cut]
			if !ok {
				cl = -1
			}
			for _, rd := range []int{1, 4} {
				ops := seqOps(f.Total, []int{5, 4096}[r.Intn(2)])
				want := "false"
				if cut >= 28 && string(f.Bytes[cut-28:cut]) == string(bgz.MagicBlock) {
					want = "" // the prefix ends with a marker this test placed inside the file: not a writer's stream
				}
				bgz.RunReader(t, bgz.RScenario{Class: "cut", File: f, Stream: f.Bytes[:cut], Faultable: true, CutLen: cl, RD: rd, Ops: ops, HasEOFWant: want})
			}
		}
		// length-field edits: BSIZE of member i rewritten so that the member appears to end at
		// the start (or one byte either side of the start) of a later member, or one byte off its own end
		for i, m := range f.Members {
			var targets []int64
			for j := i + 1; j <= len(f.Members) && j <= i+4; j++ {
				end := int64(len(f.Bytes))
				if j < len(f.Members) {
					end = f.Members[j].Base
				}
				targets = append(targets, end, end-1, end+1)
			}
			// the member appears to end inside or right after its own header
			for k := int64(1); k <= 45; k++ {
				targets = append(targets, m.Base+k)
			}
			for _, tg := range targets {
				nb := tg - m.Base - 1
				if nb < 0 || nb > 0xffff || nb == int64(m.Size-1) {
					continue
				}
				s := append([]byte(nil), f.Bytes...)
				lo, hi := byte(nb), byte(nb>>8)
				// a single-byte substitution only: skip edits that need both bytes changed
				diff := 0
				if s[m.Base+16] != lo {
					diff++
				}
				if s[m.Base+17] != hi {
					diff++
				}
				if diff != 1 {
					continue
				}
				s[m.Base+16], s[m.Base+17] = lo, hi
				for _, rd := range []int{1, 2} {
					bgz.RunReader(t, bgz.RScenario{Class: "bsize", File: f, Stream: s, Faultable: true, Altered: true, CutLen: -1, RD: rd, Ops: seqOps(f.Total, 6)})
				}
			}
		}
		// the other length fields of the member header: XLEN (bytes 10-11) and the subfield length
		// SLEN (bytes 14-15) take every small value, so that the extra field ends before, inside and
		// after the BSIZE bytes
		for i, m := range f.Members {
			if !small && i > 1 {
				break
			}
			for _, at := range []int64{10, 11, 14, 15} {
				for v := 0; v <= 12; v++ {
					if f.Bytes[m.Base+at] == byte(v) {
						continue
					}
					s := append([]byte(nil), f.Bytes...)
					s[m.Base+at] = byte(v)
					rd := []int{1, 2}[(i+v+int(at))%2]
					bgz.RunReader(t, bgz.RScenario{Class: "hdrlen", File: f, Stream: s, Faultable: true, Altered: true, CutLen: -1, RD: rd, Ops: seqOps(f.Total, 6)})
				}
			}
		}
		dense := len(f.Members) > 0 && f.Members[0].Len == 65536
		for p := 0; p < len(f.Bytes); p++ {
			if !small && !near(p) && p%499 != 0 && !(dense && p%61 == 0) {
				continue
			}
			for _, v := range values {
				s := append([]byte(nil), f.Bytes...)
				switch v {
				case -1:
					s[p] = 0
				case -2:
					s[p] = 0xff
				case 0x80:
					s[p] ^= 0x80
				default:
					s[p]++
				}
				if s[p] == f.Bytes[p] {
					continue
				}
				rd := []int{1, 4}[(p+v+4)%2]
				bgz.RunReader(t, bgz.RScenario{Class: "subst", File: f, Stream: s, Faultable: true, Altered: true, CutLen: -1, RD: rd, Ops: seqOps(f.Total, 6)})
			}
		}
	}
	// damaged member x cache x revisits: a member whose deflate data, CRC-32 or ISIZE is damaged
	// must give an error (or its true data) on every visit, also when blocks of the file are
	// cached, the cache is attached late, and the damaged offset is left and revisited
	for fi, f := range files {
		if len(f.Bytes) > 4000 || len(f.Members) < 3 {
			continue
		}
		for mi, m := range f.Members {
			if m.Len == 0 {
				continue
			}
			for _, p := range []int64{m.Base + 19, m.Base + int64(m.Size) - 8, m.Base + int64(m.Size) - 3} {
				s := append([]byte(nil), f.Bytes...)
				s[p] ^= 0x40
				other := (mi + 1) % len(f.Members)
				directed := []bgz.ROp{{K: "read", N: f.Members[0].Len}, {K: "seek", M: mi}, {K: "read", N: 4},
					{K: "setcache", Kind: []string{"LRU", "FIFO", "Random"}[(fi+mi)%3], Cap: 1 + (mi % 2)},
					{K: "seek", M: other}, {K: "read", N: 3}, {K: "seek", M: mi}, {K: "read", N: 4}, {K: "seek", M: other}, {K: "read", N: 2},
					{K: "seek", M: mi}, {K: "readbyte"}}
				for _, rd := range []int{1, 2, 4} {
					bgz.RunReader(t, bgz.RScenario{Class: "subst-cache", File: f, Stream: s, Faultable: true, Altered: true, CutLen: -1, RD: rd, Ops: directed})
					for k := 0; k < 2; k++ {
						ops := history(r, f, 14, true)
						if k == 1 {
							ops = append([]bgz.ROp{{K: "setcache", Kind: []string{"LRU", "FIFO", "Random"}[r.Intn(3)], Cap: 1 + r.Intn(3)}}, ops...)
						}
						bgz.RunReader(t, bgz.RScenario{Class: "subst-cache", File: f, Stream: s, Faultable: true, Altered: true, CutLen: -1, RD: rd, Ops: ops})
					}
				}
			}
		}
	}
	tr.Summary(tr.M{"scenarios": t.Scen, "lines": t.Lines, "sigs": t.Sigs()})
}
