package cr

import (
	"bytes"
	"io"
	"math/rand"
	"sync"
	"time"

	"github.com/biogo/hts/bgzf"
	"github.com/biogo/hts/bgzf/cache"

	"verif/harness/bgz"
	"verif/harness/tr"
	"verif/harness/watch"
)

// logCache is the cache the traced reader is given: one of the library's caches behind a
// wrapper that makes every Get, Put and Peek one logged, serialised step.
type logCache struct {
	mu      sync.Mutex
	inner   cache.Cache
	log     func(m tr.M) // nil while the cache is being prepared
	idx     func(off int64) int
	foreign map[bgzf.Block]bool // blocks another reader put into the cache
}

func (c *logCache) Get(base int64) bgzf.Block {
	c.mu.Lock()
	defer c.mu.Unlock()
	b := c.inner.Get(base)
	if c.log != nil {
		res := "miss"
		if b != nil {
			res = "own"
			if c.foreign[b] {
				res = "foreign"
			}
		}
		kept, _ := c.inner.Peek(base)
		c.log(tr.M{"op": "get", "key": c.idx(base), "res": res, "kept": kept})
	}
	return b
}

func (c *logCache) Put(b bgzf.Block) (bgzf.Block, bool) {
	c.mu.Lock()
	defer c.mu.Unlock()
	base := b.Base()
	ev, ret := c.inner.Put(b)
	if c.log == nil {
		c.foreign[b] = true
		return ev, ret
	}
	delete(c.foreign, b) // the traced reader only puts blocks that are its own
	evm := 0
	if ev != nil && ev != b {
		evm = c.idx(ev.Base())
	}
	c.log(tr.M{"op": "put", "m": c.idx(base), "ret": ret, "evm": evm, "held": ev == nil && !ret})
	return ev, ret
}

func (c *logCache) Peek(base int64) (bool, int64) {
	c.mu.Lock()
	defer c.mu.Unlock()
	ex, next := c.inner.Peek(base)
	if c.log != nil {
		c.log(tr.M{"op": "peek", "key": c.idx(base), "exists": ex, "next": c.idx(next)})
	}
	return ex, next
}

// RunITrace records, for the conformance of ReaderI, what the real reader does inside: the API
// calls and returns, every hook point of bgzf/reader.go (build tag verif) and every operation on
// the block cache, in one total order.  Files of three non-empty members without an EOF marker
// (as in the model, reading past the last member is the end of the stream); a cache of
// capacity 2 attached before the read-ahead takes its first step, optionally holding blocks
// of another reader; operations: a Read that crosses into the next member, Seek to a member
// start, a ReadByte inside the current member, Close.
func RunITrace(out string) {
	t := tr.Create(out)
	defer t.Close()
	watch.Threshold = 10 * time.Second
	r := tr.Rand(333)
	n := 200
	if tr.Tier() == "thorough" {
		n = 3000
	}
	for i := 0; i < n; i++ {
		sizes := []int{3 + r.Intn(6), 3 + r.Intn(6), 3 + r.Intn(6)}
		f := bgz.BuildFile(sizes, false, 1, false)
		rd := 1 + i%3
		kind := []string{"LRU", "FIFO", "Random"}[(i/3)%3]
		var foreign []int
		switch r.Intn(4) {
		case 1:
			foreign = []int{1 + r.Intn(3)}
		case 2:
			a := 1 + r.Intn(3)
			foreign = []int{a, 1 + (a+r.Intn(2))%3}
		}
		var ops [][2]int // {kind, member}: 0 next, 1 seek, 2 touch
		for k := 0; k < 1+r.Intn(5); k++ {
			switch x := r.Intn(7); {
			case x < 3:
				ops = append(ops, [2]int{0, 0})
			case x < 6:
				ops = append(ops, [2]int{1, 1 + r.Intn(3)})
			default:
				ops = append(ops, [2]int{2, 0})
			}
		}
		runITrace(t, r, f, rd, kind, foreign, ops)
	}
	tr.Summary(tr.M{"scenarios": t.Scen, "lines": t.Lines, "sigs": t.Sigs()})
}

func runITrace(t *tr.Writer, r *rand.Rand, f *bgz.File, rd int, kind string, foreign []int, ops [][2]int) {
	N := len(f.Members)
	end := int64(len(f.Bytes))
	idx := func(off int64) int {
		if off < 0 {
			return -1
		}
		for i, m := range f.Members {
			if m.Base == off {
				return i + 1
			}
		}
		if off == end {
			return N + 1
		}
		return -2
	}
	var inner cache.Cache
	switch kind {
	case "LRU":
		inner = cache.NewLRU(2)
	case "FIFO":
		inner = cache.NewFIFO(2)
	default:
		inner = cache.NewRandom(2)
	}
	lc := &logCache{inner: inner, idx: idx, foreign: map[bgzf.Block]bool{}}
	// another reader of the same bytes leaves its blocks for the members in `foreign` in the cache
	if len(foreign) > 0 {
		other, err := bgzf.NewReader(bytes.NewReader(f.Bytes), 1)
		if err != nil {
			return
		}
		other.SetCache(lc)
		for _, k := range foreign {
			other.Seek(bgzf.Offset{File: f.Members[k-1].Base})
			other.ReadByte()
		}
		// move away so that the last block is handed to the cache too
		for k := 1; k <= N; k++ {
			in := false
			for _, x := range foreign {
				in = in || x == k
			}
			if !in {
				other.Seek(bgzf.Offset{File: f.Members[k-1].Base})
				break
			}
		}
	}
	held := []int{}
	for k := 1; k <= N; k++ {
		if ex, _ := inner.Peek(f.Members[k-1].Base); ex {
			held = append(held, k)
		}
	}
	t.Begin("readeri/"+kind, tr.M{"n": N, "rd": rd, "cap": 2, "keep": kind == "FIFO", "foreign": held, "kind": kind})
	var mu sync.Mutex
	decs := map[int]int{}
	ready := make(chan struct{})
	attached := false
	over := false
	first := map[string]bool{}
	logEv := func(ev string, m tr.M) {
		mu.Lock()
		t.Ev(ev, m)
		mu.Unlock()
	}
	lc.log = func(m tr.M) { logEv("c", m) }
	bgzf.VerifHook = func(point string, worker int, arg int64) {
		if point == "a.take" {
			// the read-ahead goroutine takes its first step only after the cache is attached
			mu.Lock()
			ok := attached
			mu.Unlock()
			if !ok {
				<-ready
			}
		}
		switch point {
		case "d.start", "a.wait", "l.wait", "n.wait":
			return // gates for schedule replay, not actions of ReaderI
		}
		mu.Lock()
		if over {
			// a goroutine of this scenario's reader that loaded the hook variable before the scenario
			// ended and runs only now (an inflate goroutine may outlive Close): its event belongs to no
			// scenario any more - without this it would be written under the next scenario's number
			mu.Unlock()
			return
		}
		d := 0
		if _, seen := decs[worker]; point == "i.done" && !seen {
			// an inflate goroutine of an earlier reader that was still running when that reader was closed
			mu.Unlock()
			return
		}
		if worker != 0 {
			var ok bool
			if d, ok = decs[worker]; !ok {
				d = len(decs) + 1
				decs[worker] = d
			}
		}
		m := tr.M{"p": point, "d": d, "m": idx(arg)}
		// the load of the first member inside NewReader precedes the model's initial state
		if (point == "d.read" || point == "i.done") && !first[point] {
			first[point] = true
			m["init"] = true
		}
		t.Ev("h", m)
		mu.Unlock()
	}
	defer func() {
		bgzf.VerifHook = nil
		mu.Lock()
		over = true
		mu.Unlock()
	}()
	var br *bgzf.Reader
	var err error
	res := watch.Call(bgz.Marker, func() { br, err = bgzf.NewReader(bytes.NewReader(f.Bytes), rd) })
	if res.Res != "ok" || err != nil {
		logEv("abort", tr.M{"res": res.Res})
		close(ready)
		return
	}
	br.SetCache(lc)
	mu.Lock()
	attached = true
	mu.Unlock()
	close(ready)
	logEv("start", tr.M{})
	errClass := func(e error) string {
		if e == nil {
			return "nil"
		}
		if e == io.EOF {
			return "EOF"
		}
		return "other"
	}
	failed := false
	for _, o := range ops {
		var e error
		switch o[0] {
		case 0:
			if failed {
				continue
			}
			logEv("call", tr.M{"op": "next"})
			p := make([]byte, br.BlockLen()+1)
			res := watch.Call(bgz.Marker, func() { _, e = br.Read(p) })
			if res.Res != "ok" {
				logEv("stuck", tr.M{"op": "next", "res": res.Res})
				return
			}
			logEv("ret", tr.M{"op": "next", "err": errClass(e)})
		case 1:
			logEv("call", tr.M{"op": "seek", "m": o[1]})
			res := watch.Call(bgz.Marker, func() { e = br.Seek(bgzf.Offset{File: f.Members[o[1]-1].Base}) })
			if res.Res != "ok" {
				logEv("stuck", tr.M{"op": "seek", "res": res.Res})
				return
			}
			logEv("ret", tr.M{"op": "seek", "err": errClass(e)})
		case 2:
			if failed || br.BlockLen() < 2 {
				continue
			}
			logEv("call", tr.M{"op": "touch"})
			_, e = br.ReadByte()
			logEv("ret", tr.M{"op": "touch", "err": errClass(e)})
		}
		failed = e != nil
	}
	logEv("call", tr.M{"op": "close"})
	res = watch.Call(bgz.Marker, func() { br.Close() })
	if res.Res != "ok" {
		logEv("stuck", tr.M{"op": "close", "res": res.Res})
		return
	}
	logEv("ret", tr.M{"op": "close", "err": "nil"})
}
