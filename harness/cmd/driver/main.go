// driver <property> --out <trace.ndjson> [args]: runs the real library on generated
// scenarios and records what it did; verdicts are made by TLC on the recorded traces.
package main

import (
	"flag"
	"fmt"
	"os"

	"verif/harness/c04"
	"verif/harness/c05"
	"verif/harness/c07"
	"verif/harness/c11"
	"verif/harness/c13"
	"verif/harness/c14"
	"verif/harness/c16"
	"verif/harness/c17"
	"verif/harness/cr"
	"verif/harness/cw"
	"verif/harness/c18"
	"verif/harness/c19"
	"verif/harness/c20"
)

func main() {
	if len(os.Args) < 2 {
		fmt.Fprintln(os.Stderr, "usage: driver <prop> --out <file>")
		os.Exit(2)
	}
	prop := os.Args[1]
	fs := flag.NewFlagSet(prop, flag.ExitOnError)
	out := fs.String("out", "", "trace output")
	in := fs.String("in", "", "scenario input (from TLC)")
	mode := fs.String("mode", "", "driver mode")
	stride := fs.Int("stride", 1, "sweep stride")
	start := fs.Int("start", 0, "first case to run")
	out2 := fs.String("out2", "", "second trace output")
	fs.Parse(os.Args[2:])
	_ = in
	_ = mode
	switch prop {
	case "c04":
		if *mode == "bam" {
			c04.RunBAM(*out)
		} else {
			c04.Run(*out)
		}
	case "c05":
		c05.Run(*out, *mode)
	case "c11":
		if *mode == "schema" {
			c11.Schema()
			return
		}
		os.Exit(c11.Run(*in, *out, *out2, *start))
	case "c07":
		c07.Run(*out)
	case "c13":
		if *mode == "bam" {
			c13.RunBAM(*out)
		} else if *mode == "bamcuts" {
			c13.RunBAMCuts(*out)
		} else {
			c13.Run(*out)
		}
	case "c14":
		if *mode == "conc" {
			c14.RunConc(*out)
		} else {
			c14.Run(*out)
		}
	case "rd":
		switch *mode {
		case "faults":
			cr.RunFaults(*out)
		case "cuts":
			cr.RunCuts(*out)
		case "replay":
			cr.RunReplay(*in, *out)
		case "itrace":
			cr.RunITrace(*out)
		case "sched":
			cr.RunSched(*in, *out)
		default:
			cr.Run(*out, *mode)
		}
	case "wr":
		cw.RunRB(*out, *out2, *mode)
	case "c16":
		c16.Run(*out)
	case "c17":
		c17.Run(*out)
	case "c18":
		c18.Run(*out)
	case "c19":
		c19.Run(*out)
	case "c20":
		if *mode == "sweep" {
			c20.Sweep(*in, *out, uint64(*stride))
		} else {
			c20.Run(*out)
		}
	default:
		fmt.Fprintln(os.Stderr, "unknown property", prop)
		os.Exit(2)
	}
}
