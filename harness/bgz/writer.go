package bgz

import (
	"bytes"
	"compress/gzip"
	"fmt"
	"io"
	"math/rand"
	"os"
	"time"

	"github.com/biogo/hts/bgzf"

	"verif/harness/tr"
	"verif/harness/watch"
)

const Marker = "github.com/biogo/hts/bgzf"

type Op struct {
	K    string // "W", "F", "Wt", "C"
	N    int
	Comp bool // compressible payload
}

type Header struct {
	Name, Comment string
	Extra         []byte
	ModTime       int64
	OS            int
}

type WScenario struct {
	Class    string
	Script   []Op
	WC       int
	Level    int
	Hdr      *Header
	FaultAt  int
	Partial  bool
	Jitter   bool
	Hold     map[string]time.Duration // hook point -> delay (directed schedules)
	ScriptID int
	Seed     uint64
	// HookTrace: log every hook point of the writer as a "hook" event (trace for WriterI conformance)
	HookTrace bool
}

func (o Op) String() string {
	if o.K == "W" {
		t := "i"
		if o.Comp {
			t = "c"
		}
		return fmt.Sprintf("W%d%s", o.N, t)
	}
	return o.K
}

// RunWriter executes one writer scenario and records its API trace.  It returns the
// bytes delivered and the ground truth (for read-back by the caller) and whether the
// scenario ran to the end.
func RunWriter(t *tr.Writer, sc WScenario) ([]byte, *Truth, bool) {
	libBase := LibBaseline(Marker + ".")
	truth := &Truth{Seed: sc.Seed}
	sink := &Sink{T: t, Truth: truth, FaultAt: sc.FaultAt, Partial: sc.Partial}
	if sc.Jitter {
		sink.Jitter = rand.New(rand.NewSource(int64(sc.Seed)))
	}
	var ops []string
	for _, o := range sc.Script {
		if o.K != "S" {
			ops = append(ops, o.String())
		}
	}
	hdr := tr.M{"wc": sc.WC, "level": sc.Level, "B": bgzf.BlockSize, "faultAt": sc.FaultAt, "partial": sc.Partial,
		"script": ops, "scriptId": sc.ScriptID, "hasHdr": sc.Hdr != nil}
	holds := []string{}
	for k := range sc.Hold {
		holds = append(holds, k)
	}
	hdr["hold"] = holds
	if sc.HookTrace {
		is := [][]interface{}{}
		for _, o := range sc.Script {
			if o.K != "S" {
				is = append(is, []interface{}{o.K, o.N})
			}
		}
		nc := sc.WC + 1
		if nc < 2 {
			nc = 2
		}
		hdr["iscript"], hdr["nc"] = is, nc
	}
	t.Begin("writer/"+sc.Class, hdr)
	if len(sc.Hold) > 0 || sc.HookTrace {
		bgzf.VerifHook = func(point string, worker int, arg int64) {
			if sc.HookTrace {
				// (hooks sit before channel sends and after channel receives; "e.done" follows
				// qwg.Done, whose effect a waiting caller may see first - the trace spec allows for that)
				t.Ev("hook", tr.M{"p": point, "w": worker, "a": arg})
			}
			if d, ok := sc.Hold[point]; ok {
				time.Sleep(d)
			}
		}
		defer func() { bgzf.VerifHook = nil }()
	}
	var bw *bgzf.Writer
	var err error
	r := watch.Call(Marker, func() { bw, err = bgzf.NewWriterLevel(sink, sc.Level, sc.WC) })
	if r.Res != "ok" || err != nil {
		t.Ev("abort", tr.M{"sig": "writer/new/" + r.Res, "res": r.Res, "err": fmt.Sprint(err)})
		return nil, truth, false
	}
	if sc.Hdr != nil {
		bw.Name, bw.Comment, bw.Extra = sc.Hdr.Name, sc.Hdr.Comment, sc.Hdr.Extra
		bw.ModTime = time.Unix(sc.Hdr.ModTime, 0)
		bw.OS = byte(sc.Hdr.OS)
	}
	closedOnce := false
	for _, o := range sc.Script {
		if o.K == "S" {
			// not a library call: the caller pauses (lets held goroutines of the writer run on)
			time.Sleep(time.Duration(o.N) * time.Millisecond)
			continue
		}
		var n int
		var e error
		var payload []byte
		call := tr.M{"op": o.K}
		if o.K == "W" {
			// the payload's positions are claimed only for the bytes the call accepts
			payload = Gen(truth.Seed, o.Comp, truth.Len(), o.N)
			call["n"] = o.N
			// ground truth must know the texture of the bytes that may be emitted while
			// the call is still running: extend it now, cut it back after a short write
			truth.Append(o.N, o.Comp)
		}
		t.Ev("call", call)
		res := watch.Call(Marker, func() {
			switch o.K {
			case "W":
				n, e = bw.Write(payload)
			case "F":
				e = bw.Flush()
			case "Wt":
				e = bw.Wait()
			case "C":
				e = bw.Close()
			}
		})
		if res.Res != "ok" {
			t.Ev("stuck", tr.M{"op": o.K, "res": res.Res, "detail": res.Detail, "sig": "writer/" + o.K + "/" + res.Res})
			return sink.Bytes(), truth, false
		}
		// the caller owns its buffer again once Write has returned: reuse it
		for i := range payload {
			payload[i] = 0xAA
		}
		if o.K == "W" && n < o.N {
			truth.CutLast(n)
		}
		ret := tr.M{"op": o.K, "n": n, "err": ErrClass(e, bgzf.ErrClosed)}
		// HasEOF through two kinds of ReaderAt (bytes.Reader reports a negative offset as an
		// error, io.SectionReader as (0, io.EOF))
		ret["haseof"] = hasEOFAll(sink.Bytes())
		if o.K == "C" {
			closedOnce = true
			nlib, frames := LibGoroutinesAbove(Marker+".", libBase)
			ret["leak"] = nlib
			if nlib > 0 {
				ret["frames"] = frames
			}
		}
		sink.LogWithState("ret", ret)
	}
	_ = closedOnce
	// multi-member gzip decoding of the whole stream by the standard library
	b := sink.Bytes()
	gz := false
	if zr, err := gzip.NewReader(bytes.NewReader(b)); err == nil {
		if all, err := io.ReadAll(zr); err == nil {
			gz = truth.Matches(0, all) && int64(len(all)) == sink.Decoded
		}
	} else if len(b) == 0 {
		gz = sink.Decoded == 0
	}
	t.Ev("end", tr.M{"digest": sink.Digest(), "scriptId": sc.ScriptID, "gunzip": gz, "failed": sink.Failed})
	return b, truth, true
}

// BAMEngine is what RunBAMWriter needs from the caller: the BAM writer calls, so that this
// package does not import bam.
type BAMEngine struct {
	New   func(w io.Writer, wc int) error // bam.NewWriter: writes the header, Flush, Wait
	Write func(i int) error               // bam.Writer.Write of record i
	Close func() error
}

// RunBAMWriter runs a BAM writer over the instrumented sink and records it as the BGZF script
// it is: NewWriter = Write(header bytes) Flush Wait, Write(rec) = Write(record bytes), Close.
// flat is the uncompressed BAM stream the calls must produce (from a dry run through the
// harness's own parser), sizes[0] the header length and sizes[i] the length of record i.
func RunBAMWriter(t *tr.Writer, class string, eng BAMEngine, flat []byte, sizes []int, wc int, jitter bool, seed uint64) bool {
	libBase := LibBaseline(Marker + ".")
	truth := &Truth{Explicit: flat}
	sink := &Sink{T: t, Truth: truth}
	if jitter {
		sink.Jitter = rand.New(rand.NewSource(int64(seed)))
	}
	ops := []string{fmt.Sprintf("W%dc", sizes[0]), "F", "Wt"}
	for _, n := range sizes[1:] {
		ops = append(ops, fmt.Sprintf("W%dc", n))
	}
	ops = append(ops, "C")
	t.Begin("writer/"+class, tr.M{"wc": wc, "level": -1, "B": bgzf.BlockSize, "faultAt": 0, "partial": false,
		"script": ops, "scriptId": 0, "hasHdr": false, "hold": []string{}})
	ret := func(op string, n int, e error, last bool) {
		m := tr.M{"op": op, "n": n, "err": ErrClass(e, bgzf.ErrClosed)}
		m["haseof"] = hasEOFAll(sink.Bytes())
		if last {
			nlib, frames := LibGoroutinesAbove(Marker+".", libBase)
			m["leak"] = nlib
			if nlib > 0 {
				m["frames"] = frames
			}
		}
		sink.LogWithState("ret", m)
	}
	// NewWriter: header write, Flush, Wait in one library call
	t.Ev("call", tr.M{"op": "W", "n": sizes[0]})
	truth.Claim(sizes[0])
	var err error
	res := watch.Call(Marker, func() { err = eng.New(sink, wc) })
	if res.Res != "ok" {
		t.Ev("stuck", tr.M{"op": "W", "res": res.Res, "detail": res.Detail, "sig": "writer/" + class + "/new/" + res.Res})
		return false
	}
	if err != nil {
		t.Ev("abort", tr.M{"sig": "writer/" + class + "/new/err", "res": "err", "err": fmt.Sprint(err)})
		return false
	}
	ret("W", sizes[0], nil, false)
	t.Ev("call", tr.M{"op": "F"})
	ret("F", 0, nil, false)
	t.Ev("call", tr.M{"op": "Wt"})
	ret("Wt", 0, nil, false)
	for i := 1; i < len(sizes); i++ {
		t.Ev("call", tr.M{"op": "W", "n": sizes[i]})
		truth.Claim(sizes[i])
		var e error
		res := watch.Call(Marker, func() { e = eng.Write(i - 1) })
		if res.Res != "ok" {
			t.Ev("stuck", tr.M{"op": "W", "res": res.Res, "detail": res.Detail, "sig": "writer/" + class + "/W/" + res.Res})
			return false
		}
		n := sizes[i]
		if e != nil {
			n = 0
		}
		ret("W", n, e, false)
	}
	t.Ev("call", tr.M{"op": "C"})
	var e error
	res = watch.Call(Marker, func() { e = eng.Close() })
	if res.Res != "ok" {
		t.Ev("stuck", tr.M{"op": "C", "res": res.Res, "detail": res.Detail, "sig": "writer/" + class + "/C/" + res.Res})
		return false
	}
	ret("C", 0, e, true)
	b := sink.Bytes()
	gz := false
	if zr, err := gzip.NewReader(bytes.NewReader(b)); err == nil {
		if all, err := io.ReadAll(zr); err == nil {
			gz = string(all) == string(flat) && int64(len(all)) == sink.Decoded
		}
	}
	t.Ev("end", tr.M{"digest": sink.Digest(), "scriptId": 0, "gunzip": gz, "failed": sink.Failed})
	return true
}

// lenSeeker offers ReadAt, Seek and Len but neither Size nor Stat (the third way HasEOF
// finds the end of its input).
type lenSeeker struct{ r *bytes.Reader }

func (l lenSeeker) ReadAt(p []byte, off int64) (int, error)   { return l.r.ReadAt(p, off) }
func (l lenSeeker) Seek(off int64, whence int) (int64, error) { return l.r.Seek(off, whence) }
func (l lenSeeker) Len() int                                  { return l.r.Len() }

var hasEOFFile *os.File

// hasEOFAll asks HasEOF through every kind of input it distinguishes: Size (bytes.Reader
// reports a negative offset as an error, io.SectionReader as (0, io.EOF)), Seek+Len on a
// reader that has been partly read, and Stat (a file).
func hasEOFAll(sb []byte) []bool {
	he1, herr1 := bgzf.HasEOF(bytes.NewReader(sb))
	he2, herr2 := bgzf.HasEOF(io.NewSectionReader(bytes.NewReader(sb), 0, int64(len(sb))))
	out := []bool{he1 && herr1 == nil, he2 && herr2 == nil}
	for _, k := range []int{0, 1, len(sb) / 2, len(sb) - 27, len(sb)} {
		if k < 0 || k > len(sb) {
			continue
		}
		ls := lenSeeker{bytes.NewReader(sb)}
		ls.r.Seek(int64(k), 0) // the caller has read k bytes
		he, herr := bgzf.HasEOF(ls)
		out = append(out, he && herr == nil)
	}
	if hasEOFFile == nil {
		hasEOFFile, _ = os.CreateTemp("", "verif-haseof-")
		if hasEOFFile != nil {
			os.Remove(hasEOFFile.Name())
		}
	}
	if f := hasEOFFile; f != nil {
		f.Truncate(0)
		f.WriteAt(sb, 0)
		he, herr := bgzf.HasEOF(f)
		out = append(out, he && herr == nil)
	}
	return out
}
