package bgz

import (
	"bytes"
	"fmt"
	"io"
	"sync"
	"time"

	"github.com/biogo/hts/bgzf"
	"github.com/biogo/hts/bgzf/cache"

	"verif/harness/tr"
	"verif/harness/watch"
)

// Src is the underlying io.ReadSeeker of a bgzf.Reader under test, with fault injection:
// the FailRead-th Read call (FailSeek-th Seek call) returns an error, after delivering
// half of the requested bytes if Partial.
type Src struct {
	R        *bytes.Reader
	mu       sync.Mutex
	Reads    int
	Seeks    int
	FailRead int
	FailSeek int
	Partial  bool
	Sticky   bool // once failed, every later Read fails too
	failed   bool
	Delay    time.Duration // every Read takes this long (a slow device: the read-ahead lags)
}

func (s *Src) Read(p []byte) (int, error) {
	s.mu.Lock()
	s.Reads++
	fail := s.Reads == s.FailRead || (s.Sticky && s.failed)
	if fail {
		s.failed = true
	}
	s.mu.Unlock()
	if fail {
		n := 0
		if s.Partial && len(p) > 1 {
			n, _ = s.R.Read(p[:len(p)/2])
		}
		return n, ErrInjected
	}
	if s.Delay > 0 {
		time.Sleep(s.Delay)
	}
	return s.R.Read(p)
}

func (s *Src) Seek(off int64, whence int) (int64, error) {
	s.mu.Lock()
	s.Seeks++
	fail := s.Seeks == s.FailSeek
	s.mu.Unlock()
	if fail {
		return 0, ErrInjected
	}
	return s.R.Seek(off, whence)
}

// streamSrc is a source that cannot seek and hands out its last bytes together with io.EOF
// (as network and decompressing readers do).
type streamSrc struct {
	b   []byte
	off int
}

func (s *streamSrc) Read(p []byte) (int, error) {
	n := copy(p, s.b[s.off:])
	s.off += n
	if s.off == len(s.b) {
		return n, io.EOF
	}
	return n, nil
}

// byteStreamSrc additionally implements io.ByteReader, so the library reads it without buffering.
type byteStreamSrc struct{ streamSrc }

func (s *byteStreamSrc) ReadByte() (byte, error) {
	if s.off >= len(s.b) {
		return 0, io.EOF
	}
	c := s.b[s.off]
	s.off++
	return c, nil
}

type ROp struct {
	K     string // "read", "readbyte", "seek", "seeklast", "blocked", "setcache", "close"
	N     int
	M     int  // member index (0-based) for seek
	Off   int  // in-member offset for seek
	V     bool // blocked value
	Kind  string
	Cap   int
	Stats bool
	Pre   bool // the cache was used before by another reader of the same stream (it holds that reader's blocks)
}

// LastSrcReads / LastSrcSeeks: underlying call counts of the most recent scenario (for
// choosing fault positions).
var LastSrcReads, LastSrcSeeks int

type RScenario struct {
	Altered    bool   // a byte of the stream was altered: the member table no longer describes it
	HasEOFWant string // "" (not checked), or "false": bgzf.HasEOF on the stream must report false
	Truth      *Truth // when set (C01 read-back), replies carry hpos/dok instead of data/pm
	Class      string
	File       *File
	Stream     []byte // bytes actually given to the reader (cut / corrupted variants); nil = File.Bytes
	Faultable  bool
	CutLen     int64 // -1, or logical length before a cut on a member boundary
	RD         int
	Ops        []ROp
	FailRead   int
	FailSeek   int
	Partial    bool
	Sticky     bool
	Ref        []tr.M // replies of the reference (uncached) run, for "same" comparison
	SrcKind    string // "" = seekable *Src; "stream", "bytestream" = sources that cannot seek (histories without Seek)
	// schedule replay: called before every operation / around every cache the scenario attaches
	BeforeOp  func(i int, o ROp)
	WrapCache func(bgzf.Cache) bgzf.Cache
	SrcDelay  time.Duration // see Src.Delay
	Settle    time.Duration // pause after every operation (the read-ahead runs to a standstill in between)
	Hdr       tr.M          // extra header fields
}

func newCacheOf(kind string, n int, stats bool) bgzf.Cache {
	var c cache.Cache
	switch kind {
	case "LRU":
		c = cache.NewLRU(n)
	case "FIFO":
		c = cache.NewFIFO(n)
	case "Random":
		c = cache.NewRandom(n)
	default:
		return nil
	}
	if stats {
		return &cache.StatsRecorder{Cache: c}
	}
	return c
}

func off2(o bgzf.Offset) []int64 { return []int64{o.File, int64(o.Block)} }

// RunReader executes one reader scenario, records its API trace and returns the replies.
func RunReader(t *tr.Writer, sc RScenario) []tr.M {
	libBase := LibBaseline(Marker + ".")
	stream := sc.Stream
	if stream == nil {
		stream = sc.File.Bytes
	}
	var fileEnd int64
	if n := len(sc.File.Members); n > 0 {
		fileEnd = sc.File.Members[n-1].Base + int64(sc.File.Members[n-1].Size)
	}
	hdr := tr.M{"file": sc.File.Layout(), "fileEnd": fileEnd, "total": sc.File.Total, "rd": sc.RD,
		"faultable": sc.Faultable, "altered": sc.Altered, "cutLen": sc.CutLen, "failRead": sc.FailRead, "failSeek": sc.FailSeek, "streamLen": len(stream)}
	for k, v := range sc.Hdr {
		hdr[k] = v
	}
	t.Begin("reader/"+sc.Class, hdr)
	src := &Src{R: bytes.NewReader(stream), FailRead: sc.FailRead, FailSeek: sc.FailSeek, Partial: sc.Partial, Sticky: sc.Sticky, Delay: sc.SrcDelay}
	var br *bgzf.Reader
	var err error
	var replies []tr.M
	emit := func(ev string, m tr.M) {
		i := len(replies)
		if sc.Ref != nil {
			same := i < len(sc.Ref) && fmt.Sprint(sc.Ref[i]) == fmt.Sprint(m)
			replies = append(replies, copyM(m))
			m["same"] = same
		} else {
			replies = append(replies, copyM(m))
		}
		m["sig"] = "reader/" + sc.Class + "/" + ev
		t.Ev(ev, m)
	}
	var rsrc io.Reader = src
	switch sc.SrcKind {
	case "stream":
		rsrc = &streamSrc{b: stream}
	case "bytestream":
		rsrc = &byteStreamSrc{streamSrc{b: stream}}
	}
	res := watch.Call(Marker, func() { br, err = bgzf.NewReader(rsrc, sc.RD) })
	if res.Res != "ok" {
		t.Ev("stuck", tr.M{"op": "new", "res": res.Res, "detail": res.Detail, "sig": "reader/new/" + res.Res})
		return replies
	}
	defer func() {
		src.mu.Lock()
		LastSrcReads, LastSrcSeeks = src.Reads, src.Seeks
		src.mu.Unlock()
	}()
	if sc.HasEOFWant != "" {
		he, herr := bgzf.HasEOF(bytes.NewReader(stream))
		t.Ev("haseof", tr.M{"v": he && herr == nil, "sig": "reader/" + sc.Class + "/haseof"})
	}
	emit("new", tr.M{"err": ErrClass(err, nil)})
	if err != nil {
		return replies
	}
	var lastBegin bgzf.Offset
	haveLast := false
	var hpos int64
	closed := false
	for oi, o := range sc.Ops {
		if sc.BeforeOp != nil {
			sc.BeforeOp(oi, o)
		}
		if sc.Settle > 0 {
			time.Sleep(sc.Settle)
		}
		switch o.K {
		case "read", "readbyte", "cross", "rest":
			n := o.N
			if o.K == "readbyte" {
				n = 1
			}
			if o.K == "cross" {
				// a Read that takes the rest of the current block and one byte of the next
				n = br.BlockLen() + 1
			}
			if o.K == "rest" {
				// a Read that takes exactly the rest of the current block (a zero-length Read after it
				// moves to the next block without reading from it)
				n = br.BlockLen()
			}
			buf := make([]byte, n)
			var k int
			var e error
			res := watch.Call(Marker, func() {
				if o.K == "readbyte" {
					var c byte
					c, e = br.ReadByte()
					if e == nil {
						buf[0] = c
						k = 1
					}
				} else {
					k, e = br.Read(buf)
				}
			})
			if res.Res != "ok" {
				t.Ev("stuck", tr.M{"op": o.K, "res": res.Res, "detail": res.Detail, "sig": "reader/" + o.K + "/" + res.Res})
				return replies
			}
			lc := br.LastChunk()
			m := tr.M{"n": n, "k": k, "err": ErrClass(e, nil), "begin": off2(lc.Begin), "end": off2(lc.End), "byte": o.K == "readbyte"}
			if sc.Truth != nil {
				m["hpos"] = hpos
				m["dok"] = sc.Truth.Matches(hpos, buf[:k])
				hpos += int64(k)
			} else if k <= 8 {
				m["data"] = intsOf(buf[:k])
			} else {
				m["pm"] = sc.File.Find(buf[:k], 64)
			}
			if e == nil && k > 0 {
				lastBegin, haveLast = lc.Begin, true
			}
			emit("read", m)
		case "seek", "seeklast":
			var off bgzf.Offset
			if o.K == "seeklast" {
				if !haveLast {
					continue
				}
				off = lastBegin
			} else {
				mi := sc.File.Members[o.M%len(sc.File.Members)]
				b := o.Off
				if b > mi.Len {
					b = mi.Len
				}
				off = bgzf.Offset{File: mi.Base, Block: uint16(b)}
			}
			var e error
			res := watch.Call(Marker, func() { e = br.Seek(off) })
			if res.Res != "ok" {
				t.Ev("stuck", tr.M{"op": "seek", "off": off2(off), "res": res.Res, "detail": res.Detail, "sig": "reader/seek/" + res.Res})
				return replies
			}
			lc := br.LastChunk()
			emit("seek", tr.M{"off": off2(off), "err": ErrClass(e, nil), "begin": off2(lc.Begin), "end": off2(lc.End)})
		case "blocked":
			br.Blocked = o.V
			emit("blocked", tr.M{"v": o.V})
		case "setcache":
			c := newCacheOf(o.Kind, o.Cap, o.Stats)
			if o.Pre && c != nil {
				// another reader of the same bytes reads them through this cache first and is
				// closed: the cache arrives holding blocks that belong to that reader
				if other, err := bgzf.NewReader(bytes.NewReader(stream), 1); err == nil {
					other.SetCache(c)
					watch.Call(Marker, func() {
						io.Copy(io.Discard, other)
						other.Seek(bgzf.Offset{})
						io.CopyN(io.Discard, other, 1)
						other.Close()
					})
				}
			}
			if sc.WrapCache != nil && c != nil {
				c = sc.WrapCache(c)
			}
			br.SetCache(c)
			// not part of the replies compared with the reference run
			t.Ev("setcache", tr.M{"kind": o.Kind, "cap": o.Cap, "stats": o.Stats, "pre": o.Pre})
		case "close":
			var e error
			res := watch.Call(Marker, func() { e = br.Close() })
			if res.Res != "ok" {
				t.Ev("stuck", tr.M{"op": "close", "res": res.Res, "detail": res.Detail, "sig": "reader/close/" + res.Res})
				return replies
			}
			nlib, frames := LibGoroutinesAbove(Marker+".", libBase)
			m := tr.M{"err": ErrClass(e, nil), "leak": nlib}
			if nlib > 0 {
				m["frames"] = frames
			}
			emit("close", m)
			closed = true
		}
		if closed {
			break
		}
	}
	if !closed {
		// always close, so that no goroutine of this scenario outlives it
		var e error
		res := watch.Call(Marker, func() { e = br.Close() })
		if res.Res != "ok" {
			t.Ev("stuck", tr.M{"op": "close", "res": res.Res, "detail": res.Detail, "sig": "reader/close/" + res.Res})
			return replies
		}
		nlib, frames := LibGoroutinesAbove(Marker+".", libBase)
		m := tr.M{"err": ErrClass(e, nil), "leak": nlib}
		if nlib > 0 {
			m["frames"] = frames
		}
		emit("close", m)
	}
	return replies
}

func copyM(m tr.M) tr.M {
	c := tr.M{}
	for k, v := range m {
		c[k] = v
	}
	return c
}

func intsOf(b []byte) []int {
	o := make([]int, len(b))
	for i, x := range b {
		o[i] = int(x)
	}
	return o
}

var _ = io.EOF
