package bgz

import (
	"bytes"
	"compress/flate"
	"encoding/binary"
	"hash/crc32"
)

// T is the reader-side data texture: computable by TLC (ReaderP!T) and by the harness.
func T(i int64) byte {
	return byte(((i%251)*(i%251) + (i/251)*3 + (i/64256)*11) % 256)
}

func TSlice(from int64, n int) []byte {
	b := make([]byte, n)
	for j := range b {
		b[j] = T(from + int64(j))
	}
	return b
}

// EncodeMember builds one BGZF member holding payload, with this package's own framing
// code (RFC 1952 header with a BC subfield, deflate by compress/flate, CRC32/ISIZE).
func EncodeMember(payload []byte, level int) []byte {
	var body bytes.Buffer
	fw, _ := flate.NewWriter(&body, level)
	fw.Write(payload)
	fw.Close()
	var b bytes.Buffer
	b.Write([]byte{0x1f, 0x8b, 8, 4, 0, 0, 0, 0, 0, 0xff, 6, 0, 'B', 'C', 2, 0, 0, 0})
	b.Write(body.Bytes())
	var tr [8]byte
	binary.LittleEndian.PutUint32(tr[0:], crc32.ChecksumIEEE(payload))
	binary.LittleEndian.PutUint32(tr[4:], uint32(len(payload)))
	b.Write(tr[:])
	out := b.Bytes()
	if len(out) > 65536 {
		// a member is at most 64 KiB long (BSIZE is 16 bits): a payload that does not fit at this
		// level is compressed harder; one that does not fit at all cannot be a member
		if level != 6 {
			return EncodeMember(payload, 6)
		}
		panic("bgz: payload does not fit in one member")
	}
	binary.LittleEndian.PutUint16(out[16:], uint16(len(out)-1))
	return out
}

type MemberInfo struct {
	Base int64
	Size int
	Len  int
}

// File is a BGZF file built from a shape: payload lengths per member (0 = empty member),
// the data being the texture T over the logical positions.
type File struct {
	Bytes   []byte
	Members []MemberInfo
	Total   int64
}

// BuildFile builds a file; a trailing EOF marker (the standard 28-byte member) is added
// if eofMarker.  Empty members inside the file are encoded as the marker too when
// markerForEmpty, otherwise as an empty deflate stream.
func BuildFile(shape []int, eofMarker bool, level int, markerForEmpty bool) *File {
	f := &File{}
	var pos int64
	add := func(m []byte, n int) {
		f.Members = append(f.Members, MemberInfo{Base: int64(len(f.Bytes)), Size: len(m), Len: n})
		f.Bytes = append(f.Bytes, m...)
	}
	for _, n := range shape {
		if n == 0 && markerForEmpty {
			add(MagicBlock, 0)
			continue
		}
		add(EncodeMember(TSlice(pos, n), level), n)
		pos += int64(n)
	}
	if eofMarker {
		add(MagicBlock, 0)
	}
	f.Total = pos
	return f
}

func (f *File) Layout() [][]int64 {
	out := make([][]int64, 0, len(f.Members))
	for _, m := range f.Members {
		out = append(out, []int64{m.Base, int64(m.Size), int64(m.Len)})
	}
	return out
}

// Find returns every position at which b occurs in the data (used for replies longer
// than 8 bytes; shorter replies are logged in full).
func (f *File) Find(b []byte, limit int) []int64 {
	out := []int64{}
	if len(b) == 0 {
		return out
	}
	for p := int64(0); p+int64(len(b)) <= f.Total; p++ {
		if T(p) != b[0] {
			continue
		}
		ok := true
		for j := 1; j < len(b); j++ {
			if T(p+int64(j)) != b[j] {
				ok = false
				break
			}
		}
		if ok {
			out = append(out, p)
			if len(out) >= limit {
				break
			}
		}
	}
	return out
}

// FileOf describes an existing BGZF byte stream (as produced by a writer under test) with
// this package's parser, for use as the layout of a reader scenario.
func FileOf(b []byte) (*File, bool) {
	f := &File{Bytes: b}
	for _, m := range ParseStream(b) {
		if !m.Complete {
			return f, false
		}
		f.Members = append(f.Members, MemberInfo{Base: m.Off, Size: m.Size, Len: len(m.Payload)})
		f.Total += int64(len(m.Payload))
	}
	return f, true
}
