// Package bgz holds what the BGZF drivers share: position-keyed payloads, an independent
// RFC 1952 / BGZF framing parser, instrumented underlying writers and readers.
package bgz

import "sync"

// Payload bytes are a function of the logical stream position, so that any byte string
// read back or decoded from a member can be projected to "equals Flat[from, from+n)".
// Two textures: compressible (long runs) and incompressible (position-keyed PRNG).

func mix(x uint64) uint64 {
	x += 0x9e3779b97f4a7c15
	x = (x ^ (x >> 30)) * 0xbf58476d1ce4e5b9
	x = (x ^ (x >> 27)) * 0x94d049bb133111eb
	return x ^ (x >> 31)
}

// At returns the payload byte at position pos for the given texture and seed.
func At(seed uint64, compressible bool, pos int64) byte {
	if compressible {
		// runs of 97 equal bytes whose value depends on the run index; the position
		// within the run is recoverable only through the run boundaries, which is enough
		// to make misplaced data visible with overwhelming probability
		return byte(mix(seed^uint64(pos/97)) % 7 * 31)
	}
	w := mix(seed ^ uint64(pos>>3))
	return byte(w >> (8 * uint(pos&7)))
}

// Gen fills a fresh slice with the payload of [from, from+n).
func Gen(seed uint64, compressible bool, from int64, n int) []byte {
	b := make([]byte, n)
	for i := range b {
		b[i] = At(seed, compressible, from+int64(i))
	}
	return b
}

// Texture describes which texture each position has: a script's payloads may mix
// textures, so the ground truth is a list of segments.
type Segment struct {
	From, To     int64
	Compressible bool
}

type Truth struct {
	Seed uint64
	mu   sync.Mutex
	Segs []Segment
	// Explicit, when set, is the ground truth itself (for streams whose content the harness
	// does not choose, e.g. what a BAM writer hands to its BGZF writer); Claimed is how much
	// of it the calls issued so far account for.
	Explicit []byte
	Claimed  int64
}

// Claim extends the part of the explicit ground truth that has been written by n bytes.
func (t *Truth) Claim(n int) {
	t.mu.Lock()
	defer t.mu.Unlock()
	t.Claimed += int64(n)
}

// CutLast shortens the last segment to n bytes (after a short write).
func (t *Truth) CutLast(n int) {
	t.mu.Lock()
	defer t.mu.Unlock()
	s := &t.Segs[len(t.Segs)-1]
	s.To = s.From + int64(n)
}

func (t *Truth) Append(n int, compressible bool) []byte {
	from := t.Len()
	t.mu.Lock()
	defer t.mu.Unlock()
	t.Segs = append(t.Segs, Segment{from, from + int64(n), compressible})
	return Gen(t.Seed, compressible, from, n)
}

func (t *Truth) Len() int64 {
	t.mu.Lock()
	defer t.mu.Unlock()
	if t.Explicit != nil {
		return t.Claimed
	}
	if len(t.Segs) == 0 {
		return 0
	}
	return t.Segs[len(t.Segs)-1].To
}

func (t *Truth) ByteAt(pos int64) (byte, bool) {
	t.mu.Lock()
	defer t.mu.Unlock()
	for _, s := range t.Segs {
		if pos >= s.From && pos < s.To {
			return At(t.Seed, s.Compressible, pos), true
		}
	}
	return 0, false
}

// Matches reports whether b equals the ground truth at [from, from+len(b)).
func (t *Truth) Matches(from int64, b []byte) bool {
	if from < 0 || from+int64(len(b)) > t.Len() {
		return false
	}
	t.mu.Lock()
	defer t.mu.Unlock()
	if t.Explicit != nil {
		return from+int64(len(b)) <= int64(len(t.Explicit)) && string(t.Explicit[from:from+int64(len(b))]) == string(b)
	}
	i := 0
	for _, s := range t.Segs {
		for p := maxI(s.From, from); p < s.To && p < from+int64(len(b)); p++ {
			if b[p-from] != At(t.Seed, s.Compressible, p) {
				return false
			}
			i++
		}
	}
	return i == len(b)
}

// Flat returns the whole ground truth (for small streams).
func (t *Truth) Flat() []byte {
	b := make([]byte, 0, t.Len())
	t.mu.Lock()
	defer t.mu.Unlock()
	for _, s := range t.Segs {
		b = append(b, Gen(t.Seed, s.Compressible, s.From, int(s.To-s.From))...)
	}
	return b
}

func maxI(a, b int64) int64 {
	if a > b {
		return a
	}
	return b
}
