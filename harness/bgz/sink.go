package bgz

import (
	"crypto/sha1"
	"encoding/hex"
	"errors"
	"math/rand"
	"runtime"
	"strings"
	"sync"
	"time"

	"verif/harness/tr"
)

var ErrInjected = errors.New("verif: injected fault")

// Sink is the underlying io.Writer of a bgzf.Writer under test.  Every Write is logged
// as an "emit" event from inside the call (so it is ordered before anything the library
// does after the call returns), with the facts this package's parser finds in the bytes.
type Sink struct {
	T       *tr.Writer
	Truth   *Truth
	FaultAt int  // 1-based index of the Write call that fails (0: never)
	Partial bool // the failing call accepts half of the bytes first
	Jitter  *rand.Rand
	mu      sync.Mutex
	Buf     []byte
	Calls   int
	Decoded int64 // payload bytes of complete members accepted so far
	Failed  bool
}

func (s *Sink) Write(p []byte) (int, error) {
	s.mu.Lock()
	s.Calls++
	idx := s.Calls
	var j time.Duration
	if s.Jitter != nil && s.Jitter.Intn(3) == 0 {
		j = time.Duration(s.Jitter.Intn(300)) * time.Microsecond
	}
	s.mu.Unlock()
	if j > 0 {
		time.Sleep(j)
	}
	m := ParseMember(p, 0)
	whole := m.Complete && m.Size == len(p)
	s.mu.Lock()
	defer s.mu.Unlock()
	from := int64(-1)
	if m.Payload != nil && s.Truth.Matches(s.Decoded, m.Payload) {
		from = s.Decoded
	}
	ev := tr.M{"idx": idx, "size": len(p), "whole": whole, "hasBC": m.HasBC, "bsize": m.BSize, "extraOK": m.ExtraOK,
		"flg": int(m.Flg), "plen": len(m.Payload), "from": from, "crc": m.CRCOK, "magic": m.Magic && whole}
	if idx == s.FaultAt {
		n := 0
		if s.Partial {
			n = len(p) / 2
		}
		s.Buf = append(s.Buf, p[:n]...)
		s.Failed = true
		ev["ok"] = false
		ev["accepted"] = n
		s.T.Ev("emit", ev)
		return n, ErrInjected
	}
	s.Buf = append(s.Buf, p...)
	if whole && from >= 0 {
		s.Decoded += int64(len(m.Payload))
	}
	ev["ok"] = true
	ev["accepted"] = len(p)
	s.T.Ev("emit", ev)
	return len(p), nil
}

// LogWithState logs an event carrying the sink's state, atomically with respect to the
// emit events (so the state is exactly what the preceding emit lines add up to).
func (s *Sink) LogWithState(ev string, m tr.M) {
	s.mu.Lock()
	defer s.mu.Unlock()
	m["sink"] = s.state()
	s.T.Ev(ev, m)
}

// state parses everything delivered so far (caller holds s.mu).
func (s *Sink) state() tr.M {
	b := s.Buf
	ms := ParseStream(b)
	whole, dec, prefix, lastMagic := true, int64(0), true, false
	for _, m := range ms {
		if !m.Complete {
			whole = false
			break
		}
		if !m.HasBC || m.BSize != m.Size-1 {
			whole = false
		}
		if !s.Truth.Matches(dec, m.Payload) {
			prefix = false
		}
		dec += int64(len(m.Payload))
		lastMagic = m.Magic
	}
	return tr.M{"whole": whole, "decoded": dec, "prefix": prefix, "members": len(ms), "lastMagic": lastMagic && whole, "bytes": len(b)}
}

func (s *Sink) Digest() string {
	s.mu.Lock()
	defer s.mu.Unlock()
	h := sha1.Sum(s.Buf)
	return hex.EncodeToString(h[:8])
}

func (s *Sink) Bytes() []byte {
	s.mu.Lock()
	defer s.mu.Unlock()
	return append([]byte(nil), s.Buf...)
}

// LibGoroutines counts goroutines that have a frame of the given package (after letting
// finished goroutines exit) and returns the names of their library frames.
func LibGoroutines(marker string) (int, []string) { return LibGoroutinesAbove(marker, 0) }

// LibBaseline is the number of library goroutines alive now (left behind by earlier
// scenarios that hung); LibGoroutinesAbove reports only what exceeds it.
func LibBaseline(marker string) int {
	n := 0
	buf := make([]byte, 1<<22)
	buf = buf[:runtime.Stack(buf, true)]
	for _, g := range strings.Split(string(buf), "\n\n") {
		if strings.Contains(g, marker) && !strings.Contains(g, "verif/harness") {
			n++
		}
	}
	return n
}

func LibGoroutinesAbove(marker string, base int) (int, []string) {
	var frames []string
	n := 0
	for try := 0; try < 20; try++ {
		n, frames = 0, nil
		buf := make([]byte, 1<<22)
		buf = buf[:runtime.Stack(buf, true)]
		for _, g := range strings.Split(string(buf), "\n\n") {
			if !strings.Contains(g, marker) {
				continue
			}
			// the driver's own goroutine calling into the library does not count
			if strings.Contains(g, "verif/harness") {
				continue
			}
			n++
			for _, ln := range strings.Split(g, "\n") {
				if strings.Contains(ln, marker) && !strings.HasPrefix(ln, "\t") {
					frames = append(frames, strings.TrimSpace(ln))
					break
				}
			}
		}
		if n <= base {
			return 0, nil
		}
		time.Sleep(10 * time.Millisecond)
	}
	return n - base, frames
}

func ErrClass(err error, closed error) string {
	switch {
	case err == nil:
		return "nil"
	case closed != nil && err == closed:
		return "ErrClosed"
	}
	if err.Error() == "EOF" {
		return "EOF"
	}
	return "other"
}
