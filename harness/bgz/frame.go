package bgz

import (
	"bytes"
	"compress/flate"
	"encoding/binary"
	"hash/crc32"
	"io"
)

// Member holds the facts about one gzip member as read by this parser, which is written
// from RFC 1952 and the SAM specification (section 4.1) and shares no code with bgzf.
type Member struct {
	Off      int64 // offset of the member in the stream
	Size     int   // total member length in bytes (0 if the member is not complete)
	Complete bool  // header, deflate data and trailer all present and consistent
	HasBC    bool  // FEXTRA holds a well-formed BC subfield of length 2
	BSize    int   // value of the BC subfield (member length - 1)
	ExtraOK  bool  // FEXTRA is a well-formed list of subfields exactly filling XLEN
	Flg      byte
	CM       byte
	Payload  []byte // inflated data (nil if inflation failed)
	CRCOK    bool   // CRC32 and ISIZE in the trailer match the inflated data
	Magic    bool   // the member is byte-for-byte the 28-byte BGZF EOF marker
	Err      string
}

var MagicBlock = []byte("\x1f\x8b\x08\x04\x00\x00\x00\x00\x00\xff\x06\x00\x42\x43\x02\x00\x1b\x00\x03\x00\x00\x00\x00\x00\x00\x00\x00\x00")

// ParseMember parses the member that starts at b[0].  The member's extent is found by
// inflating (not by trusting BSIZE), so that BSIZE can be checked against it.
func ParseMember(b []byte, off int64) Member {
	m := Member{Off: off}
	if len(b) < 10 {
		m.Err = "short header"
		return m
	}
	if b[0] != 0x1f || b[1] != 0x8b {
		m.Err = "bad magic"
		return m
	}
	m.CM, m.Flg = b[2], b[3]
	if m.CM != 8 {
		m.Err = "CM != 8"
		return m
	}
	p := 10
	if m.Flg&0x04 != 0 { // FEXTRA
		if len(b) < p+2 {
			m.Err = "short xlen"
			return m
		}
		xlen := int(binary.LittleEndian.Uint16(b[p:]))
		p += 2
		if len(b) < p+xlen {
			m.Err = "short extra"
			return m
		}
		ex := b[p : p+xlen]
		p += xlen
		m.ExtraOK = true
		for len(ex) > 0 {
			if len(ex) < 4 {
				m.ExtraOK = false
				break
			}
			slen := int(binary.LittleEndian.Uint16(ex[2:]))
			if len(ex) < 4+slen {
				m.ExtraOK = false
				break
			}
			if ex[0] == 'B' && ex[1] == 'C' && slen == 2 && !m.HasBC {
				m.HasBC = true
				m.BSize = int(binary.LittleEndian.Uint16(ex[4:]))
			}
			ex = ex[4+slen:]
		}
	}
	if m.Flg&0x08 != 0 { // FNAME
		i := bytes.IndexByte(b[p:], 0)
		if i < 0 {
			m.Err = "unterminated name"
			return m
		}
		p += i + 1
	}
	if m.Flg&0x10 != 0 { // FCOMMENT
		i := bytes.IndexByte(b[p:], 0)
		if i < 0 {
			m.Err = "unterminated comment"
			return m
		}
		p += i + 1
	}
	if m.Flg&0x02 != 0 { // FHCRC
		p += 2
	}
	if p > len(b) {
		m.Err = "short header"
		return m
	}
	br := bytes.NewReader(b[p:])
	fr := flate.NewReader(br)
	data, err := io.ReadAll(fr)
	if err != nil {
		m.Err = "inflate: " + err.Error()
		return m
	}
	m.Payload = data
	consumed := p + (len(b[p:]) - br.Len())
	if len(b) < consumed+8 {
		m.Err = "short trailer"
		return m
	}
	crc := binary.LittleEndian.Uint32(b[consumed:])
	isize := binary.LittleEndian.Uint32(b[consumed+4:])
	m.CRCOK = crc == crc32.ChecksumIEEE(data) && isize == uint32(len(data))
	m.Size = consumed + 8
	m.Complete = m.CRCOK
	if !m.CRCOK {
		m.Err = "crc/isize mismatch"
	}
	m.Magic = bytes.Equal(b[:m.Size], MagicBlock)
	return m
}

// ParseStream splits b into members; the last element is incomplete if b does not end
// at a member boundary.
func ParseStream(b []byte) []Member {
	var ms []Member
	off := 0
	for off < len(b) {
		m := ParseMember(b[off:], int64(off))
		ms = append(ms, m)
		if !m.Complete {
			break
		}
		off += m.Size
	}
	return ms
}
