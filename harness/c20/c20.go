// Package c20 drives the ITF-8/LTF-8 codecs.
package c20

import (
	"bytes"
	"encoding/json"
	"fmt"
	"io"
	"os"
	"runtime"
	"sync"
	"testing/iotest"

	"github.com/biogo/hts/cram"
	"github.com/biogo/hts/cram/encoding/itf8"
	"github.com/biogo/hts/cram/encoding/ltf8"

	"verif/harness/tr"
)

func limbs32(u uint32) []int { return []int{int(u >> 16), int(u & 0xffff)} }
func limbs64(u uint64) []int {
	return []int{int(u >> 48), int(u >> 32 & 0xffff), int(u >> 16 & 0xffff), int(u & 0xffff)}
}
func ints(b []byte) []int {
	o := make([]int, len(b))
	for i, x := range b {
		o[i] = int(x)
	}
	return o
}

func class32(u uint32) string {
	switch {
	case u < 0x80:
		return "1"
	case u < 0x4000:
		return "2"
	case u < 0x200000:
		return "3"
	case u < 0x10000000:
		return "4"
	}
	return "5"
}

func enc32(t *tr.Writer, v int32) {
	var b [8]byte
	for i := range b {
		b[i] = 0xa5
	}
	n := itf8.Encode(b[:], v)
	dv, dn, dok := itf8.Decode(b[:n])
	// nothing beyond the n bytes is written, and a destination of exactly Len(v) bytes is enough
	clean := untouched(b[n:])
	exact := func() (ok bool) {
		defer func() { recover() }()
		x := make([]byte, itf8.Len(v))
		return itf8.Encode(x, v) == len(x) && bytes.Equal(x, b[:n])
	}()
	t.Ev("enc", tr.M{"sig": "itf8/enc/len" + class32(uint32(v)), "kind": "itf8", "v": limbs32(uint32(v)), "bytes": ints(b[:n]), "n": n,
		"len": itf8.Len(v), "dv": limbs32(uint32(dv)), "dn": dn, "dok": dok, "clean": clean, "exact": exact})
}

func class64(u uint64) string {
	n := 1
	for _, lim := range []uint64{0x80, 0x4000, 0x200000, 0x10000000, 0x800000000, 0x40000000000, 0x2000000000000, 0x100000000000000} {
		if u >= lim {
			n++
		}
	}
	return fmt.Sprint(n)
}

func enc64(t *tr.Writer, v int64) {
	var b [12]byte
	for i := range b {
		b[i] = 0xa5
	}
	n := ltf8.Encode(b[:], v)
	dv, dn, dok := ltf8.Decode(b[:n])
	clean := untouched(b[n:])
	exact := func() (ok bool) {
		defer func() { recover() }()
		x := make([]byte, ltf8.Len(v))
		return ltf8.Encode(x, v) == len(x) && bytes.Equal(x, b[:n])
	}()
	t.Ev("enc", tr.M{"sig": "ltf8/enc/len" + class64(uint64(v)), "kind": "ltf8", "v": limbs64(uint64(v)), "bytes": ints(b[:n]), "n": n,
		"len": ltf8.Len(v), "dv": limbs64(uint64(dv)), "dn": dn, "dok": dok, "clean": clean, "exact": exact})
}

func untouched(b []byte) bool {
	for _, c := range b {
		if c != 0xa5 {
			return false
		}
	}
	return true
}

type countReader struct {
	r io.Reader
	n int
}

func (c *countReader) Read(p []byte) (int, error) {
	n, err := c.r.Read(p)
	c.n += n
	return n, err
}

// nestedReader delivers the bytes of r; before every delivery after the first it decodes one ITF-8
// and one LTF-8 number from a stream of its own through the same stream readers.
type nestedReader struct {
	r     io.Reader
	calls int
}

func (n *nestedReader) Read(p []byte) (int, error) {
	if n.calls++; n.calls > 1 {
		cram.VerifITF8(bytes.NewReader([]byte{0xbf, 0xff}))
		cram.VerifLTF8(bytes.NewReader([]byte{0xc1, 0x02, 0x03}))
	}
	return n.r.Read(p)
}

func dec(t *tr.Writer, kind string, b []byte) {
	res := "ok"
	var v []int
	var n int
	var ok bool
	func() {
		defer func() {
			if r := recover(); r != nil {
				res = fmt.Sprint("panic: ", r)
			}
		}()
		if kind == "itf8" {
			x, m, k := itf8.Decode(b)
			v, n, ok = limbs32(uint32(x)), m, k
		} else {
			x, m, k := ltf8.Decode(b)
			v, n, ok = limbs64(uint64(x)), m, k
		}
	}()
	t.Ev("dec", tr.M{"sig": kind + "/dec", "kind": kind, "bytes": ints(b), "v": v, "n": n, "ok": ok, "res": res})
	// stream readers of package cram over exactly these bytes, delivered in the ways an io.Reader
	// may deliver them: all at once with io.EOF on the next call, the last bytes together with
	// io.EOF, one byte per call, half of what is asked for per call
	// ("nested": a source that itself decodes a number of another stream between the bytes it hands out)
	for _, rk := range []string{"plain", "dataerr", "onebyte", "half", "nested"} {
		var src io.Reader = bytes.NewReader(b)
		switch rk {
		case "nested":
			src = &nestedReader{r: iotest.OneByteReader(src)}
		case "dataerr":
			src = iotest.DataErrReader(src)
		case "onebyte":
			src = iotest.OneByteReader(src)
		case "half":
			src = iotest.HalfReader(src)
		}
		res = "ok"
		cr := &countReader{r: src}
		var err error
		func() {
			defer func() {
				if r := recover(); r != nil {
					res = fmt.Sprint("panic: ", r)
				}
			}()
			if kind == "itf8" {
				var x int32
				x, err = cram.VerifITF8(cr)
				v = limbs32(uint32(x))
			} else {
				var x int64
				x, err = cram.VerifLTF8(cr)
				v = limbs64(uint64(x))
			}
		}()
		t.Ev("sdec", tr.M{"sig": kind + "/sdec", "kind": kind, "rk": rk, "bytes": ints(b), "v": v, "consumed": cr.n, "err": err != nil, "res": res})
	}
}

// Run records stratified encode/decode calls and decodes of byte strings by first-byte class.
func Run(out string) {
	t := tr.Create(out)
	defer t.Close()
	rnd := tr.Rand(20)
	nrand := 150
	if tr.Tier() == "thorough" {
		nrand = 3000
	}
	// ITF-8 values: every class boundary +-2, single and double bit patterns, random per class
	t.Begin("itf8/enc", nil)
	seen32 := map[uint32]bool{}
	add32 := func(u uint32) {
		if !seen32[u] {
			seen32[u] = true
			enc32(t, int32(u))
		}
	}
	for _, sh := range []uint{0, 7, 14, 21, 28, 31, 32} {
		var base uint64 = 1 << sh
		for d := int64(-2); d <= 2; d++ {
			add32(uint32(int64(base) + d))
		}
	}
	for i := uint(0); i < 32; i++ {
		add32(1 << i)
		add32(^uint32(1 << i))
		for j := i + 1; j < 32; j++ {
			add32(1<<i | 1<<j)
		}
	}
	for _, bitsN := range []uint{7, 14, 21, 28, 32} {
		for i := 0; i < nrand; i++ {
			add32(uint32(rnd.Uint64() & (1<<bitsN - 1)))
		}
	}
	// LTF-8
	t.Begin("ltf8/enc", nil)
	seen64 := map[uint64]bool{}
	add64 := func(u uint64) {
		if !seen64[u] {
			seen64[u] = true
			enc64(t, int64(u))
		}
	}
	for _, sh := range []uint{0, 7, 14, 21, 28, 35, 42, 49, 56, 63} {
		var base uint64 = 1 << sh
		for d := int64(-2); d <= 2; d++ {
			add64(uint64(int64(base) + d))
		}
	}
	add64(^uint64(0))
	add64(^uint64(0) - 1)
	for i := uint(0); i < 64; i++ {
		add64(1 << i)
		add64(^uint64(1 << i))
		for j := i + 1; j < 64; j += 3 {
			add64(1<<i | 1<<j)
		}
	}
	for _, bitsN := range []uint{7, 14, 21, 28, 35, 42, 49, 56, 64} {
		for i := 0; i < nrand; i++ {
			m := ^uint64(0)
			if bitsN < 64 {
				m = 1<<bitsN - 1
			}
			add64(rnd.Uint64() & m)
		}
	}
	// byte strings of length 0..9 (10 for margin) over first-byte classes x fills
	firsts := []byte{0x00, 0x01, 0x7f, 0x80, 0xbf, 0xc0, 0xdf, 0xe0, 0xef, 0xf0, 0xf7, 0xf8, 0xfb, 0xfc, 0xfd, 0xfe, 0xff}
	for _, kind := range []string{"itf8", "ltf8"} {
		t.Begin(kind+"/dec", nil)
		dec(t, kind, nil)
		for _, f := range firsts {
			for ln := 1; ln <= 10; ln++ {
				for fill := 0; fill < 3; fill++ {
					b := make([]byte, ln)
					b[0] = f
					for i := 1; i < ln; i++ {
						switch fill {
						case 0:
							b[i] = 0
						case 1:
							b[i] = 0xff
						default:
							b[i] = byte(rnd.Intn(256))
						}
					}
					dec(t, kind, b)
				}
			}
		}
	}
	tr.Summary(tr.M{"scenarios": t.Scen, "lines": t.Lines, "itf8_values": len(seen32), "ltf8_values": len(seen64), "sigs": t.Sigs()})
}

// Sweep compares the real ITF-8 codec with a table interpreter driven by the layout that
// TLC exported from Tf8!SlotTbl, for every int32 (thorough) or a stride (quick), and a
// stratified LTF-8 set.  It prints mismatching values as trace lines for TLC to judge.
func Sweep(layoutPath, out string, stride uint64) {
	raw, err := os.ReadFile(layoutPath)
	if err != nil {
		panic(err)
	}
	var tbl map[string][][]map[string]int
	if err := json.Unmarshal(raw, &tbl); err != nil {
		panic(err)
	}
	slot := func(kind string, n, k, j int) int { return tbl[kind][n-1][k-1][fmt.Sprint(j)] }
	type lay struct {
		or   [9]byte
		care [9]byte
		src  [9][8]int8
	}
	mk := func(kind string, max int) []lay {
		ls := make([]lay, max+1)
		for n := 1; n <= max; n++ {
			for k := 1; k <= n; k++ {
				for j := 0; j < 8; j++ {
					s := slot(kind, n, k, j)
					ls[n].src[k-1][j] = -1
					switch {
					case s == -2:
						ls[n].or[k-1] |= 1 << uint(j)
						ls[n].care[k-1] |= 1 << uint(j)
					case s == -1:
						ls[n].care[k-1] |= 1 << uint(j)
					case s >= 0:
						ls[n].care[k-1] |= 1 << uint(j)
						ls[n].src[k-1][j] = int8(s)
					}
				}
			}
		}
		return ls
	}
	l32 := mk("itf8", 5)
	l64 := mk("ltf8", 9)
	vbits := func(kind string, n int) uint {
		if kind == "itf8" && n == 5 {
			return 32
		}
		if n == 9 {
			return 64
		}
		return uint(7 * n)
	}
	interp := func(ls []lay, kind string, max int, u uint64) (int, [9]byte, [9]byte) {
		n := max
		for m := 1; m <= max; m++ {
			vb := vbits(kind, m)
			if vb >= 64 || u>>vb == 0 {
				n = m
				break
			}
		}
		var b [9]byte
		for k := 0; k < n; k++ {
			x := ls[n].or[k]
			for j := 0; j < 8; j++ {
				if s := ls[n].src[k][j]; s >= 0 && u>>uint(s)&1 == 1 {
					x |= 1 << uint(j)
				}
			}
			b[k] = x
		}
		return n, b, ls[n].care
	}
	t := tr.Create(out)
	defer t.Close()
	t.Begin("itf8/sweep", tr.M{"stride": stride})
	var mu sync.Mutex
	var bad, total uint64
	nw := runtime.NumCPU()
	var wg sync.WaitGroup
	span := (uint64(1)<<32 + uint64(nw) - 1) / uint64(nw)
	for w := 0; w < nw; w++ {
		wg.Add(1)
		go func(w int) {
			defer wg.Done()
			var cnt uint64
			lo, hi := uint64(w)*span, uint64(w+1)*span
			if hi > 1<<32 {
				hi = 1 << 32
			}
			for u := lo; u < hi; u += stride {
				v := int32(uint32(u))
				var b [8]byte
				n := itf8.Encode(b[:], v)
				en, eb, care := interp(l32, "itf8", 5, u)
				okb := n == en && itf8.Len(v) == en
				for k := 0; okb && k < en; k++ {
					if b[k]&care[k] != eb[k]&care[k] {
						okb = false
					}
				}
				dv, dn, dok := itf8.Decode(b[:n])
				if !okb || !dok || dn != n || dv != v {
					mu.Lock()
					if bad < 50 {
						enc32(t, v)
					}
					bad++
					mu.Unlock()
				}
				cnt++
			}
			mu.Lock()
			total += cnt
			mu.Unlock()
		}(w)
	}
	wg.Wait()
	// LTF-8: stratified sweep: every value of the form (pattern << shift) for 20-bit patterns
	t.Begin("ltf8/sweep", nil)
	var bad64, total64 uint64
	for w := 0; w < nw; w++ {
		wg.Add(1)
		go func(w int) {
			defer wg.Done()
			var cnt uint64
			for p := uint64(w); p < 1<<20; p += uint64(nw) * stride {
				for sh := uint(0); sh <= 44; sh += 4 {
					for _, u := range []uint64{p << sh, ^(p << sh), p<<sh | p} {
						v := int64(u)
						var b [12]byte
						n := ltf8.Encode(b[:], v)
						en, eb, _ := interp(l64, "ltf8", 9, u)
						okb := n == en && ltf8.Len(v) == en && bytes.Equal(b[:n], eb[:en])
						dv, dn, dok := ltf8.Decode(b[:n])
						if !okb || !dok || dn != n || dv != v {
							mu.Lock()
							if bad64 < 50 {
								enc64(t, v)
							}
							bad64++
							mu.Unlock()
						}
						cnt++
					}
				}
			}
			mu.Lock()
			total64 += cnt
			mu.Unlock()
		}(w)
	}
	wg.Wait()
	tr.Summary(tr.M{"itf8_evaluated": total, "itf8_disagree": bad, "ltf8_evaluated": total64, "ltf8_disagree": bad64, "stride": stride, "lines": t.Lines, "scenarios": t.Scen})
}
