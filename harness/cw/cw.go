// Package cw generates and runs bgzf.Writer scenarios (C01 writer half, C08, C09, C12).
package cw

import (
	"io"
	"math/rand"
	"strings"
	"time"

	"github.com/biogo/hts/bam"
	"github.com/biogo/hts/sam"

	"github.com/biogo/hts/bgzf"

	"verif/harness/bamx"
	"verif/harness/bgz"
	"verif/harness/tr"
	"verif/harness/watch"
)

const B = bgzf.BlockSize

var lenClasses = []int{0, 1, 5, 1000, B - 1, B, B + 1, 2 * B, 2*B + 1, 3*B + 7}

func randOp(r *rand.Rand) bgz.Op {
	switch k := r.Intn(10); {
	case k < 6:
		n := lenClasses[r.Intn(len(lenClasses))]
		if r.Intn(4) == 0 {
			n = r.Intn(3 * B)
		}
		return bgz.Op{K: "W", N: n, Comp: r.Intn(3) > 0}
	case k < 8:
		return bgz.Op{K: "F"}
	default:
		return bgz.Op{K: "Wt"}
	}
}

func randScript(r *rand.Rand, maxOps int) []bgz.Op {
	n := r.Intn(maxOps + 1)
	var s []bgz.Op
	for i := 0; i < n; i++ {
		s = append(s, randOp(r))
	}
	s = append(s, bgz.Op{K: "C"})
	switch r.Intn(8) {
	case 0:
		s = append(s, bgz.Op{K: "W", N: 1})
	case 1:
		s = append(s, bgz.Op{K: "C"})
	case 2:
		s = append(s, bgz.Op{K: "F"})
	}
	return s
}

// members the script will produce (upper bound, for choosing fault positions)
func members(s []bgz.Op) int {
	next, m := 0, 0
	for _, o := range s {
		switch o.K {
		case "W":
			rem := o.N
			for rem > 0 {
				k := 0
				if next == 0 || next+rem <= B {
					k = B - next
					if rem < k {
						k = rem
					}
				}
				next += k
				rem -= k
				if next == B || k == 0 {
					m++
					next = 0
				}
			}
		case "F":
			if next > 0 {
				m++
				next = 0
			}
		case "C":
			return m + 2
		}
	}
	return m
}

func randHeader(r *rand.Rand) *bgz.Header {
	h := &bgz.Header{OS: []int{0xff, 3, 0}[r.Intn(3)]}
	if r.Intn(2) == 0 {
		h.ModTime = int64(r.Intn(1 << 30))
	}
	if r.Intn(3) == 0 {
		h.Name = "reads.bam"
	}
	if r.Intn(3) == 0 {
		h.Comment = "verif comment"
	}
	if r.Intn(2) == 0 {
		// well-formed extra subfields after the BC field
		ex := []byte{'X', 'Y', 3, 0, 1, 2, 3}
		if r.Intn(2) == 0 {
			ex = append(ex, 'Z', 'Z', 0, 0)
		}
		h.Extra = ex
	}
	return h
}

// Run writes the trace of all writer scenarios of the tier; mode selects the family:
// "all" (default), or one of "plain", "fault", "hold", "hdr".
func Run(out, mode string) { RunRB(out, "", mode) }

// RunRB additionally reads every cleanly closed plain stream back through bgzf.Reader
// (C01) and records those reader traces in out2.
func RunRB(out, out2, mode string) {
	t := tr.Create(out)
	defer t.Close()
	var t2 *tr.Writer
	if out2 != "" {
		t2 = tr.Create(out2)
		defer t2.Close()
	}
	watch.Threshold = 6 * time.Second
	r := tr.Rand(812)
	nplain, nfault, nhdr := 60, 120, 20
	levels := []int{-1, 0, 1, 9}
	if tr.Tier() == "thorough" {
		nplain, nfault, nhdr = 1500, 3000, 300
		levels = []int{-1, 0, 1, 2, 3, 4, 5, 6, 7, 8, 9}
		watch.Threshold = 20 * time.Second
	}
	want := func(m string) bool { return mode == "" || mode == "all" || mode == m }
	sid := 0
	ran, aborted := 0, 0
	run := func(sc bgz.WScenario) {
		b, truth, ok := bgz.RunWriter(t, sc)
		ran++
		if !ok {
			aborted++
		}
		if t2 == nil || !ok || sc.FaultAt != 0 || sc.Class != "plain" {
			return
		}
		f, whole := bgz.FileOf(b)
		if !whole || f.Total != truth.Len() {
			return // the writer trace is rejected for this; nothing to read back
		}
		// read back with a mix of Read (model buffer-size classes) and ReadByte, to the end and beyond
		var ops []bgz.ROp
		sizes := []int{0, 1, 2, 7, 4096, B - 1, B, B + 1, 2*B + 3, 1 << 20}
		var planned int64
		// one time in three the end of the data is crossed byte by byte
		limit := f.Total + int64(B)
		tailBytes := r.Intn(3) == 0
		if tailBytes {
			limit = f.Total - int64(1+r.Intn(3))
		}
		// one time in four the file is walked block by block: a Read up to a short tail of the block,
		// then the tail byte by byte with one small Read in the middle (the mix inside one block)
		if !tailBytes && r.Intn(4) == 0 {
			for _, m := range f.Members {
				if m.Len == 0 || len(ops) > 3500 {
					continue
				}
				tail := 3 + r.Intn(120)
				if tail > m.Len {
					tail = m.Len
				}
				if m.Len > tail {
					ops = append(ops, bgz.ROp{K: "read", N: m.Len - tail})
				}
				k := 0
				if tail >= 3 {
					lim := tail - 2
					if lim > 7 {
						lim = 7
					}
					k = 1 + r.Intn(lim)
				}
				at := 1
				if tail-k-1 > 1 {
					at = 1 + r.Intn(tail-k-1)
				}
				for i := 0; i < tail; {
					if k > 0 && i == at {
						ops = append(ops, bgz.ROp{K: "read", N: k})
						i += k
						continue
					}
					ops = append(ops, bgz.ROp{K: "readbyte"})
					i++
				}
				planned += int64(m.Len)
			}
		}
		for planned <= limit && len(ops) < 4000 {
			if tailBytes {
				// exact sizes so that the reads stop short of the end
				rem := limit + 1 - planned
				n := int64([]int{1, 7, 4096, B, B + 1}[r.Intn(5)])
				if n > rem {
					n = rem
				}
				ops = append(ops, bgz.ROp{K: "read", N: int(n)})
				planned += n
				continue
			}
			if r.Intn(5) == 0 {
				ops = append(ops, bgz.ROp{K: "readbyte"})
				planned++
				continue
			}
			n := sizes[r.Intn(len(sizes))]
			if f.Total > 3*int64(B) && n < 4096 && r.Intn(3) > 0 {
				n = B
			}
			ops = append(ops, bgz.ROp{K: "read", N: n})
			planned += int64(n)
		}
		if tailBytes {
			for i := 0; i < 6; i++ {
				ops = append(ops, bgz.ROp{K: "readbyte"})
			}
		}
		ops = append(ops, bgz.ROp{K: "read", N: 10}, bgz.ROp{K: "readbyte"})
		bgz.RunReader(t2, bgz.RScenario{Class: "readback", File: f, Truth: truth, CutLen: -1, RD: []int{0, 1, 2, 4}[r.Intn(4)], Ops: ops,
			SrcKind: []string{"", "", "stream", "bytestream"}[r.Intn(4)]})
	}
	if want("plain") {
		// every single length class, then random scripts, each with wc in {1,2,4} (+0,16 sometimes)
		var scripts [][]bgz.Op
		for _, n := range lenClasses {
			for _, c := range []bool{true, false} {
				scripts = append(scripts, []bgz.Op{{K: "W", N: n, Comp: c}, {K: "C"}})
			}
		}
		scripts = append(scripts, []bgz.Op{{K: "C"}}, []bgz.Op{{K: "F"}, {K: "Wt"}, {K: "C"}},
			[]bgz.Op{{K: "W", N: B, Comp: true}, {K: "F"}, {K: "C"}},
			[]bgz.Op{{K: "W", N: 10, Comp: true}, {K: "F"}, {K: "Wt"}, {K: "W", N: B, Comp: false}, {K: "Wt"}, {K: "C"}})
		for i := 0; i < nplain; i++ {
			scripts = append(scripts, randScript(r, 5))
		}
		for _, s := range scripts {
			sid++
			level := levels[r.Intn(len(levels))]
			seed := r.Uint64()
			wcs := []int{1, 2, 4}
			if r.Intn(4) == 0 {
				wcs = append(wcs, []int{0, 16}[r.Intn(2)])
			}
			for _, wc := range wcs {
				run(bgz.WScenario{Class: "plain", Script: s, WC: wc, Level: level, ScriptID: sid, Seed: seed, Jitter: r.Intn(2) == 0})
			}
		}
	}
	if want("hdr") {
		for i := 0; i < nhdr; i++ {
			sid++
			s := randScript(r, 3)
			h := randHeader(r)
			seed := r.Uint64()
			level := levels[r.Intn(len(levels))]
			for _, wc := range []int{1, 3} {
				run(bgz.WScenario{Class: "hdr", Script: s, WC: wc, Level: level, Hdr: h, ScriptID: sid, Seed: seed})
			}
		}
	}
	if want("hdr") {
		// member-size boundary: a full incompressible block stored at level 0 plus an Extra
		// subfield sized so that the member is 65534..65538 bytes long.  Sizes above 64 KiB
		// are outside the property's domain for the data (the call may fail), but whatever
		// is emitted must still be a valid member of at most 64 KiB.
		probe := tr.Create("/dev/null")
		seed := r.Uint64()
		full := []bgz.Op{{K: "W", N: B, Comp: false}, {K: "C"}}
		b0, _, _ := bgz.RunWriter(probe, bgz.WScenario{Class: "probe", Script: full, WC: 1, Level: 0, Hdr: &bgz.Header{OS: 0xff}, Seed: seed})
		probe.Close()
		ms := bgz.ParseStream(b0)
		if len(ms) > 0 && ms[0].Complete {
			base := ms[0].Size
			for target := 65534; target <= 65538; target++ {
				pad := target - base - 4 // one subfield: 4 bytes of header + pad bytes
				if pad < 0 {
					continue
				}
				ex := append([]byte{'V', 'P', byte(pad), byte(pad >> 8)}, make([]byte, pad)...)
				for _, level := range []int{0, 1, -1} {
					run(bgz.WScenario{Class: "hdrsize", Script: full, WC: 1, Level: level, Hdr: &bgz.Header{OS: 0xff, Extra: ex}, Seed: seed})
				}
			}
		}
	}
	if mode == "itrace" {
		// hook traces for the conformance of WriterI: fault-free scripts, every hook point logged
		ni := 90
		if tr.Tier() == "thorough" {
			ni = 1500
		}
		fixed := [][]bgz.Op{
			{{K: "C"}},
			{{K: "W", N: 1, Comp: true}, {K: "C"}},
			{{K: "W", N: 1, Comp: true}, {K: "F"}, {K: "Wt"}, {K: "C"}},
			{{K: "W", N: B, Comp: true}, {K: "C"}},
			{{K: "W", N: 3*B + 7, Comp: false}, {K: "F"}, {K: "F"}, {K: "Wt"}, {K: "W", N: 5, Comp: true}, {K: "C"}, {K: "C"}},
			{{K: "W", N: B - 1, Comp: true}, {K: "W", N: 2, Comp: true}, {K: "Wt"}, {K: "W", N: 0, Comp: true}, {K: "C"}, {K: "W", N: 3, Comp: true}},
		}
		for i := 0; i < ni; i++ {
			var s []bgz.Op
			if i < 3*len(fixed) {
				s = fixed[i/3]
			} else {
				s = randScript(r, 6)
			}
			wc := []int{1, 2, 4}[i%3]
			sc := bgz.WScenario{Class: "itrace", Script: s, WC: wc, Level: 1, Seed: r.Uint64(), Jitter: i%2 == 0, HookTrace: true}
			if i%5 == 4 {
				sc.Hold = []map[string]time.Duration{{"e.copied": 3 * time.Millisecond}, {"e.done": 3 * time.Millisecond}, {"comp.done": 3 * time.Millisecond}}[(i/5)%3]
			}
			run(sc)
		}
	}
	if mode == "bam" {
		// the BAM writer as a BGZF script: NewWriter = Write(header) Flush Wait, Write(rec), Close
		nb := 40
		if tr.Tier() == "thorough" {
			nb = 800
		}
		for i := 0; i < nb; i++ {
			h := bamx.Header(1 + r.Intn(3))
			if i%4 == 1 {
				// a header whose encoding ends exactly on (or one byte either side of) a BGZF block
				// boundary: the size is steered with a comment line
				target := []int{bgzf.BlockSize, bgzf.BlockSize - 1, bgzf.BlockSize + 1, 2 * bgzf.BlockSize}[(i/4)%4]
				h.Comments = []string{strings.Repeat("x", 1000)}
				if probe, err := bamx.Build(h, nil, 1, -1); err == nil {
					if l0 := bamx.Parse(probe); l0.OK && target-int(l0.HdrLen)+1000 > 0 {
						h.Comments = []string{strings.Repeat("x", target-int(l0.HdrLen)+1000)}
					}
				}
			}
			var recs []*sam.Record
			nrec := []int{0, 1, 3, 12, 40}[r.Intn(5)]
			pos := 0
			for k := 0; k < nrec; k++ {
				size := []int{40, 200, 4000, 30000, 65000, 70000}[r.Intn(6)] + r.Intn(30)
				pos += r.Intn(1000)
				recs = append(recs, bamx.Record(h, k, 0, pos, size))
			}
			dry, err := bamx.Build(h, recs, 1, -1)
			if err != nil {
				panic(err)
			}
			lay := bamx.Parse(dry)
			if !lay.OK || len(lay.Recs) != len(recs) {
				// the writer's own output does not parse as the records written: that is behaviour of
				// the code under test, recorded as an event no specification accepts
				t.Begin("writer/bam", tr.M{"wc": 1, "level": -1, "B": bgzf.BlockSize, "faultAt": 0, "partial": false, "script": []string{}, "scriptId": 0, "hasHdr": false, "hold": []string{}})
				t.Ev("abort", tr.M{"sig": "writer/bam/dryrun", "res": "layout", "err": "stream written by bam.Writer does not parse as header + the records written"})
				ran++
				aborted++
				continue
			}
			sizes := []int{int(lay.HdrLen)}
			for _, rr := range lay.Recs {
				sizes = append(sizes, int(rr[1]-rr[0]))
			}
			wc := []int{1, 2, 4}[i%3]
			var bw *bam.Writer
			eng := bgz.BAMEngine{
				New: func(w io.Writer, wc int) error {
					var e error
					bw, e = bam.NewWriter(w, h, wc)
					return e
				},
				Write: func(k int) error { return bw.Write(recs[k]) },
				Close: func() error { return bw.Close() },
			}
			ran++
			if !bgz.RunBAMWriter(t, "bam", eng, lay.Flat, sizes, wc, i%2 == 0, r.Uint64()) {
				aborted++
			}
		}
	}
	if want("fault") {
		// every fault position of small workloads, sampled positions of random ones
		fixed := [][]bgz.Op{
			{{K: "W", N: 10, Comp: true}, {K: "C"}},
			{{K: "W", N: 10, Comp: true}, {K: "F"}, {K: "Wt"}, {K: "C"}},
			{{K: "W", N: 2 * B, Comp: true}, {K: "W", N: 10, Comp: true}, {K: "C"}},
			{{K: "W", N: 3 * B, Comp: false}, {K: "F"}, {K: "Wt"}, {K: "W", N: 5, Comp: true}, {K: "C"}},
			{{K: "W", N: 6 * B, Comp: true}, {K: "Wt"}, {K: "C"}, {K: "C"}},
			{{K: "W", N: 4 * B, Comp: true}, {K: "W", N: 4 * B, Comp: true}, {K: "F"}, {K: "Wt"}, {K: "C"}},
		}
		for _, s := range fixed {
			m := members(s)
			for k := 1; k <= m; k++ {
				for _, wc := range []int{1, 2, 4} {
					for _, partial := range []bool{false, true} {
						run(bgz.WScenario{Class: "fault", Script: s, WC: wc, Level: 1, FaultAt: k, Partial: partial, Seed: r.Uint64(), Jitter: r.Intn(2) == 0})
					}
				}
			}
		}
		for i := 0; i < nfault; i++ {
			s := randScript(r, 5)
			m := members(s)
			run(bgz.WScenario{Class: "fault", Script: s, WC: []int{1, 2, 4, 8}[r.Intn(4)], Level: levels[r.Intn(len(levels))],
				FaultAt: 1 + r.Intn(m), Partial: r.Intn(2) == 0, Seed: r.Uint64(), Jitter: r.Intn(2) == 0})
		}
	}
	if want("hold") {
		// directed schedules: widen the windows TLC found relevant on WriterI
		holds := []map[string]time.Duration{
			{"e.copied": 30 * time.Millisecond},
			{"e.done": 30 * time.Millisecond},
			{"comp.done": 20 * time.Millisecond},
			{"e.write": 20 * time.Millisecond},
		}
		scripts := [][]bgz.Op{
			{{K: "W", N: 1, Comp: true}, {K: "F"}, {K: "Wt"}, {K: "C"}},
			{{K: "W", N: 2 * B, Comp: true}, {K: "Wt"}, {K: "C"}},
			{{K: "W", N: 3 * B, Comp: true}, {K: "F"}, {K: "Wt"}, {K: "W", N: 1, Comp: true}, {K: "C"}},
			// the caller goes on filling the next block while the emitter is held, and pauses before
			// handing it over: whatever the held goroutine still does to a compressor lands in that window
			{{K: "W", N: B + 5, Comp: true}, {K: "F"}, {K: "W", N: 7, Comp: true}, {K: "S", N: 80}, {K: "C"}},
			{{K: "W", N: 2*B + 5, Comp: false}, {K: "W", N: 9, Comp: true}, {K: "S", N: 80}, {K: "F"}, {K: "Wt"}, {K: "C"}},
		}
		for _, h := range holds {
			for _, s := range scripts {
				for k := 0; k <= members(s); k++ {
					for _, wc := range []int{1, 2} {
						run(bgz.WScenario{Class: "hold", Script: s, WC: wc, Level: 1, FaultAt: k, Hold: h, Seed: r.Uint64()})
					}
				}
			}
		}
	}
	tr.Summary(tr.M{"scenarios": t.Scen, "lines": t.Lines, "ran": ran, "aborted": aborted, "sigs": t.Sigs()})
}
