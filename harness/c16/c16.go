// Package c16 records the library's coordinate arithmetic and bin functions.
package c16

import (
	"fmt"
	"runtime"
	"sync"

	"github.com/biogo/hts/bam"
	"github.com/biogo/hts/csi"
	"github.com/biogo/hts/sam"

	"verif/harness/tr"
)

var opTypes = []sam.CigarOpType{sam.CigarMatch, sam.CigarInsertion, sam.CigarDeletion, sam.CigarSkipped, sam.CigarSoftClipped,
	sam.CigarHardClipped, sam.CigarPadded, sam.CigarEqual, sam.CigarMismatch, sam.CigarBack}
var opNames = []string{"M", "I", "D", "N", "S", "H", "P", "=", "X", "B"}

type opT struct {
	t int
	n int
}

func cigarEv(t *tr.Writer, class string, ref *sam.Reference, pos int, ops []opT, flags sam.Flags, seqlen int) {
	var c sam.Cigar
	var oj [][]interface{}
	for _, o := range ops {
		c = append(c, sam.NewCigarOp(opTypes[o.t], o.n))
		oj = append(oj, []interface{}{opNames[o.t], o.n})
	}
	if oj == nil {
		oj = [][]interface{}{}
	}
	r := &sam.Record{Name: "q", Ref: ref, Pos: pos, Cigar: c, Flags: flags, MatePos: -1}
	if ref == nil {
		r.Pos = -1
		pos = -1
	}
	m := tr.M{"pos": pos, "ops": oj, "unmapped": flags&sam.Unmapped != 0, "mateunmapped": flags&sam.MateUnmapped != 0, "seqlen": seqlen,
		"sig": "cigar/" + class, "res": "ok"}
	func() {
		defer func() {
			if e := recover(); e != nil {
				m["res"] = fmt.Sprint("panic: ", e)
			}
		}()
		rl, ql := c.Lengths()
		m["ref"], m["read"] = rl, ql
		m["end"] = r.End()
		m["alen"] = r.Len()
		m["valid"] = c.IsValid(seqlen)
		m["bin"] = r.Bin()
	}()
	t.Ev("cigar", m)
}

// rle of f over e = e0, e0+step, ... (count values)
func row(t *tr.Writer, kind string, ms, d uint32, b int64, e0, step int64, count int, f func(b, e int64) uint32) {
	var runs [][]int64
	for k := 0; k < count; k++ {
		v := int64(f(b, e0+int64(k)*step))
		if n := len(runs); n > 0 && runs[n-1][1] == v {
			runs[n-1][0]++
		} else {
			runs = append(runs, []int64{1, v})
		}
	}
	t.Ev("binrow", tr.M{"kind": kind, "ms": ms, "d": d, "b": b, "e0": e0, "step": step, "count": count, "runs": runs, "sig": "binrow/" + kind})
}

func Run(out string) {
	t := tr.Create(out)
	defer t.Close()
	r := tr.Rand(16)
	h, _ := sam.NewHeader(nil, nil)
	ref, _ := sam.NewReference("chr1", "", "", 1<<29-1, nil, nil)
	h.AddReference(ref)
	ncig, tileStride, nbins := 3000, 64, 2000
	if tr.Tier() == "thorough" {
		ncig, tileStride, nbins = 60000, 1, 40000
	}
	// --- CIGARs: all of <= 2 ops over the 10 types with lengths {0,1,2,5} at model positions, then random real scale
	t.Begin("cigar/model", nil)
	lens := []int{0, 1, 2, 5}
	poss := []int{0, 1, 16383, 16384, 16385, 131071, 131072, 1 << 26, 1<<29 - 20}
	var one [][]opT
	one = append(one, nil)
	for ty := range opTypes {
		for _, n := range lens {
			one = append(one, []opT{{ty, n}})
		}
	}
	var all [][]opT
	all = append(all, one...)
	for _, a := range one[1:] {
		for _, b := range one[1:] {
			all = append(all, []opT{a[0], b[0]})
		}
	}
	for i, ops := range all {
		pos := poss[i%len(poss)]
		ql := 0
		for _, o := range ops {
			if opNames[o.t] == "M" || opNames[o.t] == "I" || opNames[o.t] == "S" || opNames[o.t] == "=" || opNames[o.t] == "X" {
				ql += o.n
			}
		}
		fl := sam.Flags(0)
		switch i % 11 {
		case 3:
			fl = sam.Unmapped
		case 7:
			fl = sam.Unmapped | sam.MateUnmapped
		}
		cigarEv(t, "model", ref, pos, ops, fl, ql+[]int{0, 0, 0, 1}[i%4])
	}
	// zero-reference-length alignments at every kind of tile edge
	for _, pos := range []int{0, 1, 16383, 16384, 32768, 131072, 1 << 20, 1 << 23, 1 << 26, 1<<26 + 5} {
		for _, ops := range [][]opT{{{4, 5}}, {{1, 3}}, {{5, 2}, {4, 3}}, {{6, 1}}} {
			cigarEv(t, "zeroref", ref, pos, ops, 0, 5)
		}
	}
	cigarEv(t, "unplaced", nil, -1, nil, sam.Unmapped, 0)
	cigarEv(t, "unplaced", nil, -1, nil, sam.Unmapped|sam.MateUnmapped, 0)
	t.Begin("cigar/random", nil)
	for i := 0; i < ncig; i++ {
		n := 1 + r.Intn(6)
		var ops []opT
		ql := 0
		budget := 1<<29 - 1
		pos := []int{r.Intn(1 << 29), r.Intn(1 << 20), (1 + r.Intn(1<<15-1)) << 14, (1+r.Intn(1<<15-1))<<14 - 1}[r.Intn(4)]
		budget -= pos
		for j := 0; j < n; j++ {
			ty := r.Intn(len(opTypes))
			if r.Intn(3) > 0 {
				ty = []int{0, 0, 1, 2, 3, 4, 7, 8}[r.Intn(8)]
			}
			ln := []int{r.Intn(200), r.Intn(1 << 14), 16384, r.Intn(1 << 20), 1<<28 - 1}[r.Intn(5)]
			if opNames[ty] == "B" {
				ln = r.Intn(50)
			}
			if ln > budget/2 {
				ln = budget / 2
			}
			if opNames[ty] == "M" || opNames[ty] == "D" || opNames[ty] == "N" || opNames[ty] == "=" || opNames[ty] == "X" {
				budget -= ln
			}
			ops = append(ops, opT{ty, ln})
			if opNames[ty] == "M" || opNames[ty] == "I" || opNames[ty] == "S" || opNames[ty] == "=" || opNames[ty] == "X" {
				ql += ln
			}
		}
		fl := sam.Flags(0)
		if r.Intn(10) == 0 {
			fl = sam.Unmapped
		}
		if r.Intn(10) == 0 {
			fl |= sam.MateUnmapped
		}
		cigarEv(t, "random", ref, pos, ops, fl, ql+[]int{0, 0, 0, 1, -1}[r.Intn(5)])
	}

	// --- BAI BinFor: begin tiles x all end tiles, run-length encoded, with in-tile offsets at the edges
	t.Begin("bins/bai-rows", nil)
	const T = 1 << 14
	const NT = 1 << 15
	bai := func(b, e int64) uint32 { return bam.VerifBinFor(int(b), int(e)) }
	type job struct {
		tb   int
		dbeg int64
		dend int64
	}
	var jobs []job
	for tb := 0; tb < NT; tb += tileStride {
		jobs = append(jobs, job{tb, 0, 1}, job{tb, T - 1, T})
		if tb%(tileStride*8) == 0 {
			jobs = append(jobs, job{tb, 1, 2}, job{tb, int64(r.Intn(T)), int64(1 + r.Intn(T))})
		}
	}
	// compute rows in parallel, emit in order
	type rowT struct {
		m tr.M
	}
	rows := make([]rowT, len(jobs))
	var wg sync.WaitGroup
	sem := make(chan struct{}, runtime.NumCPU())
	for i, j := range jobs {
		wg.Add(1)
		sem <- struct{}{}
		go func(i int, j job) {
			defer wg.Done()
			defer func() { <-sem }()
			b := int64(j.tb)*T + j.dbeg
			// ends: te*T + dend for te >= tb, restricted to e > b and e <= 2^29
			e0 := int64(j.tb)*T + j.dend
			if e0 <= b {
				e0 += T
			}
			count := int((int64(NT)*T-e0)/T) + 1
			var runs [][]int64
			for k := 0; k < count; k++ {
				v := int64(bai(b, e0+int64(k)*T))
				if n := len(runs); n > 0 && runs[n-1][1] == v {
					runs[n-1][0]++
				} else {
					runs = append(runs, []int64{1, v})
				}
			}
			rows[i] = rowT{tr.M{"kind": "bai", "ms": 14, "d": 5, "b": b, "e0": e0, "step": T, "count": count, "runs": runs, "sig": "binrow/bai"}}
		}(i, j)
	}
	wg.Wait()
	for _, rw := range rows {
		t.Ev("binrow", rw.m)
	}
	// --- CSI reg2bin: small geometries exhaustively (every begin, every end), larger ones by tile rows
	t.Begin("bins/csi-rows", nil)
	for _, g := range [][2]uint32{{0, 2}, {1, 2}, {1, 1}, {2, 1}, {0, 3}} {
		max := int64(1) << (g[0] + 3*g[1])
		for b := int64(0); b < max; b++ {
			ms, d := g[0], g[1]
			row(t, "csi", ms, d, b, b+1, 1, int(max-b), func(b, e int64) uint32 { return csi.VerifReg2bin(b, e, ms, d) })
		}
	}
	for _, g := range [][2]uint32{{14, 5}, {12, 6}, {5, 4}, {16, 4}, {10, 3}} {
		ms, d := g[0], g[1]
		unit := int64(1) << ms
		nt := int64(1) << (3 * d)
		stride := nt / 256
		if tr.Tier() == "thorough" {
			stride = nt / 4096
		}
		if stride < 1 {
			stride = 1
		}
		for tb := int64(0); tb < nt; tb += stride {
			for _, de := range [][2]int64{{0, 1}, {unit - 1, unit}} {
				b := tb*unit + de[0]
				e0 := tb*unit + de[1]
				if e0 <= b {
					e0 += unit
				}
				count := int((nt*unit-e0)/unit) + 1
				if count > 1<<15 {
					count = 1 << 15
				}
				row(t, "csi", ms, d, b, e0, unit, count, func(b, e int64) uint32 { return csi.VerifReg2bin(b, e, ms, d) })
			}
		}
	}
	// --- CSI geometries whose positions exceed 2^31 (and 2^32): the real functions get real positions,
	// the events are in units of smallest-level tiles (Bins!TileLemma: geometry (ms, d) at [b, e) is
	// geometry (0, d) at [b >> ms, ((e-1) >> ms) + 1)), so that TLC's 32-bit integers suffice
	t.Begin("bins/csi-large", nil)
	nlarge := 400
	if tr.Tier() == "thorough" {
		nlarge = 20000
	}
	for i := 0; i < nlarge; i++ {
		g := [][2]uint32{{14, 7}, {12, 8}, {16, 6}, {20, 10}, {3, 10}}[i%5]
		ms, d := g[0], g[1]
		nt := int64(1) << (3 * d)
		var bt int64
		switch r.Intn(4) {
		case 0: // a tile whose position is just below / at / above 2^31 and 2^32
			p := []int64{1 << 31, 1 << 32, 1 << 33}[r.Intn(3)]
			bt = p>>ms + int64(r.Intn(3)) - 1
		case 1: // the edge of a bin of some level
			l := uint32(r.Intn(int(d) + 1))
			bt = (int64(1+r.Intn(7)) << (3 * l)) + int64(r.Intn(3)) - 1
		default:
			bt = r.Int63n(nt)
		}
		if bt < 0 {
			bt = 0
		}
		if bt >= nt {
			bt = nt - 1
		}
		et := bt + []int64{0, 0, 1, 7, 8, 9, int64(r.Intn(100))}[r.Intn(7)] // tile of the last base
		if et >= nt {
			et = nt - 1
		}
		unit := int64(1) << ms
		b := bt*unit + []int64{0, unit - 1, r.Int63n(unit)}[r.Intn(3)]
		e := et*unit + []int64{0, unit - 1, r.Int63n(unit)}[r.Intn(3)] + 1
		if e <= b {
			e = b + 1
		}
		var list []uint32
		var bin uint32
		res := "ok"
		func() {
			defer func() {
				if x := recover(); x != nil {
					res = fmt.Sprint("panic: ", x)
				}
			}()
			bin = csi.VerifReg2bin(b, e, ms, d)
			list = csi.VerifReg2bins(b, e, ms, d)
		}()
		if list == nil {
			list = []uint32{}
		}
		t.Ev("binrow", tr.M{"kind": "csi", "ms": 0, "d": d, "b": bt, "e0": et + 1, "step": 1, "count": 1, "runs": [][]int64{{1, int64(bin)}},
			"realms": ms, "realb": fmt.Sprint(b), "reale": fmt.Sprint(e), "sig": "binrow/csi-large"})
		t.Ev("bins", tr.M{"kind": "csi", "ms": 0, "d": d, "b": bt, "e": et + 1, "list": list, "res": res,
			"realms": ms, "realb": fmt.Sprint(b), "reale": fmt.Sprint(e), "sig": "bins/csi-large"})
	}
	// --- bin lists
	t.Begin("bins/lists", nil)
	binsEv := func(kind string, ms, d uint32, b, e int64) {
		var list []uint32
		res := "ok"
		func() {
			defer func() {
				if x := recover(); x != nil {
					res = fmt.Sprint("panic: ", x)
				}
			}()
			if kind == "bai" {
				list = bam.VerifOverlappingBinsFor(int(b), int(e))
			} else {
				list = csi.VerifReg2bins(b, e, ms, d)
			}
		}()
		if list == nil {
			list = []uint32{}
		}
		t.Ev("bins", tr.M{"kind": kind, "ms": ms, "d": d, "b": b, "e": e, "list": list, "res": res, "sig": "bins/" + kind})
	}
	for b := int64(0); b < 64; b++ {
		for e := b + 1; e <= 64; e++ {
			binsEv("csi", 0, 2, b, e)
		}
	}
	edges := []int64{0, 1, T - 1, T, T + 1, 8*T - 1, 8 * T, 64 * T, 512 * T, 4096 * T, 1<<29 - 1}
	for i := 0; i < nbins; i++ {
		b := edges[r.Intn(len(edges))] + int64(r.Intn(3)) - 1
		if r.Intn(3) == 0 {
			b = r.Int63n(1 << 29)
		}
		if b < 0 {
			b = 0
		}
		e := b + 1 + []int64{0, 1, int64(r.Intn(T)), int64(r.Intn(1 << 20)), T, 8 * T}[r.Intn(6)]
		if e > 1<<29 {
			e = 1 << 29
		}
		if e <= b {
			continue
		}
		if i%2 == 0 {
			binsEv("bai", 14, 5, b, e)
		} else {
			g := [][2]uint32{{14, 5}, {12, 6}, {5, 4}, {10, 3}}[r.Intn(4)]
			max := int64(1) << (g[0] + 3*g[1])
			bb, ee := b%max, e%max
			if ee <= bb {
				ee = bb + 1
			}
			binsEv("csi", g[0], g[1], bb, ee)
		}
	}
	tr.Summary(tr.M{"scenarios": t.Scen, "lines": t.Lines, "bai_rows": len(jobs), "cigars": len(all) + ncig, "sigs": t.Sigs()})
}
