// Package c13 drives bgzf/index.ChunkReader (and, in bamchunks.go, bam.Reader.SetChunk / Iterator).
package c13

import (
	"bytes"
	"io"
	"time"

	"github.com/biogo/hts/bgzf"
	"github.com/biogo/hts/bgzf/index"

	"verif/harness/bgz"
	"verif/harness/tr"
	"verif/harness/watch"
)

const B = bgzf.BlockSize

type voff struct {
	m, b int
}

func logical(f *bgz.File, o voff) int64 {
	var p int64
	for i := 0; i < o.m; i++ {
		p += int64(f.Members[i].Len)
	}
	return p + int64(o.b)
}

func less(a, b voff) bool { return a.m < b.m || (a.m == b.m && a.b < b.b) }

func runOne(t *tr.Writer, class string, f *bgz.File, chunks [][2]voff, buf, rd int) {
	var cs []bgzf.Chunk
	var cj [][][]int64
	for _, c := range chunks {
		b := bgzf.Offset{File: f.Members[c[0].m].Base, Block: uint16(c[0].b)}
		e := bgzf.Offset{File: f.Members[c[1].m].Base, Block: uint16(c[1].b)}
		cs = append(cs, bgzf.Chunk{Begin: b, End: e})
		cj = append(cj, [][]int64{{b.File, int64(b.Block)}, {e.File, int64(e.Block)}})
	}
	if cj == nil {
		cj = [][][]int64{}
	}
	var fileEnd int64
	if n := len(f.Members); n > 0 {
		fileEnd = f.Members[n-1].Base + int64(f.Members[n-1].Size)
	}
	t.Begin("chunkreader/"+class, tr.M{"file": f.Layout(), "fileEnd": fileEnd, "chunks": cj, "buf": buf, "rd": rd})
	br, err := bgzf.NewReader(bytes.NewReader(f.Bytes), rd)
	if err != nil {
		t.Ev("abort", tr.M{"err": err.Error()})
		return
	}
	defer br.Close()
	var cr *index.ChunkReader
	res := watch.Call(bgz.Marker, func() { cr, err = index.NewChunkReader(br, cs) })
	if res.Res != "ok" || err != nil {
		t.Ev("abort", tr.M{"res": res.Res, "err": err != nil, "sig": "chunkreader/new/" + res.Res})
		return
	}
	zeros := 0
	for calls := 0; calls < 5000; calls++ {
		p := make([]byte, buf)
		var k int
		var e error
		res := watch.Call(bgz.Marker, func() { k, e = cr.Read(p) })
		m := tr.M{"n": buf, "k": k, "err": bgz.ErrClass(e, nil), "res": res.Res, "sig": "chunkreader/" + class + "/read"}
		if res.Res != "ok" {
			m["detail"] = res.Detail
			t.Ev("cread", m)
			return
		}
		if k <= 8 {
			d := make([]int, k)
			for i := range d {
				d[i] = int(p[i])
			}
			m["data"] = d
		} else {
			m["pm"] = f.Find(p[:k], 64)
		}
		t.Ev("cread", m)
		if e == io.EOF {
			// one more call: must stay at EOF
			k2, e2 := cr.Read(p)
			t.Ev("cread", tr.M{"n": buf, "k": k2, "err": bgz.ErrClass(e2, nil), "res": "ok", "data": []int{}, "sig": "chunkreader/" + class + "/read"})
			return
		}
		if e != nil {
			return
		}
		if k == 0 {
			zeros++
			if zeros > 3 {
				t.Ev("stall", tr.M{"sig": "chunkreader/" + class + "/stall"})
				return
			}
		} else {
			zeros = 0
		}
	}
}

// Run: exhaustive chunk lists over small files, then seeded real-scale ones.
func Run(out string) {
	t := tr.Create(out)
	defer t.Close()
	watch.Threshold = 6 * time.Second
	r := tr.Rand(13)
	smallShapes := [][]int{{2}, {1, 2}, {2, 0, 1}, {0, 2, 2}, {1, 1, 1}}
	bufs := []int{1, 2, 3}
	nrand := 150
	if tr.Tier() == "thorough" {
		smallShapes = append(smallShapes, []int{3, 0, 0, 2}, []int{2, 3, 1, 2}, []int{1, 0, 3})
		bufs = []int{1, 2, 3, 4}
		nrand = 5000
	}
	nex := 0
	for _, sh := range smallShapes {
		for _, eof := range []bool{true, false} {
			f := bgz.BuildFile(sh, eof, 1, false)
			var offs []voff
			for m, mi := range f.Members {
				for b := 0; b <= mi.Len; b++ {
					offs = append(offs, voff{m, b})
				}
			}
			var cs [][2]voff
			for _, a := range offs {
				for _, b := range offs {
					if !less(b, a) && logical(f, a) <= logical(f, b) {
						cs = append(cs, [2]voff{a, b})
					}
				}
			}
			// lists of 0, 1 and 2 chunks, ordered and non-overlapping
			lists := [][][2]voff{{}}
			for _, a := range cs {
				lists = append(lists, [][2]voff{a})
				for _, b := range cs {
					if logical(f, a[1]) <= logical(f, b[0]) && !less(b[0], a[1]) {
						lists = append(lists, [][2]voff{a, b})
					}
				}
			}
			for i, l := range lists {
				buf := bufs[i%len(bufs)]
				rd := []int{1, 2}[i%2]
				runOne(t, "model", f, l, buf, rd)
				nex++
			}
		}
	}
	// members with the largest payloads the format allows, chunks that begin and end at block starts
	for _, n := range []int{65536, 65535, B} {
		f := bgz.BuildFile([]int{1000, n, 3000}, true, 1, false)
		for li, l := range [][][2]voff{
			{{voff{0, 0}, voff{2, 0}}}, {{voff{1, 0}, voff{2, 0}}}, {{voff{0, 500}, voff{2, 0}}}, {{voff{1, 0}, voff{2, 100}}},
			{{voff{1, 10}, voff{2, 0}}}, {{voff{0, 0}, voff{1, 0}}, {voff{1, 0}, voff{2, 0}}}, {{voff{0, 0}, voff{3, 0}}},
		} {
			for bi, buf := range []int{512, 32768, 65536, 131072} {
				runOne(t, "maxblock", f, l, buf, []int{1, 2}[(li+bi)%2])
			}
		}
	}
	// real scale: block-size members, chunk boundaries anywhere, buffers small and large
	for i := 0; i < nrand; i++ {
		var sh []int
		for j := 0; j < 2+r.Intn(4); j++ {
			sh = append(sh, []int{B, B - 1, 1, 0, 5000, 100 + r.Intn(3000), 65536, 65535}[r.Intn(8)])
		}
		f := bgz.BuildFile(sh, r.Intn(2) == 0, 1, r.Intn(2) == 0)
		var pts []voff
		for m, mi := range f.Members {
			for _, b := range []int{0, mi.Len / 2, mi.Len} {
				if b > 65535 {
					continue // the end of a member with the largest payload is the start of the next one
				}
				pts = append(pts, voff{m, b})
			}
			if mi.Len > 2 {
				pts = append(pts, voff{m, 1 + r.Intn(mi.Len-1)})
			}
		}
		// pick an increasing sequence of points and pair them up
		var l [][2]voff
		cur := 0
		for len(l) < 4 && cur < len(pts)-1 {
			a := cur + r.Intn(len(pts)-cur)
			b := a + r.Intn(len(pts)-a)
			if less(pts[b], pts[a]) || logical(f, pts[a]) >= logical(f, pts[b]) {
				cur = a + 1
				continue
			}
			if len(l) > 0 && (logical(f, l[len(l)-1][1]) > logical(f, pts[a]) || less(pts[a], l[len(l)-1][1])) {
				cur = a + 1
				continue
			}
			l = append(l, [2]voff{pts[a], pts[b]})
			cur = b
		}
		buf := []int{1, 7, 100, 4096, B, 3 * B}[r.Intn(6)]
		if f.Total > int64(B) && buf < 100 {
			buf = 4096
		}
		runOne(t, "random", f, l, buf, []int{1, 2, 4}[r.Intn(3)])
	}
	tr.Summary(tr.M{"scenarios": t.Scen, "lines": t.Lines, "exhaustive": nex, "random": nrand, "sigs": t.Sigs()})
}
