package c13

import (
	"bytes"
	"fmt"
	"io"
	"strconv"
	"strings"

	"github.com/biogo/hts/bam"
	"github.com/biogo/hts/bgzf"
	"github.com/biogo/hts/sam"

	"verif/harness/bamx"
	"verif/harness/bgz"
	"verif/harness/tr"
	"verif/harness/watch"
)

func recIdx(r *sam.Record) int {
	if r == nil || !strings.HasPrefix(r.Name, "r") || len(r.Name) < 8 {
		return -1
	}
	n, err := strconv.Atoi(r.Name[1:8])
	if err != nil {
		return -1
	}
	return n
}

// RunBAM: BAM files whose records end exactly on, just before and just after block ends
// and span blocks; sequential chunks, then every (i, j) through SetChunk and chunk lists
// through Iterator.
func RunBAM(out string) {
	t := tr.Create(out)
	defer t.Close()
	r := tr.Rand(1313)
	type fileSpec struct {
		name  string
		sizes []int
	}
	full := B - 4 // block_size such that 4 + size == BlockSize
	specs := []fileSpec{
		{"small", []int{60, 61, 62, 100, 45, 200, 64, 64}},
		{"exact", []int{full, 100, full/2 - 4, full - (full/2 - 4) - 4 - 4, 77}},    // records ending exactly on a block end
		{"before", []int{full - 1, 50, full - 2, 60}},                             // one byte before the end
		{"after", []int{full + 1, 50, full + 2, 60}},                              // just after: spans into the next block
		{"span", []int{3*B + 17, 80, 2 * B, 90, B + B/2}},                         // spanning several blocks
		{"mixed", []int{5000, 5000, 50000, 5275, 100, 60000, 5280 - 4, 70}},
	}
	nrandFiles, maxPairs := 2, 80
	if tr.Tier() == "thorough" {
		nrandFiles, maxPairs = 40, 2000
	}
	for i := 0; i < nrandFiles; i++ {
		var s []int
		for j := 0; j < 4+r.Intn(20); j++ {
			s = append(s, []int{50 + r.Intn(200), 4000 + r.Intn(3000), full, full - 1, full + 1, 20000 + r.Intn(30000), B + r.Intn(B)}[r.Intn(7)])
		}
		specs = append(specs, fileSpec{"random", s})
	}
	for _, sp := range specs {
		h := bamx.Header(3)
		var recs []*sam.Record
		for i, sz := range sp.sizes {
			recs = append(recs, bamx.Record(h, i+1, i%3, 100+i*10, sz))
		}
		b, err := bamx.Build(h, recs, []int{1, 2, 4}[r.Intn(3)], 1)
		if err != nil {
			continue
		}
		lay := bamx.Parse(b)
		if !lay.OK || len(lay.Recs) != len(recs) {
			t.Begin("bamchunks/"+sp.name, tr.M{"file": [][]int64{}, "fileEnd": 0, "recs": [][2]int64{}, "n": 0})
			t.Ev("badlayout", tr.M{"ok": lay.OK, "nrecs": len(lay.Recs), "want": len(recs)})
			continue
		}
		var fileEnd int64
		if n := len(lay.File.Members); n > 0 {
			fileEnd = lay.File.Members[n-1].Base + int64(lay.File.Members[n-1].Size)
		}
		for _, rd := range []int{1, 2, 4} {
			t.Begin("bamchunks/"+sp.name, tr.M{"file": lay.File.Layout(), "fileEnd": fileEnd, "recs": lay.Recs, "n": len(recs), "rd": rd, "hdrLen": lay.HdrLen})
			var br *bam.Reader
			res := watch.Call(bgz.Marker, func() { br, err = bam.NewReader(bytes.NewReader(b), rd) })
			if res.Res != "ok" || err != nil {
				t.Ev("stuck", tr.M{"op": "new", "res": res.Res})
				continue
			}
			// sequential pass
			var chunks []bgzf.Chunk
			okSeq := true
			for k := 1; ; k++ {
				var rec *sam.Record
				var e error
				res := watch.Call(bgz.Marker, func() { rec, e = br.Read() })
				if res.Res != "ok" {
					t.Ev("stuck", tr.M{"op": "read", "res": res.Res, "detail": res.Detail, "sig": "bamchunks/read/" + res.Res})
					okSeq = false
					break
				}
				if e != nil {
					t.Ev("seqend", tr.M{"err": bgz.ErrClass(e, nil), "count": k - 1})
					break
				}
				c := br.LastChunk()
				chunks = append(chunks, c)
				same := k <= len(recs) && rec.Name == recs[k-1].Name && rec.Pos == recs[k-1].Pos && rec.Seq.Length == recs[k-1].Seq.Length
				t.Ev("seq", tr.M{"idx": recIdx(rec), "k": k, "begin": bamx.Off2(c.Begin), "end": bamx.Off2(c.End), "same": same, "sig": "bamchunks/" + sp.name + "/seq"})
			}
			if !okSeq || len(chunks) != len(recs) {
				br.Close()
				continue
			}
			// every (i, j) through SetChunk (sampled beyond maxPairs)
			n := len(chunks)
			total := n * (n + 1) / 2
			for i := 1; i <= n; i++ {
				for j := i; j <= n; j++ {
					if total > maxPairs && r.Intn(total) >= maxPairs {
						continue
					}
					c := bgzf.Chunk{Begin: chunks[i-1].Begin, End: chunks[j-1].End}
					var got []int
					var endErr error
					res := watch.Call(bgz.Marker, func() {
						if e := br.SetChunk(&c); e != nil {
							endErr = e
							return
						}
						for {
							rec, e := br.Read()
							if e != nil {
								endErr = e
								return
							}
							got = append(got, recIdx(rec))
							if len(got) > n+2 {
								endErr = fmt.Errorf("runaway")
								return
							}
						}
					})
					if got == nil {
						got = []int{}
					}
					t.Ev("setchunk", tr.M{"i": i, "j": j, "got": got, "err": bgz.ErrClass(endErr, nil), "res": res.Res, "sig": "bamchunks/" + sp.name + "/setchunk"})
					if res.Res != "ok" {
						break
					}
				}
			}
			// chunk lists in any order through Iterator
			for q := 0; q < 12; q++ {
				var list []bgzf.Chunk
				var ij [][]int
				for m := 0; m < 1+r.Intn(4); m++ {
					i := 1 + r.Intn(n)
					j := i + r.Intn(n-i+1)
					list = append(list, bgzf.Chunk{Begin: chunks[i-1].Begin, End: chunks[j-1].End})
					ij = append(ij, []int{i, j})
				}
				var got []int
				var itErr error
				res := watch.Call(bgz.Marker, func() {
					it, e := bam.NewIterator(br, list)
					if e != nil {
						itErr = e
						return
					}
					for it.Next() {
						got = append(got, recIdx(it.Record()))
						if len(got) > 5*n+5 {
							itErr = fmt.Errorf("runaway")
							return
						}
					}
					itErr = it.Error()
				})
				if got == nil {
					got = []int{}
				}
				t.Ev("iter", tr.M{"list": ij, "got": got, "err": bgz.ErrClass(itErr, nil), "res": res.Res, "sig": "bamchunks/" + sp.name + "/iter"})
				if res.Res != "ok" {
					break
				}
				br.SetChunk(nil)
			}
			br.Close()
		}
	}
	tr.Summary(tr.M{"scenarios": t.Scen, "lines": t.Lines, "sigs": t.Sigs()})
}

var _ = io.EOF

// RunBAMCuts: C10 (BAM half) - BAM streams cut at every member boundary, one byte either
// side of it, and a few places inside members, read through bam.Reader to the end.
func RunBAMCuts(out string) {
	t := tr.Create(out)
	defer t.Close()
	r := tr.Rand(1010)
	full := B - 4
	profiles := [][]int{
		{60, 61, 62, 100, 45, 200, 64, 64},
		{full, 100, full - 1, 60, full + 1, 70},
		{3*B + 17, 80, 2 * B, 90},
		{5000, 5000, 50000, 5275, 100, 60000},
	}
	if tr.Tier() == "thorough" {
		for i := 0; i < 10; i++ {
			var s []int
			for j := 0; j < 3+r.Intn(10); j++ {
				s = append(s, []int{50 + r.Intn(200), 4000 + r.Intn(3000), full, full + 1, B + r.Intn(2*B)}[r.Intn(5)])
			}
			profiles = append(profiles, s)
		}
	}
	for _, sizes := range profiles {
		h := bamx.Header(2)
		var recs []*sam.Record
		for i, sz := range sizes {
			recs = append(recs, bamx.Record(h, i+1, i%2, 100+i*10, sz))
		}
		b, err := bamx.Build(h, recs, 2, 1)
		if err != nil {
			continue
		}
		lay := bamx.Parse(b)
		if !lay.OK {
			continue
		}
		cuts := map[int]bool{}
		var prefix []int64 // logical length before member i
		var lg int64
		for _, m := range lay.File.Members {
			prefix = append(prefix, lg)
			lg += int64(m.Len)
			for _, d := range []int{-1, 0, 1, 5, 18, 19} {
				c := int(m.Base) + d
				if c > 0 && c < len(b) {
					cuts[c] = true
				}
			}
			if m.Size > 40 {
				cuts[int(m.Base)+m.Size/2] = true
			}
		}
		for cut := range cuts {
			// logical data wholly present: members entirely before the cut
			var avail int64
			boundary := false
			for i, m := range lay.File.Members {
				if int(m.Base)+m.Size <= cut {
					avail = prefix[i] + int64(m.Len)
				}
				if int(m.Base) == cut {
					boundary = true
				}
			}
			rd := []int{1, 2}[cut%2]
			t.Begin("bamcut", tr.M{"recs": lay.Recs, "hdrLen": lay.HdrLen, "avail": avail, "boundary": boundary, "cut": cut, "rd": rd})
			var br *bam.Reader
			res := watch.Call(bgz.Marker, func() { br, err = bam.NewReader(bytes.NewReader(b[:cut]), rd) })
			if res.Res != "ok" {
				t.Ev("stuck", tr.M{"op": "new", "res": res.Res, "sig": "bamcut/new/" + res.Res})
				continue
			}
			t.Ev("bnew", tr.M{"err": bgz.ErrClass(err, nil), "sig": "bamcut/new"})
			if err != nil {
				continue
			}
			for k := 1; k <= len(recs)+2; k++ {
				var rec *sam.Record
				var e error
				res := watch.Call(bgz.Marker, func() { rec, e = br.Read() })
				if res.Res != "ok" {
					t.Ev("stuck", tr.M{"op": "read", "res": res.Res, "detail": res.Detail, "sig": "bamcut/read/" + res.Res})
					break
				}
				if e != nil {
					t.Ev("bend", tr.M{"err": bgz.ErrClass(e, nil), "count": k - 1, "sig": "bamcut/end"})
					break
				}
				same := k <= len(recs) && rec.Name == recs[k-1].Name && rec.Pos == recs[k-1].Pos && rec.Seq.Length == recs[k-1].Seq.Length &&
					string(rec.Qual) == string(recs[k-1].Qual) && string(rec.Seq.Expand()) == string(recs[k-1].Seq.Expand())
				t.Ev("brec", tr.M{"k": k, "idx": recIdx(rec), "same": same, "sig": "bamcut/rec"})
			}
			br.Close()
		}
	}
	tr.Summary(tr.M{"scenarios": t.Scen, "lines": t.Lines, "sigs": t.Sigs()})
}
