// Package bamx builds BAM files with the library's writer from generated records, parses the
// produced stream independently (BGZF framing by bgz, BAM record framing here) and drives
// bam.Reader (sequential chunks, SetChunk, Iterator).
package bamx

import (
	"bytes"
	"encoding/binary"
	"fmt"
	"io"

	"github.com/biogo/hts/bam"
	"github.com/biogo/hts/bgzf"
	"github.com/biogo/hts/sam"

	"verif/harness/bgz"
)

// Layout is what this package's own parser finds in a BAM byte stream.
type Layout struct {
	File   *bgz.File
	Flat   []byte
	HdrLen int64      // logical length of the BAM header
	Recs   [][2]int64 // logical [from, to) of every record (from = its block_size field)
	OK     bool
}

// Parse inflates every member and walks the BAM framing (SAM spec 4.2).
func Parse(b []byte) *Layout {
	l := &Layout{}
	f, whole := bgz.FileOf(b)
	l.File = f
	if !whole {
		return l
	}
	for _, m := range bgz.ParseStream(b) {
		l.Flat = append(l.Flat, m.Payload...)
	}
	d := l.Flat
	if len(d) < 12 || string(d[:4]) != "BAM\x01" {
		return l
	}
	p := 4
	lt := int(binary.LittleEndian.Uint32(d[p:]))
	p += 4 + lt
	if p+4 > len(d) {
		return l
	}
	nref := int(binary.LittleEndian.Uint32(d[p:]))
	p += 4
	for i := 0; i < nref; i++ {
		if p+4 > len(d) {
			return l
		}
		ln := int(binary.LittleEndian.Uint32(d[p:]))
		p += 4 + ln + 4
	}
	if p > len(d) {
		return l
	}
	l.HdrLen = int64(p)
	for p < len(d) {
		if p+4 > len(d) {
			return l
		}
		sz := int(binary.LittleEndian.Uint32(d[p:]))
		if p+4+sz > len(d) {
			return l
		}
		l.Recs = append(l.Recs, [2]int64{int64(p), int64(p + 4 + sz)})
		p += 4 + sz
	}
	l.OK = true
	return l
}

// Header with nref references of increasing length.
func Header(nref int) *sam.Header {
	var refs []*sam.Reference
	for i := 0; i < nref; i++ {
		r, err := sam.NewReference(fmt.Sprintf("chr%d", i+1), "", "", 1<<28+i, nil, nil)
		if err != nil {
			panic(err)
		}
		refs = append(refs, r)
	}
	h, err := sam.NewHeader(nil, refs)
	if err != nil {
		panic(err)
	}
	return h
}

// Record whose BAM encoding has a block_size of exactly size bytes (size >= 40): the
// name is "r<idx>" padded, the rest is sequence and qualities.
func Record(h *sam.Header, idx int, ref, pos, size int) *sam.Record {
	name := fmt.Sprintf("r%07d", idx) // 8 chars + NUL = 9
	fixed := 32 + len(name) + 1 + 4   // fixed part + name + one cigar op
	rem := size - fixed
	if rem < 0 {
		rem = 0
	}
	// l_seq bases take (l+1)/2 + l bytes
	l := rem * 2 / 3
	for (l+1)/2+l > rem {
		l--
	}
	pad := rem - ((l+1)/2 + l) // 0..2 bytes of slack go into an aux Z tag? keep simple: extend name
	for i := 0; i < pad; i++ {
		name += "x"
	}
	seq := make([]byte, l)
	qual := make([]byte, l)
	for i := range seq {
		seq[i] = "ACGT"[(i+idx)%4]
		qual[i] = byte((i*7 + idx) % 40)
	}
	var rf *sam.Reference
	if ref >= 0 {
		rf = h.Refs()[ref]
	}
	co := []sam.CigarOp{sam.NewCigarOp(sam.CigarMatch, maxI(l, 1))}
	if l == 0 {
		co = []sam.CigarOp{sam.NewCigarOp(sam.CigarSoftClipped, 0)}
	}
	if rf == nil {
		pos = -1
	}
	r := &sam.Record{Name: name, Ref: rf, Pos: pos, MapQ: 30, Cigar: co, MatePos: -1, Seq: sam.NewSeq(seq), Qual: qual}
	return r
}

func maxI(a, b int) int {
	if a > b {
		return a
	}
	return b
}

// Build writes the records with bam.Writer and returns the bytes.
func Build(h *sam.Header, recs []*sam.Record, wc, level int) ([]byte, error) {
	var buf bytes.Buffer
	w, err := bam.NewWriterLevel(&buf, h, level, wc)
	if err != nil {
		return nil, err
	}
	for _, r := range recs {
		if err := w.Write(r); err != nil {
			return nil, err
		}
	}
	if err := w.Close(); err != nil {
		return nil, err
	}
	return buf.Bytes(), nil
}

func Off2(o bgzf.Offset) []int64 { return []int64{o.File, int64(o.Block)} }

var _ = io.EOF
