#!/usr/bin/env python3
"""Regenerates MANIFEST.json from the table below (single source of truth for the interface)."""
import json, os
V = os.path.dirname(os.path.abspath(__file__))
ids = [json.loads(l)["id"] for l in open(os.path.join(V, "properties.jsonl"))]

CHECKS = {
 "C17": dict(
    category="model_checking", design_ref="DESIGN.md §5 C17",
    text="TLC exhaustively checks the implementation-shaped loop model (MergeI) against the property spec (MergeP) for all sorted lists over a 6-offset alphabet; the same lists plus seeded real-scale lists are run through the real strategies and every recorded call is validated by TLC against MergeP (verdict) and MergeI (model conformance).",
    note="Trusted: TLC, the Go driver's faithful logging of inputs/outputs (input copied before the in-place call). Bounded: list length <= 3 (quick) / 4 (thorough) exhaustive, random beyond.",
    technique="TLA+ P-spec/I-spec, TLC exhaustive refinement check + TLC trace validation of real calls",
    engine="ChunkMerge"),
 "C20": dict(
    category="model_checking", design_ref="DESIGN.md §5 C20",
    text="Tf8.tla states the ITF-8/LTF-8 bit layouts from the CRAM text; TLC checks the layout's self-consistency (round trip, announced length, slot partition) on a boundary-stratified value set, validates every recorded Encode/Len/Decode/stream-reader call of the real code against it, and exports the layout table that drives an independent interpreter for a strided (quick) or exhaustive (thorough) sweep over all 2^32 ITF-8 values and 4*10^7 stratified LTF-8 values.",
    note="Trusted: TLC, the 30-line table interpreter (cross-checked by the TLC-validated sample; its disagreements are re-judged by TLC). High nibble of ITF-8's fifth byte unconstrained.",
    technique="TLA+ layout spec, TLC self-consistency + TLC trace validation of real codec calls + spec-exported table sweep",
    engine="Tf8"),
 "C14": dict(
    category="model_checking", design_ref="DESIGN.md §5 C14, §4.3",
    text="CacheP states the Cache contract, the eviction policies and the no-stale-mapping rule under the reader's recycling discipline; CacheI models the code's list discipline; TLC checks CacheI => CacheP (refinement + invariants) exhaustively per policy; every history of 3 (quick) / 4 (thorough) operations and seeded long histories are executed on the real LRU/FIFO/Random and every call, reply and full Peek/Len/Cap observation is validated by TLC against CacheP (verdict) and CacheI (conformance); concurrent call/return histories of 2-4 goroutines are checked for linearizability by TLC search over CacheP.",
    note="Trusted: TLC; the verif-tagged block factory in package bgzf; watchdog (hang = over threshold AND goroutine parked in a sync primitive of the cache package). Concurrent histories are observed, not scheduled: overlap is whatever the Go scheduler produces.",
    technique="TLA+ P-spec/I-spec refinement checked by TLC + TLC trace validation of sequential histories + TLC linearizability search on concurrent histories",
    engine="BlockCache"),
 "C08": dict(
    category="model_checking", design_ref="DESIGN.md §5 C08, §4.1, App. A.2",
    text="WriterP (property spec) carries the framing clauses in its Emit action (one whole valid gzip member per underlying write, BC subfield = member length - 1, <= 64 KiB, <= 65280 payload), the EOF-marker/HasEOF clause at every reply, gzip-compatibility and wc-independence of the bytes at scenario end; TLC checks the implementation-shaped WriterI (compressors, channels, emitter) against these clauses for all schedules of small scripts, and validates API traces of the real writer (emit events logged inside the underlying Write, with member facts from an independent RFC 1952 parser) against WriterP (verdict) and against WriterI's block plan (conformance).",
    note="Trusted: TLC, the harness's framing parser + compress/flate + compress/gzip, SHA-1 digests for byte identity across wc. Levels: quick {-1,0,1,9}, thorough all.",
    technique="TLA+ P-spec/I-spec, TLC exhaustive check of WriterI + TLC trace validation of real writer runs",
    engine="BgzfWriter"),
 "C12": dict(
    category="model_checking", design_ref="DESIGN.md §5 C12, §4.1, App. A.2",
    text="TLC checks WriterI (copy-or-queue loop, per-compressor goroutines, in-order emitter, Flush/Wait/Close, one injected underlying failure) for every completion order against Ordered, Durable (Flush then Wait), CloseComplete, sticky errors, no deadlock with a pending call and no goroutine left after Close; real writer runs (plain, fault-injected, and directed schedules that hold the emitter/compressors at verif hook points) are validated by TLC against WriterP: every underlying write is the next whole block of the data written so far, and the file observed at every reply is whole blocks decoding to a prefix.",
    note="Trusted: as C08; watchdog for non-returning calls. Directed schedules only delay at existing hook points; a reordering between two adjacent statements with no hook between them is not forced. bam.Writer header durability is covered with C05/C13 when built.",
    technique="TLA+ P-spec/I-spec, TLC exhaustive schedules on WriterI + TLC trace validation with fault injection and hook-directed schedules",
    engine="BgzfWriter"),
 "C01": dict(
    category="model_checking", design_ref="DESIGN.md §5 C01",
    text="Composition of the writer and reader specifications: TLC checks WriterI against WriterP (the emitted blocks partition exactly what was written, Close complete) and ReaderI against the flat-stream rules for all schedules of small instances; real write scripts (length classes around the block size, both textures, wc and level varied) are validated against WriterP, and each cleanly closed stream, described by the harness's own parser, is read back through bgzf.Reader (rd varied; mixed Read sizes and ReadByte, the end crossed by either) with every reply validated against ReaderP.",
    note="Trusted: TLC; harness parser/compress/flate; read-back byte equality is evaluated by the harness at its own running position, which TLC checks against ReaderP's position. A panic inside a library goroutine kills the driver and is recorded as a crash event (no spec action).",
    technique="TLA+ WriterP/WriterI + ReaderP/ReaderI, TLC exhaustive small instances + TLC trace validation of write and read-back runs",
    engine="BgzfWriter"),
 "C02": dict(
    category="model_checking", design_ref="DESIGN.md §5 C02, §4.2, App. A.1",
    text="ReaderP is the flat-stream model (position, Blocked flag, pending error; every spelling of a logical position accepted for LastChunk.End, the in-member spelling required for Begin). ReaderI models block recycling, decompressors, the read head, waiting/working/control channels, read-ahead and inflate goroutines, nextBlock, Seek and Close; TLC checks data identity, no panic, no deadlock and no leak for every schedule without a cache (rd 1-3, 3-4 members, 4-5 operations). Histories over {Read, ReadByte, Seek, Seek(reported Begin), Blocked} on many file shapes run on the real reader and every reply is validated by TLC against ReaderP.",
    note="Trusted: TLC; the harness's member encoder (files are built without bgzf.Writer). ReaderI is bound to the code via P-level traces and its as-coded switches, not via hook traces (hooks for the reader are not built).",
    technique="TLA+ P-spec/I-spec, TLC exhaustive schedules on ReaderI + TLC trace validation of real reader histories",
    engine="BgzfReader"),
 "C03": dict(
    category="model_checking", design_ref="DESIGN.md §5 C03, §4.2",
    text="Transparency is ReaderP having no cache: SetCache is a no-op. ReaderI with a policy-free cache of capacity 1-2 (over-approximating LRU/FIFO/Random) is checked by TLC for every schedule: data identity, no stale cache mapping, no panic, no deadlock, no goroutine left after Close (up to 71M states in the thorough tier). Every history is run on the real reader uncached and then with caches attached/replaced/removed at arbitrary points; the cached run must satisfy ReaderP and be reply-for-reply identical to the uncached run. ReaderI also covers caches whose Get keeps used blocks (cache.FIFO) and caches that arrive holding another reader's blocks; its as-coded variant (cacheSwap returning early on another reader's block) must be rejected by TLC. ReaderI is bound to the code twice more: hook traces of the real reader (every hook point of reader.go, every cache operation) are validated against ReaderI itself (ReaderITrace; a mismatch is MODEL-DRIFT), and behaviours of ReaderI printed by TLC in simulation mode (ReaderSched) are replayed on the real reader, whose goroutines are held at the hook points until the schedule says it is their turn; the API traces of those runs are judged by ReaderP.",
    note="As C02. Seven reader/cache defects were found this way and repaired (KNOWN_FINDINGS.txt), the last one by the thorough tier (a shared FIFO cache); the repaired protocol was model-checked on ReaderI. A schedule replay follows its schedule only as far as the real cache agrees with the model's policy-free one (follow rates are in the evidence).",
    technique="TLA+ P-spec/I-spec with policy-free cache, TLC exhaustive schedules + TLC trace validation of cached vs uncached runs + hook-trace conformance of the I-spec + TLC-generated schedules replayed through blocking hooks",
    engine="BgzfReader"),
 "C09": dict(
    category="fault_enumeration", design_ref="DESIGN.md §5 C09",
    text="Fault enumeration on the real code, judged by TLC: writer - every underlying-Write index of 6 fixed workloads x wc x {error, partial+error}, random scripts with random fault positions and hook-directed schedules, validated against WriterP (errors sticky and reported by Close, nothing delivered after a failure, every call returns, nothing left after Close); reader - 3 files x 4 workloads (incl. seek-retry after an error) x rd x {cache, none} x every index of the underlying Read and Seek call (error, partial data then error, persistent), validated against the fault-aware ReaderP (only a correct prefix then an error, no early clean end). TLC also checks WriterI/ReaderI with an injected failure for deadlock freedom and leak freedom, and - under weak fairness per goroutine - that every call returns (WriterMC_live, ReaderMC_live, ReaderMC_live_fault: no livelock).",
    note="Trusted: TLC, watchdog + goroutine dump (hang = over threshold and the call's goroutine parked inside package bgzf; leak = bgzf frames alive after Close beyond a baseline). Contract-violating underlying writers (silent short writes) are excluded, as in the property.",
    technique="fault enumeration on real code + TLA+ P-spec trace validation by TLC + TLC deadlock/leak/liveness check of fault-enabled I-specs",
    engine="BgzfWriter"),
 "C10": dict(
    category="fault_enumeration", design_ref="DESIGN.md §5 C10",
    text="Crash-point and corruption enumeration on the real reader, judged by TLC against the fault-aware ReaderP: every truncation length of small streams (windows around member boundaries plus a stride for large ones) and single-byte substitutions (+1, xor 0x80; thorough also 0x00, 0xff) with rd in {1,4}; a reply is a correct prefix then an error; a clean end before the true end only if the cut is at a member boundary; HasEOF is false for every proper prefix.",
    note="BGZF layer only in this check; BAM record-level truncation is exercised through bam.Reader in C05/C13 traces. A byte altered in an unprotected header field (MTIME, XFL, OS) legitimately yields the original data.",
    technique="crash-point / byte-substitution enumeration on real code + TLA+ fault-aware P-spec trace validation by TLC",
    engine="BgzfReader"),
 "C13": dict(
    category="model_checking", design_ref="DESIGN.md §5 C13",
    text="ChunkReaderI is index.ChunkReader.Read transcribed over a deterministic Blocked-mode reader model; TLC enumerates every small file, every ordered list of non-overlapping chunks in both spellings (empty chunks included) and every buffer size and checks that exactly the chunks' bytes come back, then io.EOF, with progress. The same lists and seeded real-scale lists run on the real ChunkReader (ChunkTrace). BAM files written by bam.Writer with records on/before/after block ends and spanning blocks are read sequentially (reported chunk per record vs the harness's own record layout), then every (i,j) through SetChunk and random chunk lists through Iterator (BamChunks).",
    note="Trusted: TLC; harness member encoder, BGZF/BAM framing parsers. BAM files come from the library's own writer (validated separately by C05/C08/C12).",
    technique="TLA+ I-spec of ChunkReader checked exhaustively by TLC + TLC trace validation of ChunkReader, SetChunk and Iterator runs",
    engine="BgzfReader"),
 "C16": dict(
    category="model_checking", design_ref="DESIGN.md §5 C16",
    text="Cigar.tla and Bins.tla give End, Len, CIGAR reference/query lengths, validity, the BAM bin and the BAI/CSI bin scheme from the specification texts; TLC checks on small geometries that an interval's bin is in the bin list of every overlapping interval and that Reg2Bin(b, .) is constant between ends with equal bins; recorded results of the real Record.End/Len/Bin, Cigar.Lengths/IsValid, BinFor/OverlappingBinsFor (via verif re-exports) and csi reg2bin/reg2bins are validated by TLC, the bin functions as run-length rows whose run ends are checked (tile-exhaustive for BAI in the thorough tier, exhaustive over all pairs for small CSI geometries).",
    note="Trusted: TLC; the harness's run-length compression of real evaluations. 32-bit TLC integers bound positions below 2^29 + lengths < 2^31.",
    technique="TLA+ specification of the coordinate/bin arithmetic, TLC lemmas on small geometries + TLC trace validation of real function results (run-length exhaustive)",
    engine="Coord"),
 "C04": dict(
    category="model_checking", design_ref="DESIGN.md §5 C04, §4.4, App. A.4",
    text="IndexP keeps only the added records and judges every answer by brute force (every overlapping record covered by a returned chunk; an error or empty answer only if nothing overlaps; Add of sorted in-range input never fails). IndexI models internal.Index's bins, chunk extension rule, linear-index growth and Chunks' tile pruning; TLC checks IndexI against IndexP for every sorted record sequence and every query on a tiny geometry. Real bam.Index / tabix.Index / csi.Index runs (edge cases, seeded sorted sets biased to tile/level edges, reference-id gaps, placed-unmapped and unplaced records, five CSI geometries, real BAM LastChunk layouts with bam.Iterator over the answers) are validated by TLC in memory, after write+read and after MergeChunks.",
    note="Trusted: TLC; the harness's record/query generator obeys the sort precondition (re-checked by the spec). The real bin functions are tied to Bins.tla by C16.",
    technique="TLA+ P-spec/I-spec, TLC exhaustive small geometry + TLC trace validation of real index runs",
    engine="BinIndex"),
 "C15": dict(
    category="model_checking", design_ref="DESIGN.md §5 C15",
    text="On the same traces as C04, IndexTrace requires write->read->write byte identity and equal header fields (CSI version/aux; tabix format, columns, meta, skip, names), identical and complete answers to every query before and after the round trip, and statistics (reference count, per-reference mapped/unmapped counts and chunk span, unplaced count) equal to the true counts of the added records, before and after.",
    note="As C04. Stored third-party index files are not replayed (the harness generates its own).",
    technique="TLA+ P-spec trace validation by TLC of write/read round trips of real indexes",
    engine="BinIndex"),
 "C19": dict(
    category="model_checking", design_ref="DESIGN.md §5 C19",
    text="Fai.tla derives the true byte layout of a FASTA file from its records and transcribes NewIndex's scanner and Seq.Read's loop; TLC checks on every small layout (widths, lengths, LF/CRLF, blank lines, final newline) that the scanner describes every record and that every range read with every buffer size returns exactly those bases then io.EOF. The model layouts, seeded real-scale layouts and edge cases are rendered to concrete FASTA and the real NewIndex, WriteTo/ReadFrom and File reads are validated by TLC (index values, position of every base, bytes call by call, io.EOF exactly at the end).",
    note="Known finding (not repaired): names containing a double quote do not survive WriteTo/ReadFrom (csv-based reader). Trusted: TLC, the harness's FASTA renderer.",
    technique="TLA+ layout spec + transcribed scanner/read loop, TLC exhaustive small layouts + TLC trace validation of real runs",
    engine="Fai"),
 "C05": dict(
    category="exploration", design_ref="DESIGN.md §5 C05",
    text="Codec.tla is a reference BAM encoder written from the SAM specification (Encode, HeaderBytes, Omitted). Seeded generation by field classes (names 1..254, all CIGAR op types up to 2^28-1 and 65535 ops, odd/even/empty sequences, every aux type incl. empty Z/H/B, record sizes around the 4 KiB inline buffer and above one BGZF block, varied headers, wc/rd 1/2/4). The bytes bam.Writer produced for every record and for the header, and what bam.Reader returns under Omit modes 0/1/2 (records kept until the end of the file, projected with the harness's own decoding), are judged by TLC against the reference: equal bytes except the bin field, equal fields, exactly the omitted parts missing, equal header, io.EOF.",
    note="Exploration: seeded sampling, no exhaustive claim. Trusted: TLC, the harness's BGZF/BAM framing parser and projection. Header text taken as given (C07 covers it). Defect found and repaired: H values were stored raw instead of as hex digits.",
    technique="TLA+ reference encoder evaluated by TLC on traces of real bam.Writer / bam.Reader runs",
    engine="Codec"),
 "C06": dict(
    category="exploration", design_ref="DESIGN.md §5 C06",
    text="Codec.tla holds a reference SAM formatter written from the SAM specification over byte sequences (Line, FlagBytes, Dec, aux text, narrowing of integer aux types). For seeded SAM-expressible records over varied headers TLC checks that the real MarshalSAM line (decimal and hexadecimal flags) is the reference line, that UnmarshalSAM of it formats identically, has the narrowed aux types and equal field values, that the record read back from BAM formats to the same line, and that sam.Reader returns every line (LF/CRLF, with/without header, with/without final newline) as one record followed by io.EOF.",
    note="Exploration: seeded sampling. Float and >2^31 decimal text computed by the harness with strconv. Defects found and repaired: hex flags, final line without newline, empty Z/H, empty B array, empty H formatted as 00.",
    technique="TLA+ reference formatter evaluated by TLC on traces of real MarshalSAM / UnmarshalSAM / sam.Reader runs",
    engine="Codec"),
 "C11": dict(
    category="exploration", design_ref="DESIGN.md §5 C11",
    text="Grammar.tla gives for each of 17 decoders (BGZF, BAM, binary header, BAI, tabix, CSI v1/v2, FAI, FASTA scan, SAM header text, SAM record line, SAM file, aux text, CIGAR text, CRAM, ITF-8, LTF-8, ITF-8 arrays) the fields of its encoding and the mutation space by field kind; TLC enumerates every case (decoder x field x first/last instance x mutation: about 5200) and, in the thorough tier, seeded pairs. The harness builds valid specimens field by field, applies the case with enclosing lengths and checksums recomputed, runs the real decoder followed by the library's accessors, formatters, writers and index builders on any value returned, under recover() and a watchdog in a process with an address-space limit; the repository's crasher corpora are run as they are. TLC judges every recorded outcome: value or error, never panic or hang.",
    note="Exploration: structured, model-enumerated mutation of the harness's specimens, not all byte strings. Allocation beyond the limit is recorded (oom) and not judged, as the property states. 19 decoder defects found and repaired (see KNOWN_FINDINGS.txt).",
    technique="TLA+ schema/mutation grammar enumerated by TLC + TLC trace validation of real decoder runs",
    engine="Formats"),
 "C07": dict(
    category="model_checking", design_ref="DESIGN.md §5 C07",
    text="HeaderP models a header's reference / read-group / program lists under the public edit API (documented latitude only for a reference whose name is already present); HeaderI models the code's slice + name table + per-object owner/id with the three AddReference paths, RemoveReference and SetName, and TLC checks its invariants (ids = indices, ownership, unique names, table = list, release on removal) on the complete state graph of a small instance. Seeded edit histories over up to four headers run on the real sam.Header; after every call the projection of every live header and the text/binary serialisation fixpoints (identical text and binary after re-parse, equal exposed values) are validated by TLC against HeaderP; MergeHeaders links are checked by object identity.",
    note="Trusted: TLC; the harness's projection (pointer identity -> small ints). HeaderI is bound to the code via the P traces and its as-coded switches (8 header defects found and repaired, see KNOWN_FINDINGS.txt).",
    technique="TLA+ P-spec/I-spec, TLC complete state graph of HeaderI + TLC trace validation of real edit histories with full state projection",
    engine="Header"),
 "C18": dict(
    category="model_checking", design_ref="DESIGN.md §5 C18, App. A.5",
    text="MergerP: every Read returns the next unread record of some input, not before the previous output in the declared order (coordinate = merged header's reference order then position, unplaced last; queryname; concatenation; custom less), each record exactly once, io.EOF only after every input ended cleanly, an input's read error reported, Ref and MateRef objects of the merged header with the source's names. MergerI (heads, minimum under the code's Less with id tie-break, refill, empty inputs, error latch, cat mode) is checked by TLC against these clauses for all small inputs incl. empty and failing ones. Seeded scenarios with in-memory BAM inputs (1-4/8 inputs, five orders, header lists whose order differs from name order, mates on other references, a stream cut inside a member as failing input) run on the real Merger and every Read is validated by TLC.",
    note="Trusted: TLC; BAM inputs are produced by the library's own writer; string order for queryname is projected by the harness. Tie order between inputs is not constrained (the property does not state one).",
    technique="TLA+ P-spec/I-spec, TLC exhaustive small inputs + TLC trace validation of real merges",
    engine="Merger"),
}
NA_REASON = "check not built yet in this round (specification work in progress; see DESIGN.md §10 build order)"

def main():
    checks = []
    for pid in ids:
        if pid in CHECKS:
            c = CHECKS[pid]
            checks.append(dict(
                property_id=pid,
                quick_cmd="bin/check %s --tier quick" % pid,
                thorough_cmd="bin/check %s --tier thorough" % pid,
                evidence_file="/verif/evidence/%s.json" % pid,
                replay_cmd_template="bin/check %s --replay {path}" % pid,
                engine=c["engine"],
                level_claimed=dict(category=c["category"], text=c["text"], design_ref=c["design_ref"]),
                level_note=c["note"], technique=c["technique"]))
    na = [dict(property_id=p, reason=NA_REASON) for p in ids if p not in CHECKS]
    m = dict(
        version=1,
        setup_cmd="cd /verif && mkdir -p build evidence && cp /repo/go.sum harness/go.sum && cd harness && GOFLAGS=-mod=mod GOPROXY=off GOSUMDB=off GOTOOLCHAIN=local go build -tags verif -o /verif/build/driver ./cmd/driver",
        hooks=dict(guard="verif", enable="go build -tags verif (the harness module replaces github.com/biogo/hts with /repo)",
                   baseline_off_cmd="cd /repo && go test -mod=mod -json -vet=off -count=1 -timeout 25m ./...",
                   source_commits=HOOK_COMMITS, add_only=True),
        engines=ENGINES,
        checks=checks,
        notes="Model-based verification with explicit TLA+ specifications (spec/), TLC exhaustive checks of implementation-shaped models against property specs, and TLC trace validation of real-code executions. exit 2 = infrastructure trouble, never a verdict. See DESIGN.md.",
        not_applicable=na)
    json.dump(m, open(os.path.join(V, "MANIFEST.json"), "w"), indent=1)

HOOK_COMMITS = ["4b6c86a", "f712ea4", "5dd3b6c", "b7bc5fc", "4953d18"]
ENGINES = [
 dict(name="Merger", path="spec/Merger", serves_properties=["C18"], kind_free_text="TLA+ MergerP/MergerI + TLC MC + trace validation"),
 dict(name="Header", path="spec/Header", serves_properties=["C07"], kind_free_text="TLA+ HeaderP/HeaderI + TLC MC + trace validation"),
 dict(name="Formats", path="spec/Formats", serves_properties=["C11"], kind_free_text="TLA+ Grammar (schemas x mutations) + TLC enumeration + trace validation"),
 dict(name="Codec", path="spec/Codec", serves_properties=["C05", "C06"], kind_free_text="TLA+ reference BAM encoder / SAM formatter + TLC trace validation"),
 dict(name="Fai", path="spec/Fai", serves_properties=["C19"], kind_free_text="TLA+ Fai (FaiP/FaiI) + TLC MC + trace validation"),
 dict(name="BinIndex", path="spec/BinIndex", serves_properties=["C04", "C15"], kind_free_text="TLA+ IndexP/IndexI + TLC MC + trace validation"),
 dict(name="Coord", path="spec/Coord", serves_properties=["C16", "C04"], kind_free_text="TLA+ Cigar/Bins + TLC lemmas + trace validation"),
 dict(name="BgzfReader", path="spec/BgzfReader", serves_properties=["C01", "C02", "C03", "C09", "C10", "C13"], kind_free_text="TLA+ ReaderP/ReaderI + TLC MC + API trace validation + hook-trace conformance (ReaderITrace) + schedule generation and replay (ReaderSched)"),
 dict(name="BgzfWriter", path="spec/BgzfWriter", serves_properties=["C01", "C08", "C09", "C12"], kind_free_text="TLA+ WriterP/WriterI/WriterPlan + TLC MC + API trace validation"),
 dict(name="BlockCache", path="spec/BlockCache", serves_properties=["C14", "C03"], kind_free_text="TLA+ CacheP/CacheI/CacheLin + TLC MC + trace validation + linearizability search"),
 dict(name="Tf8", path="spec/Tf8", serves_properties=["C20"], kind_free_text="TLA+ bit-layout spec + TLC MC + trace validation + exported-table sweep"),
 dict(name="ChunkMerge", path="spec/ChunkMerge", serves_properties=["C17"], kind_free_text="TLA+ MergeP/MergeI + TLC MC + trace validation"),
]
if __name__ == "__main__":
    main()
