#!/usr/bin/env python3
"""tools/tv.py <moddir> <module> <cfg> <trace> : validate a trace, print rejected summary (dev aid)"""
import sys, json
sys.path.insert(0, '/verif')
from lib import vrun
from collections import Counter
moddir, module, cfg, path = sys.argv[1:5]
v = vrun.validate_trace(moddir, module, cfg, path, branching=('--branch' in sys.argv))
print(module, cfg, 'lines', v.lines, 'scen', v.scenarios, 'rejected', len(v.rejected), 'wall', round(v.wall, 1), 'runs', v.runs)
print(Counter((r['sig'], r['why']) for r in v.rejected).most_common(15))
seen = set()
n = int(sys.argv[sys.argv.index('-n') + 1]) if '-n' in sys.argv else 3
for r in v.rejected:
    if r['sig'] not in seen and len(seen) < n:
        seen.add(r['sig'])
        print('--- sig', r['sig'], 'first unmatched line', r['first_unmatched'])
        for e in r['lines'][:max(1, r['first_unmatched'] + 1)][-8:]:
            print('   ', json.dumps(e)[:420])
