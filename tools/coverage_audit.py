#!/usr/bin/env python3
"""tools/coverage_audit.py [out.json]: vacuity audit of the exhaustive configs.

Runs every quick-tier exhaustive TLC config with `-coverage 1` and reports, per config, the
top-level actions of the next-state relation with the number of states each generated and how
many of them were distinct; an action that never fired (0 generated) means the clauses that
mention its effect were checked vacuously in that config.  Not a check (no verdict on the
code): a development aid whose last result is kept in spec/COVERAGE.json and summarised in
DESIGN.md section 0.9.
"""
import json, re, sys
sys.path.insert(0, '/verif')
from lib import vrun

CFGS = [
    ("BgzfWriter", "WriterMC", "WriterMC_quick.cfg"),
    ("BgzfReader", "ReaderMC", "ReaderMC_c02_q.cfg"),
    ("BgzfReader", "ReaderMC", "ReaderMC_fixed_q.cfg"),
    ("BgzfReader", "ReaderMC", "ReaderMC_fixed_cap2.cfg"),
    ("BgzfReader", "ReaderMC", "ReaderMC_fixed_fault.cfg"),
    ("BgzfReader", "ReaderMC", "ReaderMC_fixed_foreign.cfg"),
    ("BgzfReader", "ChunkReaderMC", "ChunkReaderMC_quick.cfg"),
    ("BinIndex", "IndexMC", "IndexMC_quick.cfg"),
    ("BlockCache", "CacheMC", "CacheMCq_LRU.cfg"),
    ("BlockCache", "CacheMC", "CacheMCq_FIFO.cfg"),
    ("BlockCache", "CacheMC", "CacheMCq_Random.cfg"),
    ("ChunkMerge", "MergeMC", "MergeMC_quick.cfg"),
    ("Codec", "CodecMC", "CodecMC_quick.cfg"),
    ("Coord", "CoordMC", "CoordMC_quick.cfg"),
    ("Fai", "FaiMC", "FaiMC_quick.cfg"),
    ("Header", "HeaderMC", "HeaderMC_quick.cfg"),
    ("Merger", "MergerMC", "MergerMC_quick.cfg"),
    ("Merger", "MergerMC", "MergerMC_cat.cfg"),
    ("Tf8", "Tf8MC", "Tf8MC_quick.cfg"),
]

ACT = re.compile(r"^<(\w+) line (\d+), col \d+ to line \d+, col \d+ of module (\w+)>: (\d+):(\d+)")


def audit(moddir, module, cfg):
    r = vrun.run_tlc(moddir, module, cfg, timeout=3600, extra=["-coverage", "1"])
    # the last coverage report is the final one: keep the last figure seen per action
    acts = {}
    for line in r.out.splitlines():
        m = ACT.match(line)
        if m:
            acts["%s!%s@%s" % (m.group(3), m.group(1), m.group(2))] = (int(m.group(4)), int(m.group(5)))
    ok = "Model checking completed. No error has been found." in r.out
    never = sorted(k for k, (d, g) in acts.items() if g == 0)
    return dict(spec="%s/%s" % (moddir, module), cfg=cfg, completed=ok, distinct_states=r.distinct,
                wall_s=round(r.wall, 1), actions={k: dict(distinct=d, generated=g) for k, (d, g) in sorted(acts.items())},
                never_taken=never)


def main():
    out = sys.argv[1] if len(sys.argv) > 1 else "/verif/spec/COVERAGE.json"
    only = sys.argv[2:] if len(sys.argv) > 2 else None
    res = []
    for moddir, module, cfg in CFGS:
        if only and cfg not in only:
            continue
        a = audit(moddir, module, cfg)
        res.append(a)
        print("%-44s completed=%s distinct=%d actions=%d never=%s" %
              (cfg, a["completed"], a["distinct_states"], len(a["actions"]), ",".join(a["never_taken"]) or "-"), flush=True)
    json.dump(res, open(out, "w"), indent=1)


if __name__ == "__main__":
    main()
