#!/usr/bin/env python3
"""tools/tlcrun.py <moddir> <module> <cfg> [timeout]: concise TLC run for development."""
import sys, re
sys.path.insert(0, '/verif')
from lib import vrun
moddir, module, cfg = sys.argv[1:4]
to = int(sys.argv[4]) if len(sys.argv) > 4 else 600
r = vrun.run_tlc(moddir, module, cfg, timeout=to)
print(cfg, "generated", r.states, "distinct", r.distinct, "depth", r.depth, "wall", round(r.wall, 1), "error:", r.error)
if r.error:
    out = r.out
    i = out.find("Semantic errors:")
    if i >= 0:
        j = out.find("Semantic processing", i)
        print(out[i:j if j > 0 else i + 1500][:1500])
    else:
        i = out.find("Error:")
        print(out[i:i + 300])
        acts = re.findall(r"^State (\d+): <(\w+)", out, re.M)
        print("trace actions:", " ".join(a for _, a in acts))
        j = out.rfind("\nState ")
        k = out.find("\n\n", j + 1)
        last = out[j:k]
        want = set(sys.argv[5].split(",")) if len(sys.argv) > 5 else None
        for ln in last.splitlines():
            if want is None or any(ln.startswith("/\\ " + w + " ") for w in want) or ln.startswith("State"):
                print(ln[:200])
