#!/usr/bin/env python3
"""tools/patch_unique.py <patch> [repo]: every hunk's pre-image must occur exactly once in the target file
(otherwise `git apply` may place it at another occurrence when line numbers have shifted)."""
import sys, re, os
patch, repo = sys.argv[1], (sys.argv[2] if len(sys.argv) > 2 else '/repo')
cur, hunks = None, []
for line in open(patch):
    if line.startswith('+++ b/'):
        cur = line[6:].strip()
    elif line.startswith('@@'):
        hunks.append((cur, []))
    elif hunks and cur and (line.startswith(' ') or line.startswith('-')) and not line.startswith('---'):
        hunks[-1][1].append(line[1:])
bad = 0
for f, pre in hunks:
    text = open(os.path.join(repo, f)).read()
    blk = ''.join(pre)
    n = text.count(blk)
    if n != 1:
        bad += 1
        print('AMBIGUOUS' if n > 1 else 'MISSING', f, 'occurrences:', n, repr(blk[:80]))
print('ok' if not bad else 'bad hunks: %d' % bad)
sys.exit(1 if bad else 0)
