#!/bin/bash
# tools/run_matrix.sh <tier> <seed>... : every registered check (or those in $PROPS) at the given tier for each seed; one result line per run
cd "$(dirname "$0")/.."
tier=$1; shift
mkdir -p build evidence
for seed in "$@"; do
  for p in ${PROPS:-C01 C02 C03 C04 C05 C06 C07 C08 C09 C10 C11 C12 C13 C14 C15 C16 C17 C18 C19 C20}; do
    t0=$(date +%s)
    VERIF_SEED=$seed bin/check $p --tier $tier > /tmp/matrix-$tier-$seed-$p.log 2>&1; rc=$?
    echo "seed=$seed tier=$tier $p rc=$rc $(( $(date +%s) - t0 ))s $(grep -E '^(VIOLATION|KNOWN-FINDING|MODEL-DRIFT|INFRA)' /tmp/matrix-$tier-$seed-$p.log | head -3 | tr '\n' ' ' | cut -c1-300)"
  done
done
