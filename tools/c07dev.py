import json,sys
sys.path.insert(0,'/verif')
from lib import vrun
from collections import Counter
v=vrun.validate_trace('Header','HeaderTrace','HeaderTrace.cfg',sys.argv[1] if len(sys.argv)>1 else '/tmp/c07.ndjson')
c=Counter(); ex={}
for r in v.rejected:
    e=r['event']
    key=(r['sig'], e.get('res'), (e.get('serial') or '')[:50])
    c[key]+=1
    ex.setdefault(key,(e, r['lines'], r['first_unmatched']))
print('scen',v.scenarios,'rejected',len(v.rejected))
for k,n in c.most_common(14):
    e,lines,fu=ex[k]
    d={kk:vv for kk,vv in e.items() if kk not in('sc','sig')}
    print(n,k)
    if '-v' in sys.argv:
        for x in lines[max(1,fu-3):fu+1]:
            print('     ',json.dumps({kk:vv for kk,vv in x.items() if kk not in('sc','sig')})[:600])
    else:
        print('     ',json.dumps(d)[:420])
