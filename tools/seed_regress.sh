#!/bin/bash
# tools/seed_regress.sh [seed-id...] : re-apply every kept seeded change to /repo, run the quick check(s) of its
# property, revert; a seed must be reported (rc=1).  Prints one line per seed.  /repo must be clean.
cd "$(dirname "$0")/.."
export GOFLAGS=-mod=mod GOPROXY=off GOSUMDB=off GOTOOLCHAIN=local
[ -n "$(git -C /repo status --short)" ] && { echo "/repo is not clean"; exit 2; }
ids="$@"; [ -z "$ids" ] && ids=$(ls seeded | grep -v '^_')
for s in $ids; do
  d=seeded/$s; prop=${s%%-*}
  if ! git -C /repo apply --check $PWD/$d/patch.diff 2>/dev/null; then echo "$s DOES-NOT-APPLY"; continue; fi
  git -C /repo apply $PWD/$d/patch.diff
  if ! (cd /repo && go build ./... 2>/dev/null); then echo "$s DOES-NOT-BUILD"; git -C /repo checkout -- .; continue; fi
  timeout 1800 bin/check $prop --tier quick > /tmp/seedreg-$s.log 2>&1; rc=$?
  git -C /repo checkout -- .
  echo "$s $prop rc=$rc $(grep -c '^VIOLATION' /tmp/seedreg-$s.log) violation line(s)"
done
# leave the evidence of the unchanged tree behind
for p in $(for s in $ids; do echo ${s%%-*}; done | sort -u); do bin/check $p --tier quick > /dev/null 2>&1; done
