#!/bin/bash
# tools/seed_regress.sh [seed-id...] : apply every kept seeded change to a scratch worktree of /repo's HEAD and
# run the quick check(s) of its property against that worktree (VERIF_REPO); a seed must be reported (rc=1).
# /repo, the registered evidence files and the replay directory are not touched.  One line per seed.
cd "$(dirname "$0")/.."
export GOFLAGS=-mod=mod GOPROXY=off GOSUMDB=off GOTOOLCHAIN=local
ids="$@"; [ -z "$ids" ] && ids=$(ls seeded | grep -v '^_')
for s in $ids; do
  d=$PWD/seeded/$s; prop=${s%%-*}
  WT=/tmp/seedreg-$s; rm -rf $WT; git -C /repo worktree prune
  git -C /repo worktree add -q --detach $WT HEAD || { echo "$s WORKTREE-FAILED"; continue; }
  # (a patch made before later fix:/hook commits may need the three-way fallback)
  if ! git -C $WT apply $d/patch.diff 2>/dev/null && ! git -C $WT apply -3 $d/patch.diff 2>/dev/null; then echo "$s DOES-NOT-APPLY"; git -C /repo worktree remove --force $WT; continue; fi
  if ! (cd $WT && go build ./... 2>/dev/null); then echo "$s DOES-NOT-BUILD"; git -C /repo worktree remove --force $WT; continue; fi
  checks=$(python3 -c "import json;print(' '.join(sorted({c.split(':')[0] for c in json.load(open('$d/meta.json'))['checks_run'].split() if c.endswith('rc=1')})))")
  [ -z "$checks" ] && checks=$prop
  res=""
  for c in $checks; do
    VERIF_REPO=$WT VERIF_EVID=/tmp/seedreg-$s-ev VERIF_REPLAYS=/tmp/seedreg-$s-rp timeout 1800 bin/check $c --tier quick > /tmp/seedreg-$s-$c.log 2>&1; rc=$?
    res="$res $c:rc=$rc"
  done
  echo "$s$res"
  tag=$(echo $WT | sed 's/[^A-Za-z0-9]\+/_/g; s/^_//')
  rm -rf /tmp/seedreg-$s-ev /tmp/seedreg-$s-rp build/driver-$tag harness/go.$tag.mod harness/go.$tag.sum
  git -C /repo worktree remove --force $WT
done
