import sys, json, subprocess, os; sys.path.insert(0,'/verif')
from lib import vrun
from collections import Counter
vrun.build_harness()
mode = sys.argv[1] if len(sys.argv)>1 else ''
args=['/verif/build/driver','c14','--out','/tmp/c14.ndjson']+(['--mode',mode] if mode else [])
p=subprocess.run(args,capture_output=True,text=True,env=vrun.env_with({'VERIF_SEED':os.environ.get('VERIF_SEED','1')})); print(p.stdout[-700:], p.stderr[-500:])
ev=[json.loads(x) for x in open('/tmp/c14.ndjson')]
pol=None
files={p:open('/tmp/c14_%s.ndjson'%p,'w') for p in ['LRU','FIFO','Random']}
for e in ev:
    if e['ev']=='T': pol=e['policy']
    files[pol].write(json.dumps(e)+'\n')
for f in files.values(): f.close()
spec = 'CacheLin' if mode=='conc' else 'CacheTrace'
for p in ['LRU','FIFO','Random']:
    v=vrun.validate_trace('BlockCache',spec,'%s_%s.cfg'%(spec,p),'/tmp/c14_%s.ndjson'%p, branching=(mode=='conc'))
    print(p, v.lines,v.scenarios,len(v.rejected),round(v.wall,1), v.runs)
    c=Counter((r['sig'],r['why']) for r in v.rejected)
    print(c.most_common(12))
    seen=set()
    for r in v.rejected:
        if r['sig'] not in seen:
            seen.add(r['sig']); print('  ', json.dumps(r['lines'])[:1500])
