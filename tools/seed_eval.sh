#!/bin/bash
# tools/seed_eval.sh <src-dir-with patch.diff+demo> <seeded-id> <property> <pkgdir-for-demo> [checks...]
# 1. confirms in a scratch worktree: demo passes without the patch, fails with it, repo suite passes with it
# 2. runs the given checks (quick) against the patched worktree (VERIF_REPO); /repo is not touched
# writes /verif/seeded/<seeded-id>/{patch.diff,demo_test.go,meta.json}
set -u
SRC=$1; SID=$2; PROP=$3; PKG=$4; shift 4; CHECKS="$@"
export GOFLAGS=-mod=mod GOPROXY=off GOSUMDB=off GOTOOLCHAIN=local
DST=/verif/seeded/$SID; mkdir -p $DST
cp $SRC/patch.diff $DST/patch.diff
DEMO=$(ls $SRC/demo*_test.go $SRC/demo*.go 2>/dev/null | head -1)
cp $DEMO $DST/$(basename $DEMO)
[ -f $SRC/README.md ] && cp $SRC/README.md $DST/README.agent.md
WT=/tmp/seedwt-$SID; rm -rf $WT; git -C /repo worktree add -q --detach $WT HEAD || exit 2
cp $DEMO $WT/$PKG/zz_verif_demo_test.go
( cd $WT && go test -vet=off -count=1 -run 'Test' ./$PKG/ >/tmp/seed-$SID-base.log 2>&1 ); BASE=$?
# the demo alone on base: run only demo tests by listing their names
NAMES=$(grep -ho 'func Test[A-Za-z0-9_]*' $DEMO | sed 's/func //' | paste -sd'|')
( cd $WT && go test -tags "${DEMO_TAGS:-}" -vet=off -count=1 -run "^($NAMES)\$" ./$PKG/ >/tmp/seed-$SID-demo-base.log 2>&1 ); DBASE=$?
( cd $WT && { git apply $DST/patch.diff 2>/dev/null || git apply -3 $DST/patch.diff; } ) || { echo "patch does not apply"; git -C /repo worktree remove --force $WT; exit 2; }
( cd $WT && go build ./... ) || { echo "does not build"; }
( cd $WT && go test -tags "${DEMO_TAGS:-}" -vet=off -count=1 -run "^($NAMES)\$" ./$PKG/ >/tmp/seed-$SID-demo-mut.log 2>&1 ); DMUT=$?
rm $WT/$PKG/zz_verif_demo_test.go
( cd $WT && go test -vet=off -count=1 ./... 2>&1 | grep -v MUTATION > /tmp/seed-$SID-suite.log ); 
SUITE_FAILS=$(grep -E '^--- FAIL' /tmp/seed-$SID-suite.log | grep -v -E 'TestEOF|TestHasEOF|TestRead ' | wc -l)
SUITE_FAIL_NAMES=$(grep -E '^--- FAIL' /tmp/seed-$SID-suite.log | awk '{print $3}' | paste -sd,)
echo "demo on base rc=$DBASE (want 0), demo with patch rc=$DMUT (want !=0), suite extra fails=$SUITE_FAILS ($SUITE_FAIL_NAMES)"
RES=""
if [ -n "$CHECKS" ]; then
  # the patched worktree is what the checks build against (VERIF_REPO); /repo itself is not touched,
  # evidence and replay files of these runs go to scratch directories
  for c in $CHECKS; do
    ( cd /verif && VERIF_REPO=$WT VERIF_EVID=/tmp/seed-$SID-evidence VERIF_REPLAYS=/tmp/seed-$SID-replays timeout ${CHECK_TIMEOUT:-1800} bin/check $c --tier quick > /tmp/seed-$SID-$c.log 2>&1 ); rc=$?
    RES="$RES $c:rc=$rc"
    grep -E '^(VIOLATION|KNOWN-FINDING|MODEL-DRIFT|  sig)' /tmp/seed-$SID-$c.log | head -5
  done
  TAG=$(echo $WT | sed 's/[^A-Za-z0-9]\+/_/g; s/^_//')
  rm -rf /tmp/seed-$SID-evidence /tmp/seed-$SID-replays /verif/build/driver-$TAG /verif/harness/go.$TAG.mod /verif/harness/go.$TAG.sum
fi
git -C /repo worktree remove --force $WT
echo "checks:$RES"
python3 - <<PY
import json
json.dump(dict(seeded_id="$SID", property="$PROP", demo_on_base_rc=$DBASE, demo_with_patch_rc=$DMUT,
  suite_unexpected_failures=$SUITE_FAILS, suite_failed_tests="$SUITE_FAIL_NAMES", checks_run="$RES".strip(),
  ran="git worktree add; demo test in $PKG (base, patched); go test -vet=off -count=1 ./... (patched); VERIF_REPO=<patched worktree> bin/check ... --tier quick"),
  open("$DST/meta.json","w"), indent=1)
PY
