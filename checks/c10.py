"""C10 - truncated or corrupted streams are never read as different valid data.
The fault-aware ReaderP allows, for a cut or altered stream, only a correct prefix
followed by an error; a clean end before the true end only when the cut is exactly at a
member boundary; HasEOF false for every proper prefix.  Every truncation length of small
streams (windows around member boundaries and a stride for large ones) and single-byte
substitutions run on the real reader with rd in {1,4} and are validated by TLC."""
import json
from checks import _reader
LEVEL = "fault_enumeration"
TRACE_CFG = {"ReaderTrace": "ReaderTrace.cfg", "BamCut": "BamCut.cfg"}


def run(ctx):
    ctx.rule = ("streams built by the harness's member encoder (3 quick / 25 thorough files); every cut 0..len-1 for streams < 2000 bytes, "
                "+-40 bytes around every member boundary and a stride of 997 for larger; substitutions at the same positions x {+1, xor 0x80} "
                "(thorough also 0x00, 0xff) plus BSIZE rewritten (one byte) to end the member at/around a later member's start; rd in {1,4}; each stream read "
                "sequentially to the end and beyond; BAM: 4 (quick) / 14 (thorough) record-size profiles, all cuts at/around member boundaries; distinct = scenarios")
    ctx.assumptions = _reader.ASSUME + ["BAM half: streams written by bam.Writer, cut at every member boundary, +-1 byte, a few bytes into the next member and mid-member; "
                                        "record ranges from the harness's own walk over the inflated stream",
                                        "a byte altered in a field the format does not protect (MTIME, XFL, OS) legitimately yields the original data"]
    _reader.model(ctx, ["fixed_fault", "c02_rd1"], ["fixed_fault", "c02_rd1", "c02_q"])
    ctx.build()
    trace = ctx.work + "/rdc.ndjson"
    s = ctx.drive(["rd", "--mode", "cuts", "--out", trace], timeout=7200)
    ctx.extra["driver"] = s
    ctx.evaluations = s["lines"]
    ctx.distinct = s["scenarios"]
    ctx.validate("BgzfReader", "ReaderTrace", "ReaderTrace.cfg", trace)
    outcomes = {}
    for line in open(trace):
        e = json.loads(line)
        if e["ev"] in ("read", "new") and e.get("err") in ("other", "EOF"):
            outcomes[e["err"]] = outcomes.get(e["err"], 0) + 1
    ctx.extra["error_replies"] = outcomes
    ctx.add_samples(trace, n=2, maxlines=8)
    # BAM half: streams written by bam.Writer cut at / around member boundaries, read through bam.Reader
    t2 = ctx.work + "/bamcut.ndjson"
    s2 = ctx.drive(["c13", "--mode", "bamcuts", "--out", t2], timeout=3600)
    ctx.extra["bam_driver"] = s2
    ctx.evaluations += s2["lines"]
    ctx.distinct += s2["scenarios"]
    ctx.validate("BgzfReader", "BamCut", "BamCut.cfg", t2)
    ctx.add_samples(t2, n=1, maxlines=8)
    if ctx.tier == "thorough":
        ctx.selftest("BgzfReader", "ReaderTrace", "ReaderTrace.cfg", trace,
                     [("wrong-byte", _reader.mut_data), ("early-EOF", _reader.mut_early_eof)], max_scen=200)
