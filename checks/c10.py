"""C10 - truncated or corrupted streams are never read as different valid data.
The fault-aware ReaderP allows, for a cut or altered stream, only a correct prefix
followed by an error; a clean end before the true end only when the cut is exactly at a
member boundary; HasEOF false for every proper prefix.  Every truncation length of small
streams (windows around member boundaries and a stride for large ones) and single-byte
substitutions run on the real reader with rd in {1,4} and are validated by TLC."""
import json
from checks import _reader
LEVEL = "fault_enumeration"
TRACE_CFG = {"ReaderTrace": "ReaderTrace.cfg"}


def run(ctx):
    ctx.rule = ("streams built by the harness's member encoder (3 quick / 25 thorough files); every cut 0..len-1 for streams < 2000 bytes, "
                "+-40 bytes around every member boundary and a stride of 997 for larger; substitutions at the same positions x {+1, xor 0x80} "
                "(thorough also 0x00, 0xff); rd in {1,4}; each stream read sequentially to the end and beyond; distinct = scenarios")
    ctx.assumptions = _reader.ASSUME + ["BAM record-level truncation (records cut at member boundaries) is covered by C05/C13's BAM reader traces when built; "
                                        "this check decides the BGZF layer",
                                        "a byte altered in a field the format does not protect (MTIME, XFL, OS) legitimately yields the original data"]
    _reader.model(ctx, ["fixed_fault", "c02_rd1"], ["fixed_fault", "c02_rd1", "c02_q"])
    ctx.build()
    trace = ctx.work + "/rdc.ndjson"
    s = ctx.drive(["rd", "--mode", "cuts", "--out", trace], timeout=7200)
    ctx.extra["driver"] = s
    ctx.evaluations = s["lines"]
    ctx.distinct = s["scenarios"]
    ctx.validate("BgzfReader", "ReaderTrace", "ReaderTrace.cfg", trace)
    outcomes = {}
    for line in open(trace):
        e = json.loads(line)
        if e["ev"] in ("read", "new") and e.get("err") in ("other", "EOF"):
            outcomes[e["err"]] = outcomes.get(e["err"], 0) + 1
    ctx.extra["error_replies"] = outcomes
    ctx.add_samples(trace, n=2, maxlines=8)
    if ctx.tier == "thorough":
        ctx.selftest("BgzfReader", "ReaderTrace", "ReaderTrace.cfg", trace,
                     [("wrong-byte", _reader.mut_data), ("early-EOF", _reader.mut_early_eof)], max_scen=200)
