"""C08 - BGZF output is spec-conformant, gzip-compatible, deterministic and EOF-marked.
WriterP's Emit action carries the framing clauses (one whole gzip member per underlying
write, BC subfield = member length - 1, size limits), Ret(Close) the EOF-marker/HasEOF
clause, the end event gzip-compatibility and independence of the bytes from wc."""
from checks import _writer
LEVEL = "model_checking"
TRACE_CFG = {"WriterTrace": "WriterTraceP.cfg"}


def run(ctx):
    ctx.rule = ("write scripts of 0-5 calls from {Write(n), Flush, Wait} + Close (+ a call after Close); n from the length classes "
                "{0,1,5,1000,B-1,B,B+1,2B,2B+1,3B+7} and random, compressible or incompressible; each script with wc in {1,2,4} (sometimes 0,16) "
                "at one level (quick: -1,0,1,9; thorough: all); header family: Name/Comment/Extra subfields/ModTime/OS; distinct = scenarios")
    ctx.assumptions = _writer.ASSUME
    _writer.model(ctx)
    _writer.drive_and_validate(ctx, ["plain", "hdr", "fault"], selftest_on="plain")
