"""C19 - FAI index and File return exactly the requested subsequence.
Fai.tla gives the true byte layout of a FASTA file from its records (FaiP) and transcribes
NewIndex's line scanner and Seq.Read's loop (FaiI); TLC checks on every small layout that
the scanner describes every record and that reading any range with any buffer size returns
exactly those bases and then io.EOF.  Every model layout (and seeded real-scale layouts,
and edge cases) is rendered to a concrete FASTA whose base at (record, p) is a function of
(record, p); the real NewIndex, WriteTo/ReadFrom and File/SeqRange/Read results are
validated against FaiTrace."""
LEVEL = "model_checking"
TRACE_CFG = {"FaiTrace": "FaiTrace.cfg"}


def mut_start(ev):
    for e in ev:
        if e.get("ev") == "index" and len(e["idx"]) >= 2:
            e["idx"][1][1] += 1
            return ev


def mut_base(ev):
    for e in ev:
        if e.get("ev") == "fread" and len(e.get("bases", [])) >= 2:
            e["bases"][1] = (e["bases"][1] + 1) % 4
            return ev


def mut_eof(ev):
    for e in ev:
        if e.get("ev") == "fread" and len(e["calls"]) >= 2:
            e["calls"][-1][1] = "nil"
            return ev


def mut_rt(ev):
    for e in ev:
        if e.get("ev") == "rt":
            e["equal"] = False
            return ev


def run(ctx):
    ctx.rule = ("layouts: 1 and 2 records over line width 1..W (2 quick / 3 thorough), length 1..L (4 / 6), LF and CRLF, 0/1 blank lines, with/without final newline, "
                "with/without description; all ranges 0<=s<=e<=L with buffer sizes 1-4; edge cases (empty record, quote in name); seeded real-scale layouts "
                "(width 1..120, length up to 5000, 1-4 records) with sampled ranges and buffers {1,7,60,61,4096}; distinct = files")
    ctx.assumptions = ["the base at (record, p) is letter (7*record + p*p + 3*p) mod 4, computed by TLC and by the harness",
                       "for records longer than 64 bases the positions of sampled bases and the read-back bytes are compared by the harness (fields posok / dok)"]
    ctx.mcheck("Fai", "FaiMC", "FaiMC_%s.cfg" % ctx.tier, timeout=14000, heap="24g" if ctx.tier == "thorough" else None)
    ctx.build()
    trace = ctx.work + "/c19.ndjson"
    s = ctx.drive(["c19", "--out", trace])
    ctx.extra["driver"] = s
    ctx.evaluations = s["lines"]
    ctx.distinct = s["scenarios"]
    ctx.validate("Fai", "FaiTrace", "FaiTrace.cfg", trace, timeout=9000)   # thorough: 34 000 events with reads of up to 5 000 bases
    ctx.add_samples(trace, n=2, maxlines=6)
    if ctx.tier == "thorough":
        ctx.selftest("Fai", "FaiTrace", "FaiTrace.cfg", trace,
                     [("wrong-Start", mut_start), ("wrong-base", mut_base), ("EOF-missing", mut_eof), ("index-changed-by-roundtrip", mut_rt)], max_scen=140)
