"""C13 - record chunks are replayable.
ChunkReaderI transcribes index.ChunkReader.Read over a deterministic Blocked-mode reader
model; TLC enumerates every small file, every ordered list of non-overlapping chunks (both
spellings of a member end, empty chunks included) and every buffer size and checks that
exactly the chunks' bytes come back, then io.EOF.  The same lists (and seeded real-scale
ones) run on the real ChunkReader and are validated against ChunkTrace.  BAM half: files
written by bam.Writer with records ending on / before / after block ends and spanning
blocks are read sequentially (chunk per record vs the harness's own record layout), then
every (i, j) through SetChunk and random chunk lists through Iterator, validated against
BamChunks."""
from checks import _reader
LEVEL = "model_checking"
TRACE_CFG = {"ChunkTrace": "ChunkTrace.cfg", "BamChunks": "BamChunks.cfg"}


def mut_k(ev):
    for e in ev:
        if e.get("ev") == "cread" and e["k"] > 1 and e["err"] == "nil":
            e["k"] -= 1
            e["data"] = e.get("data", [])[:-1]
            return ev


def mut_eof(ev):
    for i, e in enumerate(ev):
        if e.get("ev") == "cread" and e["k"] > 0 and e["err"] == "nil" and i + 1 < len(ev) and ev[i + 1].get("ev") == "cread" and ev[i + 1]["k"] > 0:
            e["err"] = "EOF"
            return ev


def mut_got(ev):
    for e in ev:
        if e.get("ev") == "setchunk" and len(e["got"]) >= 2:
            e["got"] = e["got"][1:]
            return ev


def mut_begin(ev):
    for e in ev:
        if e.get("ev") == "seq" and e["k"] > 1:
            e["begin"][1] += 1
            return ev


def run(ctx):
    ctx.rule = ("ChunkReader: every list of <= 2 ordered non-overlapping chunks over every valid offset of 5 (quick) / 8 (thorough) small files x "
                "{with, without EOF marker}, buffer sizes 1-3(4), rd 1-2; seeded lists over block-size members with buffers 7..3*BlockSize. "
                "BAM: 6 fixed size profiles (small, exact, before, after, span, mixed) + random ones, rd in {1,2,4}; all (i,j) up to a cap, 12 Iterator lists each; "
                "distinct = scenarios (chunk lists / files x rd)")
    ctx.assumptions = _reader.ASSUME + ["BAM record ranges come from the harness's own walk over the inflated stream (block_size fields)"]
    ctx.mcheck("BgzfReader", "ChunkReaderMC", "ChunkReaderMC_%s.cfg" % ctx.tier, timeout=7200, heap="24g" if ctx.tier == "thorough" else None)
    ctx.build()
    t1, t2 = ctx.work + "/c13.ndjson", ctx.work + "/c13b.ndjson"
    s1 = ctx.drive(["c13", "--out", t1], timeout=7200)
    s2 = ctx.drive(["c13", "--mode", "bam", "--out", t2], timeout=7200)
    ctx.extra["driver"] = {"chunkreader": s1, "bam": s2}
    ctx.evaluations = s1["lines"] + s2["lines"]
    ctx.distinct = s1["scenarios"] + s2["scenarios"]
    ctx.validate("BgzfReader", "ChunkTrace", "ChunkTrace.cfg", t1)
    ctx.validate("BgzfReader", "BamChunks", "BamChunks.cfg", t2)
    ctx.add_samples(t1, n=1, maxlines=8)
    ctx.add_samples(t2, n=1, maxlines=8)
    if ctx.tier == "thorough":
        ctx.selftest("BgzfReader", "ChunkTrace", "ChunkTrace.cfg", t1, [("short-reply", mut_k), ("early-EOF", mut_eof)], max_scen=400)
        ctx.selftest("BgzfReader", "BamChunks", "BamChunks.cfg", t2, [("record-missing-from-chunk", mut_got), ("wrong-Begin", mut_begin)], max_scen=10)
