"""C17 - chunk merge strategies never lose coverage.
MergeI (the code's in-place loop) is model-checked against MergeP for every sorted list
over the small offset alphabet; the same lists and seeded real-scale lists go through the
real strategies and every recorded call is validated against MergeP (verdict) and MergeI
(conformance of the model; mismatch = model drift)."""
LEVEL = "model_checking"
TRACE_CFG = {"MergeTrace": "MergeTraceP.cfg"}


def mut_drop_out_chunk(ev):
    for e in ev:
        if e.get("ev") == "merge" and e["strat"] == "adjacent" and len(e["out"]) >= 2:
            e["out"] = e["out"][:-1]
            return ev
    return None


def mut_shrink_end(ev):
    for e in ev:
        if e.get("ev") == "merge" and e["strat"] == "compressor" and len(e["out"]) >= 1 and e["out"][0][0] != e["out"][0][1]:
            e["out"][0][1] = e["out"][0][0]
            return ev
    return None


def mut_out2(ev):
    for e in ev:
        if e.get("ev") == "merge" and e["strat"] == "squash" and len(e["out2"]) == 1:
            e["out2"][0][1] = [e["out2"][0][1][0] + 1, 0]
            return ev
    return None


def run(ctx):
    ctx.rule = ("every sorted chunk list of length <= N over the 6-offset model alphabet (enumerated, N=3 quick / 4 thorough) "
                "plus seeded random real-scale lists (<= 50 chunks); each through Identity, Adjacent, Squash and "
                "CompressorStrategy(n); non-trivial = list with >= 2 chunks")
    ctx.assumptions = ["input lists are sorted by Begin with Begin <= End (the property's precondition; asserted by the trace spec)",
                       "TLC integers are 32 bit: random file offsets stay below 2^30"]
    ctx.mcheck("ChunkMerge", "MergeMC", "MergeMC_%s.cfg" % ctx.tier, coverage=(ctx.tier == "thorough"))
    ctx.build()
    trace = ctx.work + "/c17.ndjson"
    s = ctx.drive(["c17", "--out", trace])
    ctx.evaluations = s["lines"] - s["scenarios"]
    ctx.distinct = sum(1 for _ in open(trace) if '"ev":"T"' in _ and '"n":0' not in _ and '"n":1,' not in _)
    ctx.extra["driver"] = s
    ctx.exhaustive = False
    ctx.validate("ChunkMerge", "MergeTrace", "MergeTraceP.cfg", trace, is_p=True)
    ctx.validate("ChunkMerge", "MergeTrace", "MergeTraceI.cfg", trace, is_p=False)
    ctx.add_samples(trace, n=2)
    # a multi-chunk sample as well
    import json
    for line in open(trace):
        e = json.loads(line)
        if e.get("ev") == "merge" and len(e["in"]) >= 3 and e["strat"] == "adjacent":
            ctx.samples.append(e)
            break
    if ctx.tier == "thorough":
        ctx.selftest("ChunkMerge", "MergeTrace", "MergeTraceP.cfg", trace,
                     [("drop-last-output-chunk", mut_drop_out_chunk), ("shrink-output-end", mut_shrink_end),
                      ("second-application-differs", mut_out2)], max_scen=400)
