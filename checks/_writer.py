"""Shared steps of the bgzf.Writer checks (C01 writer half, C08, C09, C12)."""
import json
from lib import vrun

ASSUME = ["payload bytes are a keyed function of the stream position; byte equality is projected by the Go harness to (from, length) and the "
          "position logic is decided by TLC",
          "member facts (whole member, BC subfield, BSIZE, CRC, payload) come from the harness's own RFC 1952 parser and compress/flate",
          "the underlying writer never violates the io.Writer contract (no silent short writes)",
          "a call is a hang only if it exceeds the watchdog period and its own goroutine is parked in a channel/sync primitive inside package bgzf"]


def mut_from(ev):
    for e in ev:
        if e.get("ev") == "emit" and e["plen"] > 0 and e["from"] > 0:
            e["from"] -= 1
            return ev


def mut_drop_emit(ev):
    # a data block that reached the file in a scenario that closed cleanly: without its emit event the
    # replies claim more than was delivered (dropping a *failed* emit would only hide the fault)
    clean = set()
    bad = set()
    for e in ev:
        if e.get("ev") == "emit" and not e["ok"]:
            bad.add(e["sc"])
        if e.get("ev") == "ret" and e.get("op") == "C" and e.get("err") == "nil":
            clean.add(e["sc"])
    for i, e in enumerate(ev):
        if e.get("ev") == "emit" and e["plen"] > 0 and e["ok"] and e["sc"] in clean and e["sc"] not in bad:
            del ev[i]
            return ev


def mut_bsize(ev):
    for e in ev:
        if e.get("ev") == "emit":
            e["bsize"] += 1
            return ev


def mut_close_nil_after_fail(ev):
    bad = False
    for e in ev:
        if e.get("ev") == "emit" and not e["ok"]:
            bad = True
        if bad and e.get("ev") == "ret" and e["op"] == "C":
            e["err"] = "nil"
            return ev


def mut_swap_emits(ev):
    for i in range(len(ev) - 1):
        a, b = ev[i], ev[i + 1]
        if a.get("ev") == "emit" and b.get("ev") == "emit" and a["plen"] > 0 and b["plen"] > 0 and a["ok"] and b["ok"]:
            ev[i], ev[i + 1] = b, a
            return ev


def mut_haseof(ev):
    for e in ev:
        if e.get("ev") == "ret" and e["op"] == "C" and "haseof" in e:
            e["haseof"][0] = not e["haseof"][0]
            return ev


def mut_digest(ev):
    seen = set()
    for e in ev:
        if e.get("ev") == "end" and e["scriptId"] > 0:
            if e["scriptId"] in seen:
                e["digest"] = "0" * 16
                return ev
            seen.add(e["scriptId"])


MUTS = [("emit-out-of-place", mut_from), ("emit-dropped", mut_drop_emit), ("wrong-BSIZE", mut_bsize),
        ("close-nil-after-failed-write", mut_close_nil_after_fail), ("emits-swapped", mut_swap_emits),
        ("HasEOF-flipped", mut_haseof), ("digest-depends-on-wc", mut_digest)]


def model(ctx):
    if ctx.tier == "quick":
        ctx.mcheck("BgzfWriter", "WriterMC", "WriterMC_quick.cfg", timeout=1200)
    else:
        ctx.mcheck("BgzfWriter", "WriterMC", "WriterMC_quick3.cfg", timeout=1800)
        ctx.mcheck("BgzfWriter", "WriterMC", "WriterMC_thorough.cfg", timeout=6000, heap="24g")
    if ctx.prop == "C09":
        # liveness under weak fairness: every call of every script returns (no livelock; deadlock
        # detection above only rules out stuck states)
        ctx.mcheck("BgzfWriter", "WriterMC", "WriterMC_live.cfg", timeout=3600)


_skip = {}


def skip_sc(trace):
    """scenario numbers of the hdrsize family in a trace"""
    if trace not in _skip:
        _skip[trace] = {e["sc"] for e in vrun.read_ndjson(trace) if e.get("ev") == "T" and str(e.get("sig", "")).startswith("writer/hdrsize")}
    return _skip[trace]


def drive_and_validate(ctx, modes, selftest_on=None):
    ctx.build()
    total = {}
    for mode in modes:
        trace = "%s/wr_%s.ndjson" % (ctx.work, mode)
        s = ctx.drive(["wr", "--mode", mode, "--out", trace], timeout=7200)
        total[mode] = s
        ctx.evaluations += s["lines"]
        ctx.distinct += s["scenarios"]
        ctx.validate("BgzfWriter", "WriterTrace", "WriterTraceP.cfg", trace, is_p=True)
        # conformance of the block plan (WriterPlan): the plan does not model a header so large that
        # a full block no longer fits in a member (family "hdrsize", outside the property's domain)
        itrace = trace + ".i"
        with open(itrace, "w") as f:
            for e in vrun.read_ndjson(trace):
                if not str(e.get("sig", "")).startswith("writer/hdrsize") and e.get("sc") not in skip_sc(trace):
                    f.write(json.dumps(e) + "\n")
        ctx.validate("BgzfWriter", "WriterTrace", "WriterTraceI.cfg", itrace, is_p=False)
        if len(ctx.samples) < 3:
            ctx.add_samples(trace, n=1, maxlines=14)
        if ctx.tier == "thorough" and selftest_on == mode:
            ctx.selftest("BgzfWriter", "WriterTrace", "WriterTraceP.cfg", trace, MUTS, max_scen=400)
    ctx.extra["driver"] = total


def mut_hook_level(ev):
    for e in ev:
        if e.get("ev") == "hook" and e["p"] in ("w.queue", "f.queue") and e["a"] > 0:
            e["a"] -= 1
            return ev


def mut_hook_drop(ev):
    n = 0
    for i, e in enumerate(ev):
        if e.get("ev") == "hook" and e["p"] == "e.recvq":
            n += 1
            if n == 2:
                del ev[i]
                return ev


def iconformance(ctx):
    """Hook traces of the real writer (every hook point + API calls/returns) must be behaviours of WriterI:
    the implementation-shaped specification is bound to the code it describes.  A mismatch is MODEL-DRIFT."""
    trace = "%s/wr_itrace.ndjson" % ctx.work
    s = ctx.drive(["wr", "--mode", "itrace", "--out", trace], timeout=7200)
    ctx.extra["driver_itrace"] = s
    for nc in (2, 3, 5):
        ctx.validate("BgzfWriter", "WriterITrace", "WriterITrace_nc%d.cfg" % nc, trace, is_p=False, branching=True)
    if ctx.tier == "thorough":
        # the binding itself: a wrong fill level / a dropped emitter event must not be explainable
        for name, mut in (("hook-fill-level", mut_hook_level), ("hook-dropped", mut_hook_drop)):
            ev = vrun.read_ndjson(trace)[:1500]
            m = mut(json.loads(json.dumps(ev)))
            if m is None:
                continue
            p = "%s/it_%s.ndjson" % (ctx.work, name)
            with open(p, "w") as f:
                for e in m:
                    f.write(json.dumps(e) + "\n")
            rej = sum(len(vrun.validate_trace("BgzfWriter", "WriterITrace", "WriterITrace_nc%d.cfg" % nc, p, branching=True).rejected) for nc in (2, 3, 5))
            if rej == 0:
                raise vrun.Infra("WriterITrace accepted a mutated hook trace (%s)" % name)
            ctx.extra.setdefault("binding_selftest", []).append(dict(mutation="WriterITrace/" + name, applied=True, rejected=True))
