"""C18 - Merger output is a loss-free, ordered merge re-linked to the merged header.
MergerP: every Read returns the next unread record of some input, not before the previous
output in the declared order (coordinate = merged header's reference order then position,
unplaced last; queryname; concatenation for unsorted / unknown without less; custom less),
references and mate references are objects of the merged header with the source's name,
io.EOF only after every input ended cleanly, an input's read error is reported.  MergerI
(heads, min-selection with the code's tie-break, error handling) is checked by TLC against
MergerP for all small inputs including empty and failing ones; seeded scenarios (in-memory
BAM inputs built by the library's writer) run on the real Merger and are validated by TLC."""
LEVEL = "model_checking"
TRACE_CFG = {"MergerTrace": "MergerTrace.cfg"}


def mut_order(ev):
    for i in range(len(ev) - 1):
        a, b = ev[i], ev[i + 1]
        if a.get("ev") == "mread" and b.get("ev") == "mread" and a.get("src") == b.get("src"):
            a["idx"], b["idx"] = b["idx"], a["idx"]
            return ev


def mut_drop(ev):
    for i, e in enumerate(ev):
        if e.get("ev") == "mread" and i + 1 < len(ev) and ev[i + 1].get("ev") == "mread":
            del ev[i]
            return ev


def mut_eof(ev):
    for e in ev:
        if e.get("ev") == "mend" and e["err"] == "other":
            e["err"] = "EOF"
            return ev


def mut_ref(ev):
    for e in ev:
        if e.get("ev") == "mread" and e.get("refOK"):
            e["refOK"] = False
            return ev


def run(ctx):
    ctx.rule = ("k = 1-4 (quick) / 1-8 (thorough) inputs of 0-4 records (a failing input: 4-7 records of 40 KB, stream cut inside a member), orders coordinate / queryname / "
                "unsorted / unknown+less / unknown+nil, header reference lists equal, disjoint or overlapping subsequences of an order that differs from name order, "
                "records with mates on other references, unplaced records; 250 (quick) / 12000 (thorough) scenarios; distinct = scenarios")
    ctx.assumptions = ["every input is sorted in the declared order with respect to the merged header (the generator only keeps header sets whose orders agree)",
                       "queryname comparisons (string order) are projected by the harness to a boolean (name >= previous output's name)",
                       "a failing input is a BAM stream cut inside a BGZF member, read with rd=1: the first record reaching into that member fails"]
    ctx.mcheck("Merger", "MergerMC", "MergerMC_%s.cfg" % ctx.tier, timeout=7200, heap="24g" if ctx.tier == "thorough" else None)
    ctx.mcheck("Merger", "MergerMC", "MergerMC_cat.cfg", timeout=7200)
    ctx.build()
    trace = ctx.work + "/c18.ndjson"
    s = ctx.drive(["c18", "--out", trace], timeout=7200)
    ctx.extra["driver"] = s
    ctx.evaluations = s["lines"]
    ctx.distinct = s["scenarios"]
    ctx.validate("Merger", "MergerTrace", "MergerTrace.cfg", trace)
    import json
    ends = {}
    for line in open(trace):
        e = json.loads(line)
        if e["ev"] == "mend":
            ends[e["err"]] = ends.get(e["err"], 0) + 1
    ctx.extra["ends"] = ends          # "other" = scenarios whose failing input was reported
    ctx.add_samples(trace, n=2, maxlines=10)
    if ctx.tier == "thorough":
        ctx.selftest("Merger", "MergerTrace", "MergerTrace.cfg", trace,
                     [("per-input-order-broken", mut_order), ("record-dropped", mut_drop), ("error-reported-as-EOF", mut_eof), ("reference-not-relinked", mut_ref)],
                     max_scen=250)
