"""C05 - BAM encoding round trip, bytes as the SAM specification prescribes.
Codec.tla is a reference BAM encoder written from the SAM specification (section 4.2):
Encode(record) and HeaderBytes(text, references) give the exact bytes of a record / the
header framing.  The harness generates headers and records by field classes (name 1..254,
every flag/MAPQ class, CIGARs of every op type up to 2^28-1 and up to 65535 ops, even/odd/
zero-length sequences over the 16 codes, qualities present/absent, every aux type incl.
empty Z/H/B, record sizes around the reader's 4 KiB inline buffer and above one BGZF block),
writes them with bam.Writer (wc 1/2/4), extracts every record's bytes from the inflated
stream with its own framing parser and reads the file back with bam.Reader (rd 1/2/4) under
Omit modes 0, 1, 2 - keeping every returned record until the end of the file before
projecting it.  TLC evaluates the reference on every record (CodecTrace): bytes equal
except the bin field, read-back projection equals the record minus exactly the omitted
parts, header equal, io.EOF at the end.  CodecMC: TLC checks Decode(Encode(r)) = r for a decoder
written from the same section of the specification over a class-complete small record domain."""
LEVEL = "exploration"
TRACE_CFG = {"CodecTrace": "CodecTrace.cfg"}


def mut_byte(ev):
    for e in ev:
        if e.get("ev") == "rec" and len(e.get("enc", [])) > 40:
            e["enc"][36] = (e["enc"][36] + 1) % 256
            return ev


def mut_field(ev):
    for e in ev:
        if e.get("ev") == "back" and e.get("omit") == 0 and "r" in e:
            e["r"]["mapq"] = (e["r"]["mapq"] + 1) % 256
            return ev


def mut_omit(ev):
    for e in ev:
        if e.get("ev") == "back" and e.get("omit") == 1 and "r" in e and e["r"]["seq"]:
            e["r"]["seq"] = []
            return ev


def mut_aux(ev):
    cur = None
    for e in ev:
        if e.get("ev") == "back" and e.get("omit") == 0 and "r" in e and e["r"]["aux"]:
            e["r"]["aux"] = e["r"]["aux"][:-1]
            return ev


def mut_eof(ev):
    for e in ev:
        if e.get("ev") == "eof":
            e["err"] = "other"
            return ev


def mut_hdr(ev):
    for e in ev:
        if e.get("ev") == "hdrenc":
            e["enc"][4] = (e["enc"][4] + 1) % 256
            return ev


def run(ctx):
    ctx.rule = ("seeded record/header generator by field classes; distinct = BAM files; evaluations = trace events "
                "(one rec + three back events per record, header framing, header equality, io.EOF per Omit mode)")
    ctx.assumptions = ["the bin field (bytes 15,16 of a record) is excluded from the byte comparison, as the property states",
                       "the header text placed in the BAM header is taken as given (Header.MarshalText); its framing, the reference list and their agreement are checked",
                       "float aux values are carried as their four IEEE bytes"]
    # self-consistency of the reference: a decoder written from the same text recovers every record of a
    # class-complete small domain from Encode's bytes (so the encoding is unambiguous on it)
    ctx.mcheck("Codec", "CodecMC", "CodecMC_%s.cfg" % ctx.tier, timeout=3000)
    ctx.build()
    trace = ctx.work + "/c05.ndjson"
    s = ctx.drive(["c05", "--mode", "bam", "--out", trace])
    ctx.extra["driver"] = s
    ctx.evaluations = s["lines"]
    ctx.distinct = s["scenarios"]
    ctx.validate("Codec", "CodecTrace", "CodecTrace.cfg", trace)
    ctx.add_samples(trace, n=1, maxlines=3)
    if ctx.tier == "thorough":
        ctx.selftest("Codec", "CodecTrace", "CodecTrace.cfg", trace,
                     [("wrong-record-byte", mut_byte), ("wrong-field-read-back", mut_field), ("omit-drops-too-much", mut_omit),
                      ("aux-field-lost", mut_aux), ("EOF-missing", mut_eof), ("header-length-wrong", mut_hdr)], max_scen=3)
