"""C11 - decoders are total.
Grammar.tla gives, for each of the library's decoders (BGZF, BAM and its binary header, BAI,
tabix, CSI v1/v2, FAI and FASTA, SAM header text, SAM record line, SAM file, aux text, CIGAR
text, CRAM definition/container/block/slice, ITF-8/LTF-8), the fields of its encoding and the
space of structure-aware mutations (truncation before/inside a field, length/count edits to
-1, 0, 1, +-1, 2^20, max, bit flips, splices, empty/short text, bad digits, unknown letters,
dropped/doubled separators).  TLC enumerates every case (decoder, field, first/last instance,
mutation); the harness builds a valid specimen field by field, applies the case (lengths of
enclosing structures and checksums are recomputed so that the mutated field reaches its
decoder), runs the real decoder and then the library's accessors, formatters, writers and
index builders over any value returned, under recover() and a watchdog in a process with an
address-space limit, and TLC judges every recorded outcome (GrammarTrace: value or error)."""
import json, os, random, resource, subprocess, re
from lib import vrun
LEVEL = "exploration"
TRACE_CFG = {"GrammarTrace": "GrammarTrace.cfg"}
MEM_LIMIT = 1 << 30


def _limit():
    resource.setrlimit(resource.RLIMIT_AS, (MEM_LIMIT, MEM_LIMIT))


def run_cases(ctx, cases, trace):
    """Run the driver over the cases, resuming after a case that killed or hung it."""
    inp = ctx.work + "/cases.json"
    prog = ctx.work + "/progress"
    json.dump(cases, open(inp, "w"))
    start, restarts, oom, crashes = 0, 0, 0, 0
    env = vrun.env_with({"VERIF_SEED": str(ctx.seed), "VERIF_TIER": ctx.tier})
    summary = {}
    while start < len(cases):
        p = subprocess.run([ctx.driver, "c11", "--in", inp, "--out", trace, "--out2", prog, "--start", str(start)],
                           env=env, capture_output=True, text=True, timeout=7200, preexec_fn=_limit)
        if p.returncode == 0:
            for line in p.stdout.splitlines():
                if line.startswith("SUMMARY "):
                    summary = json.loads(line[8:])
            break
        k = int(open(prog).read())
        restarts += 1
        if restarts > 20000:
            raise vrun.Infra("C11 driver restarted more than 20000 times")
        if p.returncode == 3:      # a hang was recorded by the driver itself
            start = k + 1
            continue
        err = p.stderr
        c = cases[k]
        evs = vrun.read_ndjson_lenient(trace)
        with open(trace, "w") as f:          # drop a half-written last line
            for e in evs:
                f.write(json.dumps(e) + "\n")
            if not evs or evs[-1].get("sc") != k + 1:
                f.write(json.dumps({"ev": "T", "sc": k + 1, "sig": "total/" + c["dec"]}) + "\n")
            base = dict(ev="case", sc=k + 1, dec=c["dec"], field=c["field"], inst=c["inst"], mut=c["mut"],
                        field2=c.get("field2", ""), inst2=c.get("inst2", ""), mut2=c.get("mut2", ""), spec=-1, applied=1)
            if re.search(r"out of memory|cannot allocate memory|makeslice: cap out of range", err) and not re.search(r"^panic: ", err, re.M):
                oom += 1
                base.update(outcome="oom", detail="allocation beyond the %d GiB limit" % (MEM_LIMIT >> 30))
            else:
                crashes += 1
                m = re.search(r"^(panic: .*|fatal error: .*)$", err, re.M)
                lib = re.search(r"^github\.com/biogo/hts/([^\s(]+(?:\([^)\s]*\)[^\s(]*)?)\(", err, re.M)
                if not m:
                    raise vrun.Infra("C11 driver died without a panic message (rc %d):\n%s" % (p.returncode, err[-3000:]))
                site = lib.group(1) if lib else "outside-library"
                base.update(outcome="panic", detail=(m.group(1)[:160] + " (in a goroutine the harness cannot recover)"),
                            sig="total/%s/panic/%s" % (c["dec"], site))
            f.write(json.dumps(base) + "\n")
        start = k + 1
    return dict(summary=summary, restarts=restarts, oom=oom, crashes=crashes)


def mut_outcome(ev):
    for e in ev:
        if e.get("ev") == "case" and e.get("outcome") == "error":
            e["outcome"] = "panic"
            return ev


def mut_case(ev):
    for e in ev:
        if e.get("ev") == "case":
            e["mut"] = "hugeNum" if e["mut"] != "hugeNum" else "neg"
            e["field"] = "id1"
            e["dec"] = "bgzf"
            return ev


def run(ctx):
    ctx.rule = ("every case of Grammar.tla (decoder x field x first/last instance x mutation kind) on every specimen of the decoder; thorough adds seeded "
                "pairs of cases of the same decoder; distinct = cases")
    ctx.assumptions = ["structure-aware mutations of the harness's own valid specimens: not all byte strings",
                       "a case whose mutation leaves the specimen unchanged is recorded as unapplied and not judged",
                       "a decoder that dies allocating more than the address-space limit is recorded as oom and not judged (as the property states)",
                       "hang = no return within 60 s on an in-memory input of at most a few hundred kilobytes (allocations above the 1 GiB address-space limit fail at once and are recorded as oom)"]
    ctx.build()
    out = ctx.gen("Formats", "GrammarGen", "GrammarGen.cfg")
    schema = [o["schema"] for o in out if "schema" in o][0]
    # the harness's specimens must emit exactly the fields of the specification
    p = subprocess.run([ctx.driver, "c11", "--mode", "schema"], env=vrun.env_with(), capture_output=True, text=True)
    hs = json.loads([l for l in p.stdout.splitlines() if l.startswith("SCHEMA ")][0][7:])
    if hs != schema:
        diff = [(d, sorted(set(schema.get(d, {}).items()) ^ set(hs.get(d, {}).items()))) for d in set(schema) | set(hs) if schema.get(d) != hs.get(d)]
        raise vrun.Infra("harness specimens and Grammar.tla disagree on the schema: %s" % diff[:3])
    cases = []
    for o in sorted((o for o in out if "cases" in o), key=lambda o: o["dec"]):
        cases += sorted(o["cases"], key=lambda c: (c["field"], c["inst"], c["mut"]))
    nsingle = len(cases)
    # directed pairs of the grammar (always run)
    for o in sorted((o for o in out if "pairs" in o), key=lambda o: o["pdec"]):
        for pr in sorted(o["pairs"], key=lambda q: (q[0]["field"], q[0]["inst"], q[0]["mut"], q[1]["field"], q[1]["mut"])):
            a, b = pr
            cases.append(dict(a, field2=b["field"], inst2=b["inst"], mut2=b["mut"]))
    ctx.extra["cases_directed_pairs"] = len(cases) - nsingle
    if ctx.tier == "thorough":
        rnd = random.Random(ctx.seed * 7919 + 11)
        by = {}
        for c in cases:
            by.setdefault(c["dec"], []).append(c)
        pairs = []
        for d, cs in sorted(by.items()):
            for _ in range(min(2500, 5 * len(cs))):
                a, b = rnd.choice(cs), rnd.choice(cs)
                if (a["field"], a["inst"]) != (b["field"], b["inst"]):
                    pairs.append(dict(a, field2=b["field"], inst2=b["inst"], mut2=b["mut"]))
        cases += pairs
    trace = ctx.work + "/c11.ndjson"
    s = run_cases(ctx, cases, trace)
    ctx.extra["driver"] = s
    ctx.extra["cases_single"] = nsingle
    ctx.extra["cases_total"] = len(cases)
    evs = vrun.read_ndjson(trace)
    done = {e["sc"] for e in evs if e.get("ev") == "case"}
    if len(done) != len(cases):
        raise vrun.Infra("C11: %d of %d cases have no recorded outcome" % (len(cases) - len(done), len(cases)))
    ctx.evaluations = len([e for e in evs if e.get("ev") == "case"])
    ctx.distinct = len(cases)
    ctx.validate("Formats", "GrammarTrace", "GrammarTrace.cfg", trace)
    ctx.add_samples(trace, n=2, maxlines=3)
    if ctx.tier == "thorough":
        ctx.selftest("Formats", "GrammarTrace", "GrammarTrace.cfg", trace,
                     [("outcome-is-a-panic", mut_outcome), ("case-not-in-the-grammar", mut_case)], max_scen=30)
