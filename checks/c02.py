"""C02 - virtual offsets address the flat stream.
ReaderP is the flat-stream model; ReaderI (block objects, decompressors, read head,
waiting/working/control channels, read-ahead and inflate goroutines, nextBlock, Seek,
Close) is checked by TLC for every schedule of small instances without a cache; histories
of Seek/Read/ReadByte/Blocked on files of many shapes run on the real reader with
rd in {1,2,4,...} and every reply (bytes, end-of-data, LastChunk) is validated against ReaderP."""
from checks import _reader
LEVEL = "model_checking"
TRACE_CFG = {"ReaderTrace": "ReaderTrace.cfg"}


def run(ctx):
    ctx.rule = ("files: fixed and seeded shapes of 1-7 members (payload 1-8 bytes, 1-3000, BlockSize-1, BlockSize; empty members as empty deflate "
                "or as the EOF marker; with and without trailing marker); histories of 3-17 (quick) / 3-43 (thorough) operations over {Read(n), ReadByte, "
                "Seek(member, off<=len), Seek(last reported Begin), Blocked on/off}; each history with rd in {1,2,4} (thorough {0,1,2,3,4,8}); distinct = scenarios")
    ctx.assumptions = _reader.ASSUME
    _reader.model(ctx, ["c02_q", "c02_rd1"], ["c02_q", "c02_rd1", "c02_rd3", "fixed_nocache"])
    ctx.build()
    trace = ctx.work + "/rd.ndjson"
    s = ctx.drive(["rd", "--mode", "c02", "--out", trace], timeout=7200)
    ctx.extra["driver"] = s
    ctx.evaluations = s["lines"]
    ctx.distinct = s["scenarios"]
    ctx.validate("BgzfReader", "ReaderTrace", "ReaderTrace.cfg", trace)
    ctx.add_samples(trace, n=2, maxlines=10)
    if ctx.tier == "thorough":
        ctx.selftest("BgzfReader", "ReaderTrace", "ReaderTrace.cfg", trace, _reader.MUTS, max_scen=300)
