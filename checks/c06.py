"""C06 - SAM text round trip; SAM and BAM views of a record agree.
Codec.tla holds a reference SAM formatter written from the SAM specification (sections 1.4,
1.5) over byte sequences: Line(references, record, flag text), with decimal and hexadecimal
flag forms, '*' and '=' fields, CIGAR/sequence/quality text and every aux type (integers
formatted in TLA+, floats and 32-bit unsigned values by the harness with strconv).  For
every generated record expressible in SAM the real MarshalSAM line (both flag formats) must
be the reference line; UnmarshalSAM of the line must format to the identical line, carry the
narrowed aux types the reference gives and project to equal field values; the record read
back from a BAM file must format to the same line.  sam.Reader inputs with LF/CRLF line
ends, with/without header and with/without a final newline must give every line as one
record, then io.EOF; whole files go through sam.Writer (text = header text + one line per record)
and back through sam.Reader.  All judged by TLC (CodecTrace)."""
LEVEL = "exploration"
TRACE_CFG = {"CodecTrace": "CodecTrace.cfg"}


def mut_line(ev):
    for e in ev:
        if e.get("ev") == "sam" and "lineb" in e:
            e["lineb"][len(e["lineb"]) // 2] ^= 1
            return ev


def mut_reline(ev):
    for e in ev:
        if e.get("ev") == "sam" and e.get("reline"):
            e["reline"] = False
            return ev


def mut_ptype(ev):
    for e in ev:
        if e.get("ev") == "sam" and e.get("ptypes"):
            e["ptypes"][0] = "i" if e["ptypes"][0] != "i" else "I"
            return ev


def mut_bamline(ev):
    for e in ev:
        if e.get("ev") == "sam" and "bamline" in e:
            e["bamline"] += "x"
            return ev


def mut_lastline(ev):
    for e in ev:
        if e.get("ev") == "samreader" and e.get("got"):
            e["got"] = e["got"][:-1]
            return ev


def run(ctx):
    ctx.rule = ("seeded generator of SAM-expressible records (valid CIGAR for the sequence, printable names, qualities 0..93 or absent, every aux type with boundary "
                "values) over varied headers; both flag formats; sam.Reader inputs over {LF, CRLF} x {header, none} x {final newline, none} x 0..4 records; "
                "distinct = scenarios (files + reader inputs)")
    ctx.assumptions = ["a lone quality value 9 on a one-base read is the text '*', which SAM reads as absent: not expressible, excluded",
                       "decimal text of floats and of unsigned values above 2^31 is computed by the harness with strconv (TLC integers are 32 bits)",
                       "H values are written in upper case"]
    ctx.build()
    trace = ctx.work + "/c06.ndjson"
    s = ctx.drive(["c05", "--mode", "sam", "--out", trace])
    ctx.extra["driver"] = s
    ctx.evaluations = s["lines"]
    ctx.distinct = s["scenarios"]
    ctx.validate("Codec", "CodecTrace", "CodecTrace.cfg", trace)
    ctx.add_samples(trace, n=2, maxlines=4)
    if ctx.tier == "thorough":
        ctx.selftest("Codec", "CodecTrace", "CodecTrace.cfg", trace,
                     [("line-differs-from-reference", mut_line), ("reparse-formats-differently", mut_reline), ("aux-type-not-narrowed", mut_ptype),
                      ("BAM-view-differs", mut_bamline), ("last-line-dropped", mut_lastline)], max_scen=12)
