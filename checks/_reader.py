"""Shared steps of the bgzf.Reader checks (C01 read-back, C02, C03, C09, C10)."""

ASSUME = ["the file's data is the texture T (computable by TLC and by the harness); replies of <= 8 bytes are compared byte by byte by TLC, "
          "longer replies are located in the data by the harness (all matching positions are logged) and TLC checks the specification's "
          "position is among them",
          "ReaderI abstracts data to member identities and the cache to a policy-free set (a full cache may refuse or evict anything); it is "
          "bound to the code through the P-level traces and through its as-coded switches reproducing the failures observed on the pinned tree, "
          "not through hook traces",
          "a call is a hang only if it exceeds the watchdog period and its own goroutine is parked in a channel/sync primitive inside package bgzf"]


def mut_data(ev):
    for e in ev:
        if e.get("ev") == "read" and e.get("data") and len(e["data"]) >= 2:
            e["data"][1] = (e["data"][1] + 1) % 256
            return ev


def mut_end(ev):
    for e in ev:
        if e.get("ev") == "read" and e["err"] == "nil" and e["k"] > 0:
            e["end"][1] += 1
            return ev


def mut_early_eof(ev):
    for e in ev:
        if e.get("ev") == "read" and e["err"] == "nil" and e["k"] > 1:
            e["k"] -= 1
            e["err"] = "EOF"
            if "data" in e:
                e["data"] = e["data"][:-1]
            return ev


def mut_drop_seek(ev):
    for i, e in enumerate(ev):
        if e.get("ev") == "seek" and i + 1 < len(ev) and ev[i + 1].get("ev") == "read" and ev[i + 1]["k"] > 0:
            del ev[i]
            return ev


def mut_pm(ev):
    for e in ev:
        if e.get("ev") == "read" and e.get("pm"):
            e["pm"] = [p + 1 for p in e["pm"]]
            return ev


def mut_same(ev):
    for e in ev:
        if e.get("ev") == "read" and e.get("same") is True:
            e["same"] = False
            return ev


MUTS = [("wrong-byte", mut_data), ("wrong-LastChunk-End", mut_end), ("early-EOF", mut_early_eof), ("seek-dropped", mut_drop_seek),
        ("data-from-wrong-position", mut_pm)]


def model(ctx, cfgs_quick, cfgs_thorough):
    for c in (cfgs_quick if ctx.tier == "quick" else cfgs_thorough):
        ctx.mcheck("BgzfReader", "ReaderMC", "ReaderMC_%s.cfg" % c, timeout=7200, heap="24g" if ctx.tier == "thorough" else None)
