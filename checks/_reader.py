"""Shared steps of the bgzf.Reader checks (C01 read-back, C02, C03, C09, C10)."""

ASSUME = ["the file's data is the texture T (computable by TLC and by the harness); replies of <= 8 bytes are compared byte by byte by TLC, "
          "longer replies are located in the data by the harness (all matching positions are logged) and TLC checks the specification's "
          "position is among them",
          "ReaderI abstracts data to member identities and the cache to a policy-free set (a full cache may refuse or evict anything); it is "
          "bound to the code through the P-level traces, through its as-coded switches reproducing the failures observed on the pinned tree, "
          "and (C03) through hook traces of the real reader validated against ReaderI itself (ReaderITrace; a mismatch is MODEL-DRIFT)",
          "a call is a hang only if it exceeds the watchdog period and its own goroutine is parked in a channel/sync primitive inside package bgzf"]


def mut_data(ev):
    for e in ev:
        if e.get("ev") == "read" and e.get("data") and len(e["data"]) >= 2:
            e["data"][1] = (e["data"][1] + 1) % 256
            return ev


def mut_end(ev):
    for e in ev:
        if e.get("ev") == "read" and e["err"] == "nil" and e["k"] > 0:
            e["end"][1] += 1
            return ev


def mut_early_eof(ev):
    for e in ev:
        if e.get("ev") == "read" and e["err"] == "nil" and e["k"] > 1:
            e["k"] -= 1
            e["err"] = "EOF"
            if "data" in e:
                e["data"] = e["data"][:-1]
            return ev


def mut_drop_seek(ev):
    for i, e in enumerate(ev):
        if e.get("ev") == "seek" and i + 1 < len(ev) and ev[i + 1].get("ev") == "read" and ev[i + 1]["k"] > 0:
            del ev[i]
            return ev


def mut_pm(ev):
    for e in ev:
        if e.get("ev") == "read" and e.get("pm"):
            e["pm"] = [p + 1 for p in e["pm"]]
            return ev


def mut_same(ev):
    for e in ev:
        if e.get("ev") == "read" and e.get("same") is True:
            e["same"] = False
            return ev


MUTS = [("wrong-byte", mut_data), ("wrong-LastChunk-End", mut_end), ("early-EOF", mut_early_eof), ("seek-dropped", mut_drop_seek),
        ("data-from-wrong-position", mut_pm)]


def model(ctx, cfgs_quick, cfgs_thorough):
    for c in (cfgs_quick if ctx.tier == "quick" else cfgs_thorough):
        ctx.mcheck("BgzfReader", "ReaderMC", "ReaderMC_%s.cfg" % c, timeout=7200, heap="24g" if ctx.tier == "thorough" else None)


# ---- conformance of ReaderI with the real reader (hook traces)
ICFGS = ["rd1_nokeep", "rd1_keep", "rd2_nokeep", "rd2_keep", "rd3_nokeep", "rd3_keep"]


def mut_iput(ev):
    for e in ev:
        if e.get("ev") == "c" and e.get("op") == "put":
            e["ret"] = not e["ret"]
            return ev


def mut_isend(ev):
    for i, e in enumerate(ev):
        if e.get("ev") == "h" and e.get("p") == "a.send":
            del ev[i]
            return ev


def mut_iback(ev):
    for e in ev:
        if e.get("ev") == "h" and e.get("p") == "n.back":
            e["m"] = e["m"] % 3 + 1
            return ev


def iconformance(ctx):
    """Traces of the real reader carrying every hook point, every cache operation and the API calls and
    returns must be behaviours of ReaderI: the implementation-shaped specification is bound to the code it
    describes.  A mismatch is MODEL-DRIFT, never a violation."""
    import json
    from lib import vrun
    trace = "%s/rd_itrace.ndjson" % ctx.work
    s = ctx.drive(["rd", "--mode", "itrace", "--out", trace], timeout=7200)
    ctx.extra["driver_itrace"] = s
    for c in ICFGS:
        ctx.validate("BgzfReader", "ReaderITrace", "ReaderITrace_%s.cfg" % c, trace, is_p=False, branching=True)
    if ctx.tier == "thorough":
        # the binding itself: a cache outcome flipped, a read-ahead hand-over dropped, a wrong member handed back
        for name, mut in (("cache-put-outcome", mut_iput), ("read-ahead-send-dropped", mut_isend), ("handed-back-member", mut_iback)):
            ev = vrun.read_ndjson(trace)[:3000]
            m = mut(json.loads(json.dumps(ev)))
            if m is None:
                continue
            p = "%s/rit_%s.ndjson" % (ctx.work, name)
            with open(p, "w") as f:
                for e in m:
                    f.write(json.dumps(e) + "\n")
            rej = sum(len(vrun.validate_trace("BgzfReader", "ReaderITrace", "ReaderITrace_%s.cfg" % c, p, branching=True).rejected) for c in ICFGS)
            if rej == 0:
                raise vrun.Infra("ReaderITrace accepted a mutated hook trace (%s)" % name)
            ctx.extra.setdefault("binding_selftest", []).append(dict(mutation="ReaderITrace/" + name, applied=True, rejected=True))


def schedules(ctx):
    """Behaviours of ReaderI (TLC, simulation mode: an API history together with one interleaving of the
    consumer, the read-ahead goroutine and the inflate goroutines) are replayed on the real reader: its
    goroutines wait at the hook points and at the cache until the schedule says it is their turn.  The API
    trace of every run is judged by ReaderP."""
    import json
    num = 120 if ctx.tier == "quick" else 1500
    scheds = []
    for cfg in ("rd2", "rd2cap2", "rd3"):
        scheds += ctx.gen("BgzfReader", "ReaderSched", "ReaderSched_%s.cfg" % cfg, simulate="num=%d" % num, timeout=3000,
                          extra=["-depth", "400", "-seed", str(1000 + ctx.seed)])
    if ctx.tier == "thorough":
        # directed schedules: ReaderI with the switch of a seeded change on (KeepCurAfterKeep, seed C03-B); the
        # exhaustive search stops at the first state that breaks an invariant and prints the history leading there
        # (TLC's "invariant violated" is the expected end of that search); the harness appends a visit of every member
        d = ctx.gen("BgzfReader", "ReaderSched", "ReaderSched_keepcur.cfg", workers=8, timeout=3000)
        ctx.extra["directed_schedules"] = len(d)
        scheds += d * 3
    p = "%s/scheds.json" % ctx.work
    json.dump(scheds, open(p, "w"))
    trace = "%s/rd_sched.ndjson" % ctx.work
    s = ctx.drive(["rd", "--mode", "sched", "--in", p, "--out", trace], timeout=7200)
    ctx.extra["driver_sched"] = s
    ctx.evaluations += s.get("lines", 0)
    ctx.distinct += s.get("scenarios", 0)
    ctx.validate("BgzfReader", "ReaderTrace", "ReaderTrace.cfg", trace)
