"""C16 - coordinate arithmetic matches the spec.
Cigar.tla / Bins.tla state End, Len, CIGAR lengths, validity, the BAM bin and the bin
scheme of BAI/CSI from the SAM/CSI texts; TLC checks the scheme's lemmas on small
geometries (a bin is in the bin list of every overlapping interval; Reg2Bin(b, .) is
constant between two ends with equal bins).  Recorded results of the real functions are
validated by TLC: CIGARs (all of <= 2 ops over the 10 types x lengths {0,1,2,5}, zero
reference length at tile edges, seeded real-scale ones), the real BinFor as run-length
rows over all end tiles for begin tiles x in-tile offsets (stride in quick, every tile in
thorough = the whole 2^15 x 2^15 tile product), CSI reg2bin exhaustively for small
geometries and by rows for large ones, and bin lists."""
LEVEL = "model_checking"
TRACE_CFG = {"CoordTrace": "CoordTrace.cfg"}


def mut_bin(ev):
    for e in ev:
        if e.get("ev") == "cigar" and e["ref"] > 0:
            e["bin"] += 1
            return ev


def mut_end(ev):
    for e in ev:
        if e.get("ev") == "cigar" and e["ref"] > 0:
            e["end"] -= 1
            return ev


def mut_run(ev):
    for e in ev:
        if e.get("ev") == "binrow" and len(e["runs"]) >= 2 and e["runs"][0][0] >= 1:
            e["runs"][0][0] += 1
            e["runs"][1][0] -= 1
            if e["runs"][1][0] == 0:
                continue
            return ev


def mut_list(ev):
    for e in ev:
        if e.get("ev") == "bins" and len(e["list"]) > 2:
            e["list"] = e["list"][:-1]
            return ev


def run(ctx):
    ctx.rule = ("CIGAR events + bin rows + bin lists as described in the module docstring; a bin row covers `count` (begin, end) pairs; "
                "evaluations = pairs covered + cigars + lists; distinct = events")
    ctx.assumptions = ["End of a mapped record is POS + reference length (0-based, exclusive); the bin treats an alignment without reference length "
                       "as one base long (SAM spec 4.2.1); a query-consuming operation of length 0 after B counts as placed (library doc left open)",
                       "run-length rows: both ends of every run are checked by TLC; values in between follow from CoordMC!RunLemma "
                       "(checked on small geometries) and from the fact that the harness evaluated the real function at every point of the run"]
    ctx.mcheck("Coord", "CoordMC", "CoordMC_%s.cfg" % ctx.tier, timeout=7200)
    if ctx.tier == "thorough":
        ctx.mcheck("Coord", "CoordMC", "CoordMC_overlap.cfg", timeout=7200)
    ctx.build()
    trace = ctx.work + "/c16.ndjson"
    s = ctx.drive(["c16", "--out", trace], timeout=7200)
    ctx.extra["driver"] = s
    import json
    pairs = 0
    for line in open(trace):
        if '"binrow"' in line:
            pairs += json.loads(line)["count"]
    ctx.extra["bin_pairs_covered_by_rows"] = pairs
    ctx.evaluations = pairs + s["lines"]
    ctx.distinct = s["lines"]
    ctx.validate("Coord", "CoordTrace", "CoordTrace.cfg", trace)
    ev = [json.loads(x) for x in open(trace)]
    ctx.samples = [e for e in ev if e["ev"] == "cigar" and len(e["ops"]) == 2][:1] + [e for e in ev if e["ev"] == "binrow" and e["kind"] == "bai"][:1] + \
                  [e for e in ev if e["ev"] == "bins"][:1]
    if ctx.tier == "thorough":
        ctx.selftest("Coord", "CoordTrace", "CoordTrace.cfg", trace,
                     [("wrong-bin", mut_bin), ("wrong-end", mut_end), ("run-boundary-shifted", mut_run), ("bin-missing-from-list", mut_list)], max_scen=10)
