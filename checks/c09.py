"""C09 - I/O faults never hang and are never swallowed.
Writer: WriterI with one injected underlying failure is checked by TLC (no deadlock with a
pending call, errors sticky and reported by Close, nothing delivered after a failure,
nothing running after Close); every fault position of fixed workloads and directed
schedules run on the real writer, validated against WriterP.  Reader: ReaderI with a
failing member; workloads x every index k of the underlying Read/Seek call (error, or
partial data then error, optionally persistent) x rd x {cache, no cache} run on the real
reader, validated against the fault-aware ReaderP: never other bytes, never a clean end
before the true end, every call returns, no goroutine after Close."""
import json
from checks import _writer, _reader
LEVEL = "fault_enumeration"
TRACE_CFG = {"WriterTrace": "WriterTraceP.cfg", "ReaderTrace": "ReaderTrace.cfg"}


def run(ctx):
    ctx.rule = ("writer: 6 fixed workloads x every underlying Write index x wc in {1,2,4} x {error, partial+error}, random scripts with a random fault position, "
                "directed schedules holding the emitter/compressors at hook points; reader: 3 files x 4 workloads (sequential small/large buffers, seek-forward, "
                "seek-retry after error) x rd x {cache, none} x every index k of the underlying Read (and Seek) call, plus random histories with a random fault; "
                "non-trivial = scenario in which the injected fault was reached (counted from the trace)")
    ctx.assumptions = _writer.ASSUME + _reader.ASSUME
    _writer.model(ctx)
    _reader.model(ctx, ["fixed_fault", "c02_q", "live"], ["fixed_fault", "c02_q", "fixed_cap2", "fixed_rd3", "live", "live_fault"])
    _writer.drive_and_validate(ctx, ["fault", "hold"], selftest_on="fault")
    trace = ctx.work + "/rdf.ndjson"
    s = ctx.drive(["rd", "--mode", "faults", "--out", trace], timeout=7200)
    ctx.extra["reader_driver"] = s
    ctx.evaluations += s["lines"]
    ctx.validate("BgzfReader", "ReaderTrace", "ReaderTrace.cfg", trace)
    # how many scenarios actually met their fault (an error reply) - guards against vacuity
    hit, tot, cur = 0, 0, False
    for line in open(trace):
        e = json.loads(line)
        if e["ev"] == "T":
            tot += 1
            hit += cur
            cur = False
        elif e.get("err") == "other":
            cur = True
    hit += cur
    ctx.extra["reader_scenarios_with_error_reply"] = hit
    ctx.distinct = ctx.distinct + hit
    ctx.add_samples(trace, n=1, maxlines=14)
