"""C12 - whole blocks in write order; Flush+Wait durable.
WriterI (compressors, channels, emitter) is checked by TLC against the WriterP clauses for
every completion order; the real writer's underlying-writer events and replies are
validated against WriterP: Emit (contiguous, in order, never ahead of what was written),
Ret(Wait) (durable after Flush), Ret(Close), and the sink observation at every reply.
The BAM writer runs over the same instrumented sink as the BGZF script it is (NewWriter =
Write(header) Flush Wait, Write(record), Close; sizes and content from a dry run parsed by the
harness): the header is durable when NewWriter returns, records arrive whole and in order."""
from checks import _writer
LEVEL = "model_checking"
TRACE_CFG = {"WriterTrace": "WriterTraceP.cfg"}


def run(ctx):
    ctx.rule = ("scripts as C08 (plain family, underlying writer randomly delayed) plus the fault family (every fault position of 6 fixed "
                "workloads x wc x {error, partial+error}, random positions of random scripts) and directed schedules that hold the emitter or "
                "the compressors at hook points; bam.Writer over the sink (0-40 records of 40 B - 70 KiB, wc 1/2/4); the sink is observed inside every underlying Write and at every reply; distinct = scenarios")
    ctx.assumptions = _writer.ASSUME
    _writer.model(ctx)
    _writer.drive_and_validate(ctx, ["plain", "fault", "hold", "bam"], selftest_on="fault")
    _writer.iconformance(ctx)
