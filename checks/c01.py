"""C01 - BGZF write->read round trip is lossless.
WriterI/WriterP decide that the emitted blocks partition exactly what was written
(CloseComplete); ReaderI/ReaderP that reading that file sequentially returns the flat data
and then io.EOF.  Real scripts are written with bgzf.Writer (wc, level varied), the API
trace validated against WriterP, the produced stream described by the harness's own
parser and read back through bgzf.Reader (rd varied, mixed Read sizes and ReadByte), that
trace validated against ReaderP."""
from checks import _writer, _reader
LEVEL = "model_checking"
TRACE_CFG = {"WriterTrace": "WriterTraceP.cfg", "ReaderTrace": "ReaderTrace.cfg"}


def run(ctx):
    ctx.rule = ("write scripts as C08's plain family (length classes around 0, 1, BlockSize-1, BlockSize, BlockSize+1, multi-block; compressible and "
                "incompressible; wc in {1,2,4,(0,16)}; levels quick {-1,0,1,9} / thorough all), each cleanly closed stream read back with rd in {0,1,2,4} "
                "using buffer sizes from {0,1,2,7,4096,B-1,B,B+1,2B+3,2^20} mixed with ReadByte, to the end and beyond; distinct = scenarios")
    ctx.assumptions = _writer.ASSUME + ["read-back bytes are compared by the harness with the written data at its own running position; TLC checks that "
                                        "position against ReaderP's"]
    _writer.model(ctx)
    _reader.model(ctx, ["c02_q", "c02_rd1"], ["c02_q", "c02_rd1", "c02_rd3"])
    ctx.build()
    wt, rt = ctx.work + "/wr.ndjson", ctx.work + "/rb.ndjson"
    s = ctx.drive(["wr", "--mode", "plain", "--out", wt, "--out2", rt], timeout=7200)
    ctx.extra["driver"] = s
    ctx.evaluations = s["lines"]
    ctx.distinct = s["scenarios"]
    ctx.validate("BgzfWriter", "WriterTrace", "WriterTraceP.cfg", wt)
    ctx.validate("BgzfWriter", "WriterTrace", "WriterTraceI.cfg", wt, is_p=False)
    v = ctx.validate("BgzfReader", "ReaderTrace", "ReaderTrace.cfg", rt)
    ctx.distinct += v.scenarios
    # directed schedules of the compressor / emitter hand-off ("all goroutine schedules of the workers"): the
    # writer hooks hold the emitter or a compressor while the caller goes on; no fault is injected here
    ht = ctx.work + "/hold.ndjson"
    sh = ctx.drive(["wr", "--mode", "hold", "--out", ht], timeout=7200)
    ctx.extra["driver_hold"] = sh
    ctx.evaluations += sh["lines"]
    ctx.distinct += sh["scenarios"]
    ctx.validate("BgzfWriter", "WriterTrace", "WriterTraceP.cfg", ht)
    ctx.add_samples(wt, n=1, maxlines=10)
    ctx.add_samples(rt, n=1, maxlines=10)
    if ctx.tier == "thorough":
        ctx.selftest("BgzfReader", "ReaderTrace", "ReaderTrace.cfg", rt, [("early-EOF", _reader.mut_early_eof)], max_scen=100)
