"""C03 - block caches are transparent.
In ReaderP SetCache changes nothing; ReaderI with a policy-free cache (capacity 1-2; optionally
one whose Get keeps used blocks, as cache.FIFO does, and one that arrives holding blocks of
another reader) is checked by TLC for every schedule: data identity, no stale cache mapping, no panic, no
deadlock, nothing left running after Close; every history runs on the real reader once
without and once with caches (LRU/FIFO/Random, StatsRecorder, capacity 1-4, attached,
replaced and removed at arbitrary points) and both must satisfy ReaderP, reply for reply
identical."""
from checks import _reader
LEVEL = "model_checking"
TRACE_CFG = {"ReaderTrace": "ReaderTrace.cfg"}


def run(ctx):
    ctx.rule = ("as C02, plus SetCache(kind in {LRU, FIFO, Random, none}, capacity 1-4, optionally in a StatsRecorder) at arbitrary points and from the "
                "start; every history is run uncached first and the cached run's replies are compared with it (field `same`); distinct = scenarios")
    ctx.assumptions = _reader.ASSUME
    _reader.model(ctx, ["fixed_q", "fixed_rd1", "fixed_cap2", "fixed_fault", "fixed_fifo_rd1", "fixed_foreign"],
                  ["fixed_q", "fixed_rd1", "fixed_cap2", "fixed_fault", "fixed_rd3", "fixed_rd3cap2", "fixed_n4",
                   "fixed_fifo_rd1", "fixed_foreign", "fixed_fifo"])
    # the model is not vacuous about shared caches: with cacheSwap's early return on another reader's
    # block (the code before d7bbfb4) and a cache whose Get keeps used blocks, TLC finds the stale mapping
    ctx.mrejects("BgzfReader", "ReaderMC", "ReaderMC_only_EarlyReturnOnForeign.cfg", "NoStaleMapping")
    if ctx.tier == "thorough":
        ctx.mrejects("BgzfReader", "ReaderMC", "ReaderMC_only_EarlyReturnOnForeign_rd2.cfg", "NoStaleMapping")
    ctx.build()
    trace = ctx.work + "/rd3.ndjson"
    s = ctx.drive(["rd", "--mode", "c03", "--out", trace], timeout=7200)
    ctx.extra["driver"] = s
    ctx.evaluations = s["lines"]
    ctx.distinct = s["scenarios"]
    ctx.validate("BgzfReader", "ReaderTrace", "ReaderTrace.cfg", trace)
    ctx.add_samples(trace, n=2, maxlines=12)
    if ctx.tier == "thorough":
        ctx.selftest("BgzfReader", "ReaderTrace", "ReaderTrace.cfg", trace, _reader.MUTS + [("differs-from-uncached", _reader.mut_same)], max_scen=300)
