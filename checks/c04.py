"""C04 - index queries are complete.
IndexP keeps only the list of added records and judges every answer by brute force
(Complete / NoneOverlap); IndexI is internal.Index's Add (bins with the extend-or-append
chunk rule, linear index growth) and Chunks (bin enumeration, tile pruning loop); TLC
checks IndexI against IndexP for every sorted record sequence on a tiny geometry and every
query.  Real bam.Index, tabix.Index and csi.Index runs (fixed edge cases, seeded sorted
record sets biased to tile and level edges, several references with gaps, placed-unmapped
and unplaced records, monotone synthetic chunks; BAM files written by the library with
real LastChunk values and bam.Iterator over the returned chunks) are validated by TLC,
before and after write+read and after MergeChunks with each strategy."""
from checks import _index
LEVEL = "model_checking"
TRACE_CFG = {"IndexTrace": "IndexTraceP.cfg"}


def run(ctx):
    _index.run(ctx, "C04")
