"""C20 - ITF-8 / LTF-8 codecs are exact inverses.
Tf8.tla is the bit layout from the CRAM specification; TLC checks its self-consistency
over a boundary-stratified value set, validates recorded Encode/Len/Decode/stream-reader
calls of the real code field by field, and exports the layout table that drives an
independent interpreter for the (strided / exhaustive) sweep over all int32."""
import json, os
LEVEL = "model_checking"
TRACE_CFG = {"Tf8Trace": "Tf8Trace.cfg"}


def mut_byte(ev):
    for e in ev:
        if e.get("ev") == "enc" and e["kind"] == "ltf8" and len(e["bytes"]) == 6:
            e["bytes"][3] ^= 0x10
            return ev


def mut_len(ev):
    for e in ev:
        if e.get("ev") == "enc" and e["kind"] == "itf8" and e["n"] == 3:
            e["len"] = 4
            return ev


def mut_dec_ok(ev):
    for e in ev:
        if e.get("ev") == "dec" and not e["ok"] and len(e["bytes"]) > 0:
            e["ok"] = True
            return ev


def mut_consumed(ev):
    for e in ev:
        if e.get("ev") == "sdec" and not e["err"] and len(e["bytes"]) > e["consumed"]:
            e["consumed"] += 1
            return ev


def run(ctx):
    ctx.rule = ("values: every encoded-length boundary +-2, all one-bit, complemented one-bit and two-bit patterns, seeded random "
                "values per length class (ITF-8: 5 classes, LTF-8: 9); byte strings of length 0..10 over 17 first-byte classes x "
                "3 fills through Decode and the cram stream readers; sweep: real codec vs interpreter of the TLC-exported layout "
                "table over all int32 with a stride (quick) or exhaustively (thorough). distinct = distinct values/strings")
    ctx.assumptions = ["the high nibble of ITF-8's fifth byte is not constrained (the CRAM text defines only the low nibble)",
                       "the sweep's table interpreter (Go, 30 lines) is trusted only as far as the TLC-validated sample agrees with it: "
                       "every disagreement it finds is re-judged by TLC on the trace"]
    ctx.mcheck("Tf8", "Tf8MC", "Tf8MC_%s.cfg" % ctx.tier, timeout=1800)
    layout = ctx.gen("Tf8", "Tf8Gen", "Tf8Gen.cfg")
    lp = os.path.join(ctx.work, "layout.json")
    json.dump(layout[0], open(lp, "w"))
    ctx.build()
    trace = ctx.work + "/c20.ndjson"
    s = ctx.drive(["c20", "--out", trace])
    sweep = ctx.work + "/c20sweep.ndjson"
    stride = 1 if ctx.tier == "thorough" else 4099
    s2 = ctx.drive(["c20", "--mode", "sweep", "--in", lp, "--out", sweep, "--stride", str(stride)])
    ctx.extra["driver"] = s
    ctx.extra["sweep"] = s2
    # (a driver that died inside the library leaves a crash event in its trace and no summary)
    ctx.evaluations = s["lines"] - s["scenarios"] + s2.get("itf8_evaluated", 0) + s2.get("ltf8_evaluated", 0)
    ctx.distinct = s.get("itf8_values", 0) + s.get("ltf8_values", 0)
    ctx.exhaustive = False
    ctx.validate("Tf8", "Tf8Trace", "Tf8Trace.cfg", trace)
    ctx.validate("Tf8", "Tf8Trace", "Tf8Trace.cfg", sweep)
    if s2.get("itf8_disagree", 0) + s2.get("ltf8_disagree", 0) > 0 and not ctx.rejected:
        from lib.vrun import Infra
        raise Infra("sweep interpreter disagrees with the code but TLC accepts the recorded calls: interpreter defect")
    ev = [json.loads(x) for x in open(trace)]
    ctx.samples = [e for e in ev if e["ev"] == "enc" and e["n"] == 5][:1] + [e for e in ev if e["ev"] == "enc" and e["kind"] == "ltf8" and e["n"] == 9][:1] + \
                  [e for e in ev if e["ev"] == "dec" and not e["ok"]][:1] + [e for e in ev if e["ev"] == "sdec"][5:6]
    if ctx.tier == "thorough":
        ctx.selftest("Tf8", "Tf8Trace", "Tf8Trace.cfg", trace,
                     [("flip-encoded-bit", mut_byte), ("wrong-Len", mut_len), ("decode-ok-on-short-input", mut_dec_ok),
                      ("stream-reader-overreads", mut_consumed)], max_scen=10)
