"""C07 - header serialisation round trips and identity invariants under edits.
HeaderP is the API-level model of a header's three lists under Add/Remove/SetName/Clone/
MergeHeaders/UnmarshalText; HeaderI the code's reference slice + name table + per-object
owner/id with its three AddReference paths; TLC checks HeaderI's invariants (ids equal
indices, ownership, unique names, table = list, released on removal) on the complete state
graph of a small instance.  Seeded edit histories over up to four headers run on the real
sam.Header; after every call the full projection of every live header (object identity,
ID(), name, length) and the text/binary serialisation fixpoints are logged and validated
against HeaderP by TLC."""
LEVEL = "model_checking"
TRACE_CFG = {"HeaderTrace": "HeaderTrace.cfg"}


def mut_id(ev):
    for e in ev:
        for h in e.get("state", []):
            if len(h["refs"]) >= 2:
                h["refs"][1][1] = 0
                return ev


def mut_res(ev):
    for e in ev:
        if e.get("ev") == "remove" and e["res"] == "nil":
            e["res"] = "err"
            return ev


def mut_serial(ev):
    for e in ev:
        if e.get("ev") == "add" and e.get("serial") == "ok":
            e["serial"] = "text not a fixpoint"
            return ev


def mut_link(ev):
    for e in ev:
        if e.get("ev") == "merge" and e.get("links") and e["links"][0]:
            e["links"][0][0] = 999
            return ev


def mut_drop(ev):
    for i, e in enumerate(ev):
        if e.get("ev") == "add" and e["res"] == "nil" and i + 1 < len(ev) and ev[i + 1]["ev"] != "T":
            del ev[i]
            return ev


def run(ctx):
    ctx.rule = ("histories of 3-27 (quick) / 3-42 (thorough) operations over up to 4 headers: NewHeader (version, SO, GO, extra @HD tag, comments), "
                "AddReference (fresh, object listed elsewhere, refining duplicate, conflicting length; optional fields AS/M5/SP/UR/other tag), RemoveReference, "
                "SetName/SetUID, AddReadGroup/RemoveReadGroup (dates in three zones, optional fields), AddProgram/RemoveProgram, Clone, MergeHeaders, "
                "UnmarshalText of an extra @SQ/@RG/@PG line; 300 (quick) / 20000 (thorough) histories; distinct = histories")
    ctx.assumptions = ["a name already present may be answered by 'unchanged', 'error' or 'replaced by the new object' for references (documented latitude of AddReference); "
                       "everything else is deterministic in HeaderP",
                       "TZ=UTC; a version is set whenever SO/GO are set (the format stores them on the @HD line)",
                       "HeaderI is bound to the code through the P-level traces and its as-coded switches, not through a table export"]
    ctx.mcheck("Header", "HeaderMC", "HeaderMC_%s.cfg" % ctx.tier, timeout=7200, heap="24g" if ctx.tier == "thorough" else None)
    ctx.build()
    trace = ctx.work + "/c07.ndjson"
    s = ctx.drive(["c07", "--out", trace], timeout=7200)
    ctx.extra["driver"] = s
    ctx.evaluations = s["lines"]
    ctx.distinct = s["scenarios"]
    ctx.validate("Header", "HeaderTrace", "HeaderTrace.cfg", trace)
    ctx.add_samples(trace, n=1, maxlines=8)
    if ctx.tier == "thorough":
        ctx.selftest("Header", "HeaderTrace", "HeaderTrace.cfg", trace,
                     [("id-not-index", mut_id), ("remove-fails", mut_res), ("serialisation-broken", mut_serial), ("link-outside-header", mut_link),
                      ("add-dropped", mut_drop)], max_scen=300)
