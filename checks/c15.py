"""C15 - index serialisation round trip keeps answers and statistics.
Same traces and specification as C04 (IndexTrace): the roundtrip event requires
write -> read -> write to give identical bytes and equal header fields (CSI version and
auxiliary bytes; tabix format, columns, meta character, skip, names); every query is
asked before and after and must be answered identically (field `same`) and completely;
statistics (reference count, per-reference mapped/unmapped counts and chunk span,
unplaced count) before and after must equal the true counts of the added records."""
from checks import _index
LEVEL = "model_checking"
TRACE_CFG = {"IndexTrace": "IndexTraceP.cfg"}


def run(ctx):
    _index.run(ctx, "C15")
