"""Shared steps of the index checks (C04, C15)."""
import json

ASSUME = ["a record without length occupies one base; Covers = the returned chunk contains the record's chunk in virtual-offset order",
          "records whose exclusive end is the very last indexable position are not generated (the libraries bound End like a position)",
          "tabix reference ids are the order of first appearance of the names; the harness logs those",
          "IndexI's Chunks is compared with the real answers (accept/reject of the query) only for indexes of at most 64 tiles"]


def mut_drop_chunk(ev):
    for e in ev:
        if e.get("ev") == "chunks" and e["res"] == "nil" and len(e["chunks"]) >= 1 and e["phase"] == "mem":
            e["chunks"] = e["chunks"][1:]
            return ev


def mut_err(ev):
    for e in ev:
        if e.get("ev") == "chunks" and e["res"] == "nil" and len(e["chunks"]) >= 1:
            e["res"] = "err: index: invalid interval"
            e["chunks"] = []
            return ev


def mut_stats(ev):
    for e in ev:
        if e.get("ev") == "stats" and e.get("refs"):
            for s in e["refs"]:
                if s[0]:
                    s[1] += 1
                    return ev


def mut_same(ev):
    for e in ev:
        if e.get("ev") == "chunks" and e.get("same") is True:
            e["same"] = False
            return ev


def mut_bytes(ev):
    for e in ev:
        if e.get("ev") == "roundtrip" and e.get("bytesEqual"):
            e["bytesEqual"] = False
            return ev


def mut_add_panic(ev):
    for e in ev:
        if e.get("ev") == "add":
            e["res"] = "panic: x"
            return ev


def run(ctx, prop):
    ctx.rule = ("6 fixed edge cases x {bai, tabix, csi}; seeded scenarios (quick 40 / thorough 1500): 0-24 sorted records on 1-4 references (gaps in ids), begins biased to "
                "tile and bin-level edges, lengths from {0,1,100,tile-1,tile,tile+1,3*tile,random, up to an edge}, placed-unmapped and unplaced records, monotone chunks; CSI "
                "geometries (14,5),(12,6),(0,3),(1,2),(5,4) v1/v2 with aux bytes; 25-40 queries each, asked in memory, after write+read, after MergeChunks(strategy) and after another "
                "write+read; BAM files written by the library (quick 6 / thorough 120) indexed from real LastChunk values with bam.Iterator over the answers; distinct = scenarios")
    ctx.assumptions = ASSUME
    ctx.mcheck("BinIndex", "IndexMC", "IndexMC_quick.cfg", timeout=3600)
    if ctx.tier == "thorough":
        ctx.mcheck("BinIndex", "IndexMC", "IndexMC_thorough.cfg", timeout=14000, heap="24g")
    ctx.build()
    t1, t2 = ctx.work + "/c04.ndjson", ctx.work + "/c04b.ndjson"
    s1 = ctx.drive(["c04", "--out", t1], timeout=7200)
    s2 = ctx.drive(["c04", "--mode", "bam", "--out", t2], timeout=7200)
    ctx.extra["driver"] = {"synthetic": s1, "realbam": s2}
    ctx.evaluations = s1["lines"] + s2["lines"]
    ctx.distinct = s1["scenarios"] + s2["scenarios"]
    ctx.validate("BinIndex", "IndexTrace", "IndexTraceP.cfg", t1)
    ctx.validate("BinIndex", "IndexTrace", "IndexTraceI.cfg", t1, is_p=False)
    ctx.validate("BinIndex", "IndexTrace", "IndexTraceP.cfg", t2)
    n = {"chunks": 0, "stats": 0, "roundtrip": 0, "add": 0, "reach": 0}
    for line in open(t1):
        e = json.loads(line)
        if e["ev"] in n:
            n[e["ev"]] += 1
    ctx.extra["events"] = n
    ev = [json.loads(x) for x in open(t1)]
    ctx.samples = [e for e in ev if e["ev"] == "add"][5:7] + [e for e in ev if e["ev"] == "chunks" and e["chunks"]][:1] + \
                  [e for e in ev if e["ev"] == "stats" and e.get("refs")][:1] + [e for e in ev if e["ev"] == "roundtrip"][:1]
    if ctx.tier == "thorough":
        ctx.selftest("BinIndex", "IndexTrace", "IndexTraceP.cfg", t1,
                     [("chunk-missing", mut_drop_chunk), ("error-although-overlap", mut_err), ("wrong-count", mut_stats),
                      ("answer-differs-after-roundtrip", mut_same), ("bytes-differ", mut_bytes), ("add-panics", mut_add_panic)], max_scen=58)
