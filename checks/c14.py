"""C14 - cache implementations honour the Cache contract, sequentially and concurrently.
CacheP is the contract/policy/property spec; CacheI is the code's list discipline; TLC
checks CacheI => CacheP (refinement + invariants) per policy; all short histories and
seeded long ones are executed on the real LRU/FIFO/Random (with the environment recycling
handed-back blocks) and validated against CacheP (verdict) and CacheI (conformance);
concurrent call/return histories are checked for linearizability against CacheP."""
import json, os
LEVEL = "model_checking"
TRACE_CFG = {"CacheTrace": "CacheTrace_LRU.cfg"}
POLICIES = ["LRU", "FIFO", "Random"]


def split(path, work, tag):
    out = {p: open(os.path.join(work, "%s_%s.ndjson" % (tag, p)), "w") for p in POLICIES}
    pol = None
    for line in open(path):
        e = json.loads(line)
        if e["ev"] == "T":
            pol = e["policy"]
        out[pol].write(line)
    for f in out.values():
        f.close()
    return {p: os.path.join(work, "%s_%s.ndjson" % (tag, p)) for p in POLICIES}


def mut_len(ev):
    for e in ev:
        if e.get("ev") == "put" and e.get("res") == "ok" and e["ret"]:
            e["len"] += 1
            return ev


def mut_evicted(ev):
    for e in ev:
        if e.get("ev") == "put" and e.get("res") == "ok" and e["evid"] != 0 and e["ret"]:
            e["evid"] = 0
            return ev


def mut_stale(ev):
    for e in ev:
        if e.get("res") == "ok":
            for p in e.get("peek", []):
                if p[1]:
                    p[3] += 1000
                    return ev


def mut_drop_event(ev):
    for i, e in enumerate(ev):
        if e.get("ev") == "put" and e.get("res") == "ok" and e["ret"] and i + 1 < len(ev) and ev[i + 1]["ev"] != "T":
            del ev[i]
            return ev


def mut_lin(ev):
    for e in ev:
        if e.get("ev") == "ret" and e.get("op") == "len":
            e["n"] += 1
            return ev


def mut_lin_stats(ev):
    # a Stats reply that misses the count of an operation that had returned before it was asked
    for e in ev:
        if e.get("ev") == "ret" and e.get("op") == "stats" and e["stats"][2] > 0:
            e["stats"][2] -= 1
            return ev


def replay(ctx, path):
    d = json.load(open(path))
    import tempfile
    from lib import vrun
    fd, p = tempfile.mkstemp(suffix=".ndjson")
    with os.fdopen(fd, "w") as f:
        for e in d["scenario"]:
            f.write(json.dumps(e) + "\n")
    moddir, module = d["spec"].split("/")
    pol = d["scenario"][0]["policy"]
    v = vrun.validate_trace(moddir, module, "%s_%s.cfg" % (module, pol), p, branching=(module == "CacheLin"))
    os.remove(p)
    if v.rejected:
        print("VIOLATION property=C14 replay=%s" % path)
        print("  %s: %s" % (v.rejected[0]["why"], json.dumps(v.rejected[0]["event"])[:300]))
        return 1
    print("replay accepted by the specification")
    return 0


def run(ctx):
    ctx.rule = ("sequential: every history of exactly D operations (D=3 quick, 4 thorough) over {Put of each block, Get of each base, "
                "Resize, Drop, Free, Overwrite of handed-back blocks, Touch} on each of LRU/FIFO/Random with capacity 1 and 2, plus "
                "seeded random histories of 30-40 operations (3-6 blocks, 4 bases, capacity 1-4, optionally behind a StatsRecorder); "
                "concurrent: 2-4 goroutines x 2-4 operations on one cache (half of them through a StatsRecorder, Stats being one of the operations), "
                "call/return events; a paused operation under a StatsRecorder against Get/Put/Stats of a second goroutine; distinct = distinct histories")
    ctx.assumptions = ["the environment overwrites only blocks that Put handed back (the reader's usage rule in the property)",
                       "Resize with a negative capacity is not exercised",
                       "a call is a hang only if it exceeds the watchdog period and its goroutine is parked in a sync primitive of the cache package"]
    q = "q" if ctx.tier == "quick" else ""
    for p in POLICIES:
        ctx.mcheck("BlockCache", "CacheMC", "CacheMC%s_%s.cfg" % (q, p), timeout=3000)
    ctx.build()
    trace = ctx.work + "/c14.ndjson"
    s = ctx.drive(["c14", "--out", trace])
    conc = ctx.work + "/c14c.ndjson"
    s2 = ctx.drive(["c14", "--mode", "conc", "--out", conc])
    ctx.extra["driver"] = {"sequential": s, "concurrent": s2}
    ctx.evaluations = s["lines"] + s2["lines"]
    ctx.distinct = s["scenarios"] + s2["scenarios"]
    seqf = split(trace, ctx.work, "seq")
    concf = split(conc, ctx.work, "conc")
    for p in POLICIES:
        ctx.validate("BlockCache", "CacheTrace", "CacheTrace_%s.cfg" % p, seqf[p], is_p=True)
        ctx.validate("BlockCache", "CacheTraceI", "CacheTraceI_%s.cfg" % p, seqf[p], is_p=False)
        ctx.validate("BlockCache", "CacheLin", "CacheLin_%s.cfg" % p, concf[p], is_p=True, branching=True)
    ctx.add_samples(seqf["FIFO"], n=1)
    ctx.add_samples(concf["LRU"], n=1, maxlines=30)
    if ctx.tier == "thorough":
        ctx.selftest("BlockCache", "CacheTrace", "CacheTrace_LRU.cfg", seqf["LRU"],
                     [("wrong-Len", mut_len), ("eviction-hidden", mut_evicted), ("stale-peek", mut_stale),
                      ("dropped-put-event", mut_drop_event)], max_scen=300)
        ctx.selftest("BlockCache", "CacheLin", "CacheLin_LRU.cfg", concf["LRU"], [("wrong-Len-reply", mut_lin), ("stats-miss-a-put", mut_lin_stats)],
                     max_scen=40, branching=True)
